------------------------------ MODULE Lookups ------------------------------
(***************************************************************************)
(* Requests that operations send to the chiplets and to the range checker  *)
(* (docs/src/design/stack/{io_ops,u32_ops,crypto_ops}.md, chiplets/*.md,    *)
(* lookups/*.md, range.md), as multisets computed from the specification's  *)
(* own machine state, and the contract of the auxiliary columns.            *)
(*                                                                         *)
(* Requests of one row (op executed in state vm):                           *)
(*   memory  : <<ctx, addr, clk, isRead, word>>      one per accessed word   *)
(*   bitwise : <<selector (0 AND / 1 XOR), a, b, z>>                         *)
(*   range   : 16-bit values (the four helper limbs of a u32 operation)      *)
(* Responses are the rows of the memory chiplet, the last rows of the        *)
(* bitwise cycles and the range table (value, multiplicity); the memory      *)
(* chiplet itself requests range checks of its delta limbs d0, d1.           *)
(* Balanced == the bags are equal.                                           *)
(***************************************************************************)
EXTENDS MidenVM, FiniteSets

MemReq(vm, a, rd, w) == [ctx |-> vm.ctx, a |-> a, clk |-> vm.clk, rd |-> rd, w |-> w]
MemReqs(vm, o, env) ==
  LET s == vm.stack  a0 == s[1] IN
  CASE o = "MLOADW" -> <<MemReq(vm, a0, 1, MRead(vm, a0))>>
    [] o = "MLOAD" -> <<MemReq(vm, a0, 1, MRead(vm, a0))>>
    [] o = "MSTOREW" -> <<MemReq(vm, a0, 0, <<s[5], s[4], s[3], s[2]>>)>>
    [] o = "MSTORE" -> LET w == MRead(vm, a0) IN <<MemReq(vm, a0, 0, <<s[2], w[2], w[3], w[4]>>)>>
    [] o = "MSTREAM" -> LET a == s[13] IN <<MemReq(vm, a, 1, MRead(vm, a)), MemReq(vm, FAdd(a, F1), 1, MRead(vm, FAdd(a, F1)))>>
    [] o = "RCOMBBASE" -> <<MemReq(vm, s[14], 1, MRead(vm, s[14])), MemReq(vm, s[15], 1, MRead(vm, s[15]))>>
    [] o = "PIPE" -> LET a == s[13]  n == env.next IN
                     <<MemReq(vm, a, 0, <<n[8], n[7], n[6], n[5]>>), MemReq(vm, FAdd(a, F1), 0, <<n[4], n[3], n[2], n[1]>>)>>
    [] OTHER -> <<>>

BwReqs(vm, o) ==
  LET s == vm.stack IN
  \* (u32_ops.md: the stack holds [b, a, ...]; the request names a, b in that order)
  CASE o = "U32AND" -> <<[sel |-> 0, a |-> s[2], b |-> s[1], z |-> U32And(s[1], s[2])]>>
    [] o = "U32XOR" -> <<[sel |-> 1, a |-> s[2], b |-> s[1], z |-> U32Xor(s[1], s[2])]>>
    [] OTHER -> <<>>

\* helper limbs of the u32 operations (u32_ops.md); operands that are not u32 values: not defined here (empty, flagged)
U32Ops == {"U32SPLIT", "U32ASSERT2", "U32ADD", "U32ADD3", "U32SUB", "U32MUL", "U32MADD", "U32DIV"}
RcDefined(vm, o) ==
  LET s == vm.stack IN
  CASE o = "U32SPLIT" -> TRUE
    [] o \in {"U32ASSERT2", "U32ADD", "U32SUB", "U32MUL"} -> IsU32(s[1]) /\ IsU32(s[2])
    [] o \in {"U32ADD3", "U32MADD"} -> IsU32(s[1]) /\ IsU32(s[2]) /\ IsU32(s[3])
    [] o = "U32DIV" -> IsU32(s[1]) /\ IsU32(s[2]) /\ s[1] # F0
    [] OTHER -> TRUE
RcReqs(vm, o) ==
  LET s == vm.stack  a0 == s[1]  a1 == s[2]  a2 == s[3] IN
  CASE o = "U32SPLIT" -> <<a0[1], a0[2], a0[3], a0[4]>>
    [] o = "U32ASSERT2" -> <<a0[1], a0[2], a1[1], a1[2]>>
    [] o = "U32ADD" -> LET r == U32AddPair(a1, a0) IN <<r[1][1], r[1][2], r[2][1], 0>>
    [] o = "U32ADD3" -> LET r == U32Add3Pair(a2, a1, a0) IN <<r[1][1], r[1][2], r[2][1], 0>>
    [] o = "U32SUB" -> LET r == U32SubPair(a1, a0) IN <<r[1][1], r[1][2], 0, 0>>
    [] o = "U32MUL" -> LET r == U32MulPair(a1, a0) IN <<r[1][1], r[1][2], r[2][1], r[2][2]>>
    [] o = "U32MADD" -> LET r == U32MaddPair(a1, a0, a2) IN <<r[1][1], r[1][2], r[2][1], r[2][2]>>
    \* [b, a, ...] -> [remainder, quotient, ...] : limbs of (a - quotient) and of (b - remainder - 1)
    [] o = "U32DIV" -> LET r == U32DivMod(a1, a0)
                           x == FSub(a1, r[1])
                           y == FSub(FSub(a0, r[2]), F1)
                       IN <<x[1], x[2], y[1], y[2]>>
    [] OTHER -> <<>>

\* bag equality of two sequences
Count(q, x) == Cardinality({j \in 1 .. Len(q) : q[j] = x})
BagEq(p, q) == Len(p) = Len(q) /\ \A i \in 1 .. Len(p) : Count(p, p[i]) = Count(q, p[i])

\* ------------------------------------------------------------------------
\* auxiliary (running product / LogUp) columns: value the column must have in the last row before the random row,
\* as a function of its first-row value, for any challenges
\*   block stack table p1, op group table p3, chiplets bus b_chip : empty / balanced at the end    -> 1
\*   block hash table p2 : starts holding the program-hash row, empty at the end                    -> 1
\*   range checker bus b_range : requests and responses cancel                                       -> first-row value
\*   stack overflow table : starts with the rows of the inputs below position 15, ends with the rows of the outputs below
\*     position 15 -> the value the public inputs define ("public": judged through the AIR's boundary assertions on this column)
\*   (kernel procedure table: depends on the public inputs, recorded)
AuxColumns == <<"p1_block_stack", "p2_block_hash", "p3_op_group", "stack_overflow", "b_range", "vt_chip", "b_chip">>
Terminal(col) == CASE col \in {"p1_block_stack", "p2_block_hash", "p3_op_group", "b_chip"} -> "one"
                   [] col = "b_range" -> "first"
                   [] col = "vt_chip" -> "one_without_kernel"      \* sibling table empty; kernel procedure table: public (not judged)
                   [] OTHER -> "public"
=============================================================================
