------------------------------- MODULE Hints -------------------------------
(***************************************************************************)
(* C09: instructions that take a prover-supplied hint.  The reference       *)
(* defines their result as a function of the operands only (Masm.tla,      *)
(* U64.tla); the hint never appears.  Hence, whatever a host answers, an    *)
(* execution either fails or yields that result; with the honest host it    *)
(* yields that result whenever the reference defines one.                   *)
(* Verdict(expected, honest, outcome) is the acceptance predicate applied   *)
(* to every recorded execution (outcome = "fail" or the resulting stack).   *)
(***************************************************************************)
EXTENDS U64

\* expected: [ok |-> "ok", stack |-> s] | [ok |-> "fail"] ; outcome: same shape
Verdict(expected, honest, outcome) ==
  IF expected.ok = "ok"
    THEN IF honest THEN outcome.ok = "ok" /\ outcome.stack = expected.stack
                   ELSE outcome.ok = "fail" \/ (outcome.ok = "ok" /\ outcome.stack = expected.stack)
    ELSE outcome.ok = "fail"

\* ---- abstract Merkle trees: hash is an injective constructor, so a path opens a node iff it is the honest path ----
\* a tree of depth d over leaves l_0 .. l_{2^d - 1}; Node(d', i) for d' <= d
RECURSIVE NodeTerm(_, _, _, _)
NodeTerm(leaves, depth, d, i) == IF d = depth THEN <<"leaf", leaves[i + 1]>>
                                 ELSE <<"h", NodeTerm(leaves, depth, d + 1, 2 * i), NodeTerm(leaves, depth, d + 1, 2 * i + 1)>>
\* honest path for node (d, i): siblings from the node's level up to level 1
RECURSIVE PathOf(_, _, _, _)
PathOf(leaves, depth, d, i) == IF d = 0 THEN <<>>
                               ELSE <<NodeTerm(leaves, depth, d, IF i % 2 = 0 THEN i + 1 ELSE i - 1)>> \o PathOf(leaves, depth, d - 1, i \div 2)
\* folding a value along a path with index bits
RECURSIVE Fold(_, _, _)
Fold(v, path, i) == IF path = <<>> THEN v
                    ELSE Fold(IF i % 2 = 0 THEN <<"h", v, path[1]>> ELSE <<"h", path[1], v>>, Tail(path), i \div 2)
\* a claimed opening (value v at depth d index i under root r with path p) is accepted iff
Opens(v, d, i, r, p) == Len(p) = d /\ Fold(v, p, i) = r
=============================================================================
