------------------------------- MODULE TV_VM -------------------------------
(***************************************************************************)
(* Trace validation of recorded executions against MidenVM.tla.            *)
(* The recording (ndjson, path in env TRACE) is a concatenation of runs:   *)
(* {"e":"pre",...} {"e":"row",...}* {"e":"end",...}.  Every row must be the *)
(* row the specification produces in its current state, in every recorded  *)
(* column; the specification then takes its own step.  A mismatch prints   *)
(* REJECT with the differing fields and stops; ACCEPT is printed when all  *)
(* events are consumed.                                                    *)
(***************************************************************************)
EXTENDS Naturals, Sequences, TLC, Json, IOUtils
HB == 256
G == 9
B == 8
INSTANCE Chiplets

Events == ndJsonDeserialize(IOEnv.TRACE)
N == Len(Events)

VARIABLES l, vm, prog, stats, lk        \* lk : requests issued so far (C12) [mem, bw, rc : sequences ; def : all defined]
vars == <<l, vm, prog, stats, lk>>
NoLk == [mem |-> <<>>, bw |-> <<>>, rc |-> <<>>, def |-> TRUE, hs |-> <<>>, sys |-> <<>>]

\* JSON helpers: JSON arrays are sequences already; digests / words are sequences of 4 limb-sequences
MkOps(ops) == [i \in 1 .. Len(ops) |-> [o |-> ops[i].o, c |-> ops[i].c, imm |-> ops[i].imm]]
RECURSIVE MkNode(_)
MkNode(n) == IF n.k = "span" THEN [k |-> "span", h |-> n.h, ops |-> MkOps(n.ops)]
             ELSE IF n.k \in {"call", "syscall"} THEN [k |-> n.k, h |-> n.h, f |-> n.f, isdyn |-> n.isdyn]
             ELSE IF n.k = "dyn" THEN [k |-> "dyn", h |-> n.h]
             ELSE [k |-> n.k, h |-> n.h, c |-> [i \in 1 .. Len(n.c) |-> MkNode(n.c[i])]]

MkProg(pre) == [mast |-> MkNode(pre.mast), procs |-> [i \in 1 .. Len(pre.procs) |-> [h |-> pre.procs[i].h, node |-> MkNode(pre.procs[i].node)]],
                kernel |-> pre.kernel, hash |-> pre.hash, dynhash |-> pre.dynhash]

\* full chiplet rows of a recording (JSON arrays -> records)
HasFull(ev) == "chip" \in DOMAIN ev /\ "full" \in DOMAIN ev.chip
FullHasher(f) == [i \in 1 .. Len(f.hasher) |-> [s |-> f.hasher[i][1], h |-> f.hasher[i][2], i |-> f.hasher[i][3]]]
FullBw(f) == [i \in 1 .. Len(f.bw) |-> [sel |-> f.bw[i][1], a |-> f.bw[i][2], b |-> f.bw[i][3], ab |-> f.bw[i][4], bb |-> f.bw[i][5],
                                        zp |-> f.bw[i][6], z |-> f.bw[i][7]]]
FullMem(f) == [i \in 1 .. Len(f.mem) |-> [s0 |-> f.mem[i][1], s1 |-> f.mem[i][2], ctx |-> f.mem[i][3], a |-> f.mem[i][4], clk |-> f.mem[i][5],
                                          w |-> f.mem[i][6], d0 |-> f.mem[i][7], d1 |-> f.mem[i][8], t |-> f.mem[i][9]]]
FullKern(f) == [i \in 1 .. Len(f.kern) |-> [s0 |-> f.kern[i][1], idx |-> f.kern[i][2], root |-> f.kern[i][3]]]

Init == l = 1 /\ vm = [none |-> TRUE] /\ prog = [none |-> TRUE] /\ stats = [rows |-> 0, runs |-> 0] /\ lk = NoLk

Pre == /\ l >= 1 /\ l <= N /\ Events[l].e = "pre"
       /\ IF "mast" \in DOMAIN Events[l]
            THEN \E p \in {MkProg(Events[l])} :
                 /\ prog' = p
                 /\ vm' = InitVm(p, Events[l].inputs, Events[l].init_ovf)
            ELSE prog' = [none |-> TRUE] /\ vm' = [none |-> TRUE]
       /\ l' = l + 1 /\ stats' = [stats EXCEPT !.runs = @ + 1] /\ lk' = NoLk

\* fields of the recorded row that differ from the state / the predicted row
Diffs(ev, r) ==
  LET row == r.row IN
  {f \in {"clk", "ctx", "fmp", "insys", "fh", "s", "b0", "b1", "op", "addr", "h", "sp", "gc", "ox", "bf"} :
     CASE f = "clk" -> ev.clk # vm.clk
       [] f = "ctx" -> ev.ctx # vm.ctx
       [] f = "fmp" -> ev.fmp # vm.fmp
       [] f = "insys" -> ev.insys # vm.insys
       [] f = "fh" -> ev.fh # vm.fh
       [] f = "s" -> ev.s # Top16(vm.stack)
       [] f = "b0" -> ev.b0 # Len(vm.stack)
       [] f = "b1" -> ev.b1 # B1(vm)
       [] f = "op" -> ev.op # row.op
       [] f = "addr" -> ev.addr # row.addr
       [] f = "h" -> SubSeq(ev.h, 1, row.hmask) # SubSeq(row.h, 1, row.hmask)
       [] f = "sp" -> ev.sp # row.sp
       [] f = "gc" -> ev.gc # row.gc
       [] f = "ox" -> ev.ox # row.ox
       [] f = "bf" -> ev.bf # row.bf}

\* (\E x \in {e} binds x to the value of e: TLC re-evaluates LET definitions on every use inside an action)
RowEv == /\ l >= 1 /\ l <= N /\ Events[l].e = "row"
         /\ \E ev \in {Events[l]} :
            \E nxt \in {IF l < N /\ Events[l + 1].e = "row" THEN Events[l + 1].s ELSE [i \in 1 .. 16 |-> F0]} :
            \E r \in {Step(vm, [next |-> IF "perm" \in DOMAIN ev THEN ev.perm \o SubSeq(nxt, 13, 16) ELSE nxt], prog)} :
              IF r.ok # "ok"
                 THEN /\ PrintT(<<"REJECT", l, "spec cannot step", r>>) /\ l' = 0 /\ UNCHANGED <<vm, prog, stats, lk>>
                 ELSE \E d \in {Diffs(ev, r)} :
                      IF d # {}
                        THEN /\ PrintT(<<"REJECT", l, "t", ev.t, "op", ev.op, "fields", d, "expected_row", r.row,
                                         "spec_state", [clk |-> vm.clk, ctx |-> vm.ctx, b0 |-> Len(vm.stack), b1 |-> B1(vm), top |-> SubSeq(vm.stack, 1, 4)]>>)
                             /\ l' = 0 /\ UNCHANGED <<vm, prog, stats, lk>>
                        ELSE /\ vm' = r.vm /\ l' = l + 1 /\ stats' = [stats EXCEPT !.rows = @ + 1] /\ UNCHANGED prog
                             \* requests this row sends to the chiplets / range checker, computed from the specification's state
                             /\ \E e2 \in {[next |-> IF "perm" \in DOMAIN ev THEN ev.perm \o SubSeq(nxt, 13, 16) ELSE nxt]} :
                                  lk' = IF r.row.sp = 1
                                          THEN [mem |-> lk.mem \o MemReqs(vm, r.row.op, e2), bw |-> lk.bw \o BwReqs(vm, r.row.op),
                                                rc |-> lk.rc \o (IF RcDefined(vm, r.row.op) THEN RcReqs(vm, r.row.op) ELSE <<>>),
                                                def |-> lk.def /\ RcDefined(vm, r.row.op),
                                                hs |-> lk.hs \o HashReqs(vm, r), sys |-> lk.sys]
                                          ELSE [lk EXCEPT !.hs = @ \o HashReqs(vm, r), !.sys = @ \o KernReqs(r)]

\* the specification running on its own (no recorded inputs) until it halts, fails or runs out of fuel
RECURSIVE FreeRun(_, _)
FreeRun(v, fuel) ==
  IF v.todo.do = "halt" THEN [ok |-> "halted", vm |-> v]
  ELSE IF fuel = 0 THEN [ok |-> "fuel"]
  ELSE LET r == Step(v, [next |-> [i \in 1 .. 16 |-> F0]], prog) IN IF r.ok = "ok" THEN FreeRun(r.vm, fuel - 1) ELSE r

\* end of a run: a successful execution must have reached HALT with the recorded outputs; for a failed execution
\* (no rows are recorded) the specification is run from the initial state and must fail in the same way
EndEv == /\ l >= 1 /\ l <= N /\ Events[l].e = "end"
         /\ \E ev \in {Events[l]} :
            IF ev.outcome = "ok" /\ "none" \notin DOMAIN vm
              THEN \E bad \in {{f \in {"halt", "out_stack", "lk_memory", "lk_bitwise", "lk_range", "lk_hasher_rows",
                                         "chip_hasher", "chip_bitwise", "chip_memory", "chip_kernel", "chip_layout"} :
                                 CASE f = "halt" -> vm.todo.do # "halt"
                                   [] f = "out_stack" -> ev.out_stack # vm.stack
                                   \* lookups balance (C12): what the chiplets / range checker provide is what the operations requested
                                   [] f = "lk_memory" -> "chip" \in DOMAIN ev /\ ~BagEq(lk.mem, [i \in 1 .. Len(ev.chip.mem) |->
                                          [ctx |-> ev.chip.mem[i][1], a |-> ev.chip.mem[i][2], clk |-> ev.chip.mem[i][3], rd |-> ev.chip.mem[i][4], w |-> ev.chip.mem[i][5]]])
                                   [] f = "lk_bitwise" -> "chip" \in DOMAIN ev /\ ~BagEq(lk.bw, [i \in 1 .. Len(ev.chip.bw) |->
                                          [sel |-> ev.chip.bw[i][1], a |-> ev.chip.bw[i][2], b |-> ev.chip.bw[i][3], z |-> ev.chip.bw[i][4]]])
                                   [] f = "lk_range" -> "chip" \in DOMAIN ev /\ lk.def /\
                                          LET req == lk.rc \o ev.chip.memd  tab == ev.chip.range IN
                                          \/ \E i \in 1 .. Len(tab) : Count(req, tab[i][1]) # tab[i][2]
                                          \/ \E j \in 1 .. Len(req) : \A i \in 1 .. Len(tab) : tab[i][1] # req[j]
                                   [] f = "lk_hasher_rows" -> "chip" \in DOMAIN ev /\ ev.chip.hasher_rows # vm.hrows
                                   \* the chiplets segment row by row (Chiplets.tla), when the recording carries it
                                   [] f = "chip_hasher" -> HasFull(ev) /\ HasherBad(lk.hs, 1, FullHasher(ev.chip.full), ev.chip.full.rounds, 1) # 0
                                   [] f = "chip_bitwise" -> HasFull(ev) /\ BitwiseBad(lk.bw, FullBw(ev.chip.full)) # 0
                                   [] f = "chip_memory" -> HasFull(ev) /\ MemoryBad(lk.mem, FullMem(ev.chip.full)) # 0
                                   [] f = "chip_kernel" -> HasFull(ev) /\ KernelBad(prog.kernel, lk.sys, FullKern(ev.chip.full))
                                   [] f = "chip_layout" -> HasFull(ev) /\ ~(ev.chip.full.order_ok /\ ev.chip.full.pad_zero)}} :
                   IF bad # {} THEN PrintT(<<"REJECT", l, "end", bad>>) /\ l' = 0
                      ELSE l' = l + 1
            ELSE IF ev.outcome = "err" /\ "none" \notin DOMAIN vm
              THEN \E fr \in {FreeRun(vm, 5000)} :
                   IF fr.ok = "fail" /\ fr.kind = ev.err.kind THEN l' = l + 1
                   ELSE PrintT(<<"REJECT", l, "end", "spec outcome", [ok |-> fr.ok, kind |-> IF fr.ok = "fail" THEN fr.kind ELSE ""], "recorded", ev.err.kind>>) /\ l' = 0
            ELSE IF ev.outcome = "panic" THEN PrintT(<<"REJECT", l, "end", "panic", ev.msg>>) /\ l' = 0
            ELSE l' = l + 1
         /\ UNCHANGED <<vm, prog, stats, lk>>

Done == l = N + 1 /\ PrintT(<<"ACCEPT", stats>>) /\ l' = N + 2 /\ UNCHANGED <<vm, prog, stats, lk>>
Next == Pre \/ RowEv \/ EndEv \/ Done
View == l
=============================================================================
