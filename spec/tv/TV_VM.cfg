INIT Init
NEXT Next
VIEW View
CHECK_DEADLOCK FALSE
