------------------------------- MODULE Advice -------------------------------
(***************************************************************************)
(* The advice provider as a state machine, written from the instruction    *)
(* reference (docs/src/user_docs/assembly/io_operations.md, "Non-           *)
(* deterministic inputs") and the documented contract of the advice         *)
(* injectors (core/src/operations/decorators/advice.rs, doc comments of     *)
(* AdviceInjector).                                                         *)
(*                                                                         *)
(* State  st = [stack, mem, adv, map]                                       *)
(*   stack, mem, adv : as in Masm.tla (operand stack top first, memory of   *)
(*                     the current context, advice stack next value first)  *)
(*   map             : advice map, a function  key word -> list of elements *)
(*                                                                         *)
(* The instructions fall into two classes (io_operations.md):               *)
(*  - readers   adv_push.n / adv_loadw / adv_pipe move data from the advice *)
(*    stack to the operand stack (and memory): Masm!Apply;                  *)
(*  - injectors adv.* "affect only the advice provider state.  That is,     *)
(*    the state of all other VM components (e.g., stack, memory) are        *)
(*    unaffected", and they take no cycles: InjectorFrame below.            *)
(*                                                                         *)
(* The RPO permutation is an uninterpreted injective constructor: the i-th *)
(* element of the permutation of a 12-element state s is the term           *)
(* <<"P", s, i>>.  hperm, hmerge and the keys computed by insert_hdword /   *)
(* insert_hperm are terms over it, so "the key under which the injector    *)
(* stores is the digest the VM itself computes for the same words" is       *)
(* structural equality of terms (collision resistance of RPO is assumed).   *)
(***************************************************************************)
EXTENDS Masm

Rev4(w) == <<w[4], w[3], w[2], w[1]>>
\* the k-th word (0-based) of the operand stack in word order: a word <<w0, w1, w2, w3>> lies on the stack with w3 on top
StackWord(s, k) == Rev4(WordAt(s, k))

\* ---- uninterpreted permutation -------------------------------------------------------------
Sym(s12, i) == <<"P", s12, i>>
PermOut(s12) == [i \in 1 .. 12 |-> Sym(s12, i - 1)]
Digest(s12) == SubSeq(PermOut(s12), 5, 8)                  \* state elements 4 .. 7 (design/chiplets/hasher.md)
\* 2-to-1 hash of words A, B in domain d: capacity <<0, d, 0, 0>>, rate A || B
MergeIn(A, B, d) == Digest(<<F0, d, F0, F0>> \o A \o B)

MapHas(map, k) == k \in DOMAIN map
MapSet(map, k, v) == [x \in (DOMAIN map) \cup {k} |-> IF x = k THEN v ELSE map[x]]

Injectors == {"adv.push_mapval", "adv.push_mapvaln", "adv.insert_mem", "adv.insert_hdword", "adv.insert_hperm"}
IsInjector(ins) == ins.op \in Injectors

RECURSIVE MemWords(_, _, _)
\* elements of memory[a .. b) : whole words, unwritten addresses read as zeros (a, b small naturals)
MemWords(mem, a, b) == IF a >= b THEN <<>> ELSE MemRead(mem, Small(a)) \o MemWords(mem, a + 1, b)

ApplyA(st, ins) ==
  LET s == st.stack  op == ins.op IN
  CASE op = "hperm" ->
         \* [B, A, C, ...] : the top twelve elements are the hasher state, the top of the stack being its last element
         LET s12 == [j \in 1 .. 12 |-> s[13 - j]]
             out == PermOut(s12)
         IN Ok(WithStack(st, [i \in 1 .. 12 |-> out[13 - i]] \o Rest(s, 12)))
    [] op = "hmerge" ->
         \* [B, A, ...] -> [C, ...],  C = hash(A, B)  (crypto_operations.md)
         Ok(WithStack(st, Rev4(MergeIn(StackWord(s, 1), StackWord(s, 0), F0)) \o Rest(s, 8)))
  \* ---- injectors that push onto the advice stack ----
    [] op \in {"adv.push_mapval", "adv.push_mapvaln"} ->
         \* key word at stack offset p (0, 4, 8, 12); advice stack afterwards: [len?, values, ...]
         LET k == Rev4(SubSeq(s, ins.p + 1, ins.p + 4)) IN
         IF ~MapHas(st.map, k) THEN Fail("AdviceMapKeyNotFound", 0)
         ELSE LET v == st.map[k] IN
              Ok([st EXCEPT !.adv = (IF op = "adv.push_mapvaln" THEN <<Small(Len(v))>> ELSE <<>>) \o v \o st.adv])
  \* ---- injectors that insert into the advice map ----
    [] op = "adv.insert_mem" ->
         \* [K, a, b, ...] : advice_map[K] <- memory[a .. b)
         LET a == At(s, 4)  b == At(s, 5) IN
         IF ~IsU32(a) \/ ~IsU32(b) THEN Fail("MemoryAddressOutOfBounds", 0)
         ELSE IF NatLt(b, a) THEN Fail("InvalidMemoryRange", 0)
         ELSE IF ~IsSmall(a) \/ ~IsSmall(b) THEN Undef          \* large ranges are not generated
         ELSE Ok([st EXCEPT !.map = MapSet(st.map, StackWord(s, 0), MemWords(st.mem, a[1], b[1]))])
    [] op = "adv.insert_hdword" ->
         \* [B, A, ...] : advice_map[hash(A || B, d)] <- A || B ; the domain d is the immediate (default 0)
         LET A == StackWord(s, 1)  B == StackWord(s, 0) IN
         Ok([st EXCEPT !.map = MapSet(st.map, MergeIn(A, B, Small(ins.p)), A \o B)])
    [] op = "adv.insert_hperm" ->
         \* [B, A, C, ...] : advice_map[permute(C, A, B).digest] <- A || B
         LET A == StackWord(s, 1)  B == StackWord(s, 0)  C == StackWord(s, 2) IN
         Ok([st EXCEPT !.map = MapSet(st.map, Digest(C \o A \o B), A \o B)])
    [] OTHER -> Apply(st, ins)

\* ---- laws (checked by TLC over all instruction sequences of MC_Advice) -----------------------
\* an injector changes neither the operand stack nor memory
InjectorFrame(st, ins) ==
  LET r == ApplyA(st, ins) IN (IsInjector(ins) /\ r.ok = "ok") => (r.st.stack = st.stack /\ r.st.mem = st.mem)
\* readers and ordinary instructions never touch the advice map; no instruction ever removes a key
MapGrows(st, ins) ==
  LET r == ApplyA(st, ins) IN r.ok = "ok" =>
    /\ (DOMAIN st.map) \subseteq (DOMAIN r.st.map)
    /\ (~IsInjector(ins) => r.st.map = st.map)
\* what an injector pushed is popped first, in list order, and the advice below it is untouched
PushedFirst(st, ins) ==
  LET r == ApplyA(st, ins) IN (ins.op \in {"adv.push_mapval", "adv.push_mapvaln"} /\ r.ok = "ok") =>
    LET n == Len(r.st.adv) - Len(st.adv) IN n >= 0 /\ SubSeq(r.st.adv, n + 1, Len(r.st.adv)) = st.adv
\* the key of insert_hdword (domain 0) is what hmerge computes from the same two words
HdwordKeyIsHmerge(st) ==
  LET a == ApplyA(st, [op |-> "adv.insert_hdword", p |-> 0, imm |-> <<>>, err |-> 0, form |-> "dec"])
      h == ApplyA(st, [op |-> "hmerge", p |-> 0, imm |-> <<>>, err |-> 0, form |-> "dec"])
  IN MapHas(a.st.map, StackWord(h.st.stack, 0))
=============================================================================
