----------------------------- MODULE CycleLimit -----------------------------
(***************************************************************************)
(* The cycle limit (C15).  A program is abstracted to the number of VM     *)
(* cycles it needs: need \in Nat, or need = Infinite for a program that    *)
(* never terminates (e.g. `push.1 while.true push.1 end`).                 *)
(* Every executed operation advances the clock by one; the step that would *)
(* make the clock exceed the limit `max` does not happen: execution stops  *)
(* with the cycle-limit error instead.                                     *)
(* Options (air/src/options.rs doc comments): an option set is refused     *)
(* when max < MinTraceLen (64) or max < expected.                          *)
(***************************************************************************)
EXTENDS Naturals
CONSTANTS NeedSet, MaxSet, Infinite, MinTraceLen
VARIABLES need, max,     \* chosen initially, never changed
          clk, status    \* status \in {"run", "halted", "cycle_limit"}
vars == <<need, max, clk, status>>

Init == need \in NeedSet /\ max \in MaxSet /\ clk = 0 /\ status = "run"

Step == /\ status = "run"
        /\ (need = Infinite \/ clk < need)
        /\ IF clk + 1 > max
             THEN status' = "cycle_limit" /\ clk' = clk
             ELSE clk' = clk + 1 /\ status' = "run"
        /\ UNCHANGED <<need, max>>
Halt == /\ status = "run" /\ need # Infinite /\ clk = need
        /\ status' = "halted" /\ UNCHANGED <<need, max, clk>>
Next == Step \/ Halt
Spec == Init /\ [][Next]_vars /\ WF_vars(Next)

\* closed form used by the generator: outcome of running a program needing n cycles under limit m
Outcome(n, m) == IF n # Infinite /\ n <= m THEN "ok" ELSE "cycle_limit"
OptionsAccepted(mx, expected) == mx >= MinTraceLen /\ mx >= expected

NeverPassesLimit == clk <= max
Exact == /\ status = "halted" => (need # Infinite /\ need <= max /\ clk = need)
         /\ status = "cycle_limit" => (need = Infinite \/ need > max)
ClosedForm == /\ status = "halted" => Outcome(need, max) = "ok"
              /\ status = "cycle_limit" => Outcome(need, max) = "cycle_limit"
NoStepAfterLimit == [][status = "cycle_limit" => UNCHANGED vars]_vars
AlwaysStops == <>(status # "run")
=============================================================================
