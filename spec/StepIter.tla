------------------------------ MODULE StepIter ------------------------------
(***************************************************************************)
(* The step-through iterator (C14) as a cursor over a recorded execution   *)
(* with rows 0 .. T.  `cur` is the row reported last (-1: nothing yet).    *)
(* Next reports row cur + 1 (or nothing at the end), Back reports row      *)
(* cur - 1 (or nothing at the beginning).  What the property fixes is that *)
(* a reported state for clock t is row t of the trace, in both directions, *)
(* and that no call fails; which t a call reports is the cursor discipline *)
(* below (recorded, not judged against the implementation).                *)
(***************************************************************************)
EXTENDS Integers, Sequences
CONSTANTS T, MaxLen
VARIABLES cur, word, reported     \* reported : sequence of row numbers (-1 = nothing reported)
vars == <<cur, word, reported>>
Init == cur = -1 /\ word = <<>> /\ reported = <<>>
DoNext == /\ Len(word) < MaxLen
          /\ word' = Append(word, "N")
          /\ IF cur < T THEN cur' = cur + 1 /\ reported' = Append(reported, cur + 1)
                        ELSE cur' = cur /\ reported' = Append(reported, -1)
DoBack == /\ Len(word) < MaxLen
          /\ word' = Append(word, "B")
          /\ IF cur > 0 THEN cur' = cur - 1 /\ reported' = Append(reported, cur - 1)
                        ELSE cur' = cur /\ reported' = Append(reported, -1)
Next == DoNext \/ DoBack
InRange == cur \in -1 .. T
ReportedInRange == \A i \in 1 .. Len(reported) : reported[i] \in -1 .. T
\* consecutive reports move by exactly one row
Adjacent == \A i \in 1 .. Len(reported) - 1 :
              (reported[i] # -1 /\ reported[i + 1] # -1) => (reported[i + 1] - reported[i] \in {-1, 1})
=============================================================================
