------------------------------ MODULE Chiplets ------------------------------
(***************************************************************************)
(* The chiplets segment of the execution trace, row by row, as a function   *)
(* of the requests the specification's own machine issued while it ran      *)
(* (docs/src/design/chiplets/{main,hasher,bitwise,memory,kernel_rom}.md).   *)
(*                                                                         *)
(*   hasher  : one entry per request, in the order the requests were made   *)
(*             (block starts, HPERM, MPVERIFY, MRUPDATE); every entry owns   *)
(*             whole 8-row cycles: selectors per row position, the state in  *)
(*             the first row of a cycle, the seven rounds, the node index    *)
(*             column, absorption of the next batch / path node, and the     *)
(*             digest the computation must return                            *)
(*   bitwise : 8 rows per U32AND / U32XOR request: 4-bit limbs from the most *)
(*             significant, accumulated inputs and output, previous output   *)
(*   memory  : the requests sorted by (ctx, addr, clk); selectors, deltas    *)
(*   kernel ROM : one row per call, one row for a procedure never called     *)
(*                                                                         *)
(* The RPO round function is uninterpreted: `rounds[c]` holds the seven      *)
(* round outputs for the state in the first row of cycle c, computed by the *)
(* recorder with the miden-crypto primitive (DESIGN 3.4).  Sibling nodes of *)
(* Merkle paths are the prover's choice (hasher.md: "provides values for    *)
(* nodes non-deterministically"): they are read from the recorded row and   *)
(* everything else of that row is prescribed.                               *)
(* Row shapes use 4-bit limbs of 16-bit half words: meaningful for HB = 256. *)
(***************************************************************************)
EXTENDS Lookups

Rev4(s, i) == <<s[i + 3], s[i + 2], s[i + 1], s[i]>>      \* the word whose elements sit at stack positions i .. i+3 (top = last element)

\* ------------------------------------------------------------------------
\* hasher requests of one row: `vm` = state before the row, `r` = result of Step (row + state after)
LowerKind(op) == CASE op = "JOIN" -> "join" [] op = "SPLIT" -> "split" [] op = "LOOP" -> "loop" [] op = "CALL" -> "call"
                   [] op = "SYSCALL" -> "syscall" [] op = "DYN" -> "dyn"
HashReqs(vm, r) ==
  LET o == r.row.op  s == vm.stack IN
  CASE o \in {"JOIN", "SPLIT", "LOOP", "CALL", "SYSCALL", "DYN"} ->
         <<[k |-> "lin", cap |-> <<F0, Small(DomainOf(LowerKind(o))), F0, F0>>, batches |-> <<IF o = "DYN" THEN Zero8 ELSE r.row.h>>,
            out |-> "h", want |-> Last(r.vm.cs).nd.h]>>
    [] o = "SPAN" ->
         LET fr == Last(r.vm.cs)
             heads == SelectSeq(fr.rows, LAMBDA x : x.kind \in {"SPAN", "RESPAN"})
         IN <<[k |-> "lin", cap |-> ZeroWord, batches |-> [i \in 1 .. Len(heads) |-> heads[i].groups], out |-> "h", want |-> fr.nd.h]>>
    [] o = "HPERM" /\ r.row.sp = 1 ->
         <<[k |-> "lin", cap |-> Rev4(s, 9), batches |-> <<Rev4(s, 5) \o Rev4(s, 1)>>, out |-> "s",
            want |-> Rev4(r.vm.stack, 9) \o Rev4(r.vm.stack, 5) \o Rev4(r.vm.stack, 1)]>>
    [] o = "MPVERIFY" /\ r.row.sp = 1 ->
         <<[k |-> "mp", node |-> Rev4(s, 1), depth |-> s[5][1], idx |-> s[6], root |-> Rev4(s, 7)]>>
    [] o = "MRUPDATE" /\ r.row.sp = 1 ->
         <<[k |-> "mr", node |-> Rev4(s, 1), depth |-> s[5][1], idx |-> s[6], root |-> Rev4(s, 7),
            new |-> Rev4(s, 11), newroot |-> Rev4(r.vm.stack, 1)]>>
    [] OTHER -> <<>>

\* kernel ROM requests: the callee of a SYSCALL row
KernReqs(r) == IF r.row.op = "SYSCALL" THEN <<SubSeq(r.row.h, 1, 4)>> ELSE <<>>

\* ------------------------------------------------------------------------
\* hasher rows.  rows[i] = [s |-> <<s0, s1, s2>>, h |-> 12 elements, i |-> node index]
HRow(rows, c, j) == rows[8 * (c - 1) + j]
CycleOk(rows, rounds, c, st0, sel0, selMid, sel7, i0, iRest) ==
  /\ 8 * c <= Len(rows) /\ c <= Len(rounds)
  /\ HRow(rows, c, 1).s = sel0 /\ HRow(rows, c, 1).h = st0 /\ HRow(rows, c, 1).i = i0
  /\ \A j \in 2 .. 7 : HRow(rows, c, j).s = selMid /\ HRow(rows, c, j).h = rounds[c][j - 1] /\ HRow(rows, c, j).i = iRest
  /\ HRow(rows, c, 8).s = sel7 /\ HRow(rows, c, 8).h = rounds[c][7] /\ HRow(rows, c, 8).i = iRest

\* linear hash / 2-to-1 hash / single permutation: BP HR*6 (ABP HR*7)* HOUT|SOUT.  Result [bad (0 = fine, else the cycle), c (next cycle)]
RECURSIVE LinOk(_, _, _, _, _, _)
LinOk(rows, rounds, c, cap, e, k) ==
  LET n == Len(e.batches)
      sel0 == IF k = 1 THEN <<1, 0, 0>> ELSE <<0, 0, 0>>
      sel7 == IF k < n THEN <<1, 0, 0>> ELSE IF e.out = "s" THEN <<0, 0, 1>> ELSE <<0, 0, 0>>
  IN IF ~CycleOk(rows, rounds, c, cap \o e.batches[k], sel0, <<0, 0, 0>>, sel7, F0, F0) THEN [bad |-> c, c |-> c]
     ELSE IF k < n THEN LinOk(rows, rounds, c + 1, SubSeq(rounds[c][7], 1, 4), e, k + 1)
     ELSE IF (IF e.out = "s" THEN rounds[c][7] ELSE SubSeq(rounds[c][7], 5, 8)) # e.want THEN [bad |-> c, c |-> c]
     ELSE [bad |-> 0, c |-> c + 1]

\* index column: one bit is shifted out whenever a path node is absorbed (at the start row and at every MPA / MVA / MUA row)
Shr1(x) == <<(x[1] \div 2) + (x[2] % 2) * (LB \div 2), (x[2] \div 2) + (x[3] % 2) * (LB \div 2),
             (x[3] \div 2) + (x[4] % 2) * (LB \div 2), x[4] \div 2>>

\* Merkle path of `d` nodes from `cur` at index `idx`: selectors <<start / absorb, other rows>>; want = <<>> (siblings free) or the
\* siblings to use.  Result [bad, c, out (root reached), sibs (siblings used)]
RECURSIVE PathOk(_, _, _, _, _, _, _, _, _, _)
PathOk(rows, rounds, c, sels, cur, idx, d, j, want, sibs) ==
  IF j > d THEN [bad |-> IF idx = F0 THEN 0 ELSE c, c |-> c, out |-> cur, sibs |-> sibs]
  ELSE IF 8 * c > Len(rows) THEN [bad |-> c, c |-> c, out |-> cur, sibs |-> sibs]
  ELSE LET hrec == HRow(rows, c, 1).h
           bit == idx[1] % 2
           sib == IF bit = 0 THEN SubSeq(hrec, 9, 12) ELSE SubSeq(hrec, 5, 8)
           st0 == ZeroWord \o (IF bit = 0 THEN cur \o sib ELSE sib \o cur)
           sel0 == IF j = 1 THEN sels[1] ELSE sels[2]
           sel7 == IF j < d THEN sels[1] ELSE <<0, 0, 0>>
       IN IF (want # <<>> /\ want[j] # sib)
             \/ ~CycleOk(rows, rounds, c, st0, sel0, sels[2], sel7, IF j = 1 THEN idx ELSE Shr1(idx), Shr1(idx))
            THEN [bad |-> c, c |-> c, out |-> cur, sibs |-> sibs]
          ELSE PathOk(rows, rounds, c + 1, sels, SubSeq(rounds[c][7], 5, 8), Shr1(idx), d, j + 1, want, Append(sibs, sib))

\* 0 if the hasher rows are exactly what the requests prescribe, else the first cycle that differs (Len + 1 cycles: too few / many rows)
RECURSIVE HasherBad(_, _, _, _, _)
HasherBad(hs, k, rows, rounds, c) ==
  IF k > Len(hs) THEN (IF 8 * (c - 1) = Len(rows) THEN 0 ELSE c)
  ELSE LET e == hs[k] IN
    IF e.k = "lin" THEN LET r == LinOk(rows, rounds, c, e.cap, e, 1) IN IF r.bad # 0 THEN r.bad ELSE HasherBad(hs, k + 1, rows, rounds, r.c)
    ELSE IF e.k = "mp"
      THEN LET r == PathOk(rows, rounds, c, <<<<1, 0, 1>>, <<0, 0, 1>>>>, e.node, e.idx, e.depth, 1, <<>>, <<>>) IN
           IF r.bad # 0 THEN r.bad ELSE IF r.out # e.root THEN c ELSE HasherBad(hs, k + 1, rows, rounds, r.c)
    ELSE \* "mr": the old path (MV), then the new path (MU) through the same siblings
      LET r == PathOk(rows, rounds, c, <<<<1, 1, 0>>, <<0, 1, 0>>>>, e.node, e.idx, e.depth, 1, <<>>, <<>>) IN
      IF r.bad # 0 THEN r.bad ELSE IF r.out # e.root THEN c
      ELSE LET r2 == PathOk(rows, rounds, r.c, <<<<1, 1, 1>>, <<0, 1, 1>>>>, e.new, e.idx, e.depth, 1, r.sibs, <<>>) IN
           IF r2.bad # 0 THEN r2.bad ELSE IF r2.out # e.newroot THEN r.c ELSE HasherBad(hs, k + 1, rows, rounds, r2.c)

\* ------------------------------------------------------------------------
\* bitwise rows.  rows[i] = [sel, a, b, ab (4 bits, least significant first), bb, zp, z]
NIB == 16
Nib(x, k) == LET limb == IF k <= 4 THEN x[2] ELSE x[1]
                 sh == CASE (k - 1) % 4 = 0 -> NIB * NIB * NIB [] (k - 1) % 4 = 1 -> NIB * NIB [] (k - 1) % 4 = 2 -> NIB [] OTHER -> 1
             IN (limb \div sh) % NIB                         \* k-th 4-bit limb of a 32-bit value, most significant first
RECURSIVE Prefix(_, _)
Prefix(x, k) == IF k = 0 THEN F0 ELSE FAdd(FMul(Prefix(x, k - 1), Small(NIB)), Small(Nib(x, k)))
Bits4(n) == <<n % 2, (n \div 2) % 2, (n \div 4) % 2, (n \div 8) % 2>>
BwRowOk(row, q, k) == /\ row.sel = q.sel
                      /\ row.a = Prefix(q.a, k) /\ row.b = Prefix(q.b, k)
                      /\ row.ab = Bits4(Nib(q.a, k)) /\ row.bb = Bits4(Nib(q.b, k))
                      /\ row.zp = Prefix(q.z, k - 1) /\ row.z = Prefix(q.z, k)
\* 0 or the first bitwise row that differs
BitwiseBad(reqs, rows) ==
  IF Len(rows) # 8 * Len(reqs) THEN Len(rows) + 1
  ELSE IF \A i \in 1 .. Len(rows) : BwRowOk(rows[i], reqs[((i - 1) \div 8) + 1], ((i - 1) % 8) + 1) THEN 0
  ELSE CHOOSE i \in 1 .. Len(rows) : ~BwRowOk(rows[i], reqs[((i - 1) \div 8) + 1], ((i - 1) % 8) + 1)
                                     /\ \A j \in 1 .. i - 1 : BwRowOk(rows[j], reqs[((j - 1) \div 8) + 1], ((j - 1) % 8) + 1)

\* ------------------------------------------------------------------------
\* memory rows.  requests [ctx, a, clk, rd, w] ; rows[i] = [s0, s1, ctx, a, clk, w, d0, d1, t]
AddrLt(x, y) == \E i \in 1 .. 4 : x[i] < y[i] /\ \A j \in i + 1 .. 4 : x[j] = y[j]
MemLt(x, y) == \/ x.ctx < y.ctx
               \/ x.ctx = y.ctx /\ AddrLt(x.a, y.a)
               \/ x.ctx = y.ctx /\ x.a = y.a /\ x.clk < y.clk
RECURSIVE MemInsert(_, _)
MemInsert(q, x) == IF q = <<>> THEN <<x>> ELSE IF MemLt(x, Head(q)) THEN <<x>> \o q ELSE <<Head(q)>> \o MemInsert(Tail(q), x)
RECURSIVE MemSort(_)
MemSort(q) == IF q = <<>> THEN <<>> ELSE MemInsert(MemSort(Tail(q)), Head(q))

MemDelta(p, x) == IF x.ctx # p.ctx THEN Small(x.ctx - p.ctx)
                  ELSE IF x.a # p.a THEN FSub(x.a, p.a)
                  ELSE Small(x.clk - p.clk - 1)
MemRowOk(row, x, hasPrev, p) ==
  /\ row.s0 = x.rd /\ row.ctx = x.ctx /\ row.a = x.a /\ row.clk = x.clk /\ row.w = x.w
  /\ row.s1 = (IF hasPrev /\ x.rd = 1 /\ p.ctx = x.ctx /\ p.a = x.a THEN 1 ELSE 0)
  \* the deltas of the first row have no predecessor: not prescribed (memory.md speaks about consecutive rows)
  /\ hasPrev => LET d == MemDelta(p, x) IN
                /\ d[3] = 0 /\ d[4] = 0 /\ row.d0 = d[1] /\ row.d1 = d[2]
                /\ d # F0 => FMul(row.t, d) = F1
MemoryBad(reqs, rows) ==
  IF Len(rows) # Len(reqs) THEN Len(rows) + 1
  ELSE LET q == MemSort(reqs)
           ok(i) == MemRowOk(rows[i], q[i], i > 1, q[IF i > 1 THEN i - 1 ELSE 1])
       IN IF \A i \in 1 .. Len(rows) : ok(i) THEN 0 ELSE CHOOSE i \in 1 .. Len(rows) : ~ok(i) /\ \A j \in 1 .. i - 1 : ok(j)

\* ------------------------------------------------------------------------
\* kernel ROM rows.  rows[i] = [s0, idx, root] ; kernel = procedure roots in ROM order ; calls = roots requested by SYSCALL rows
RECURSIVE KernelRows(_, _, _)
KernelRows(kernel, calls, j) ==
  IF j > Len(kernel) THEN <<>>
  ELSE LET n == Cardinality({i \in 1 .. Len(calls) : calls[i] = kernel[j]})
       IN (IF n = 0 THEN <<[s0 |-> 0, idx |-> j - 1, root |-> kernel[j]]>>
           ELSE [i \in 1 .. n |-> [s0 |-> 1, idx |-> j - 1, root |-> kernel[j]]]) \o KernelRows(kernel, calls, j + 1)
KernelBad(kernel, calls, rows) == rows # KernelRows(kernel, calls, 1)
=============================================================================
