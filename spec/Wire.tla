-------------------------------- MODULE Wire --------------------------------
(***************************************************************************)
(* Byte-level wire formats of the small containers (C19, C10):             *)
(*   StackInputs  : u32 count, count field elements                        *)
(*   StackOutputs : u32 count, count u64 ; u32 count, count u64            *)
(*   Kernel       : u16 count, count digests (4 field elements each)       *)
(*   ProgramInfo  : digest, Kernel                                         *)
(* integers little-endian, a field element is 8 bytes and must be          *)
(* canonical (< p).  Decode(fmt, bytes) = [ok |-> FALSE] or                *)
(* [ok |-> TRUE, used |-> number of bytes consumed, vals |-> sections].    *)
(* What is required of a decoder (ReEncode / no panic) is stated over this *)
(* model; bytes after the consumed prefix are not judged.                  *)
(***************************************************************************)
EXTENDS Felt

Byte == 0 .. 255
ElemBytes(e) == <<e[1] % 256, e[1] \div 256, e[2] % 256, e[2] \div 256, e[3] % 256, e[3] \div 256, e[4] % 256, e[4] \div 256>>
U16Bytes(n) == <<n % 256, n \div 256>>
U32Bytes(n) == <<n % 256, (n \div 256) % 256, (n \div 65536) % 256, n \div 16777216>>
RECURSIVE Concat(_)
Concat(ss) == IF ss = <<>> THEN <<>> ELSE Head(ss) \o Concat(Tail(ss))

\* a format is a sequence of sections [prefix : 0 | 2 | 4 bytes, fixed : count when prefix = 0, kind : "felt" | "u64", per : elements per item]
FmtInputs == <<[prefix |-> 4, fixed |-> 0, kind |-> "felt", per |-> 1]>>
FmtOutputs == <<[prefix |-> 4, fixed |-> 0, kind |-> "u64", per |-> 1], [prefix |-> 4, fixed |-> 0, kind |-> "u64", per |-> 1]>>
FmtKernel == <<[prefix |-> 2, fixed |-> 0, kind |-> "felt", per |-> 4]>>
FmtProgramInfo == <<[prefix |-> 0, fixed |-> 1, kind |-> "felt", per |-> 4], [prefix |-> 2, fixed |-> 0, kind |-> "felt", per |-> 4]>>
Fmt(name) == CASE name = "StackInputs" -> FmtInputs [] name = "StackOutputs" -> FmtOutputs
               [] name = "Kernel" -> FmtKernel [] name = "ProgramInfo" -> FmtProgramInfo

\* encoding of section values (vals[i] : sequence of elements (limb quadruples) of section i)
EncodeSection(sec, els) == (IF sec.prefix = 4 THEN U32Bytes(Len(els) \div sec.per) ELSE IF sec.prefix = 2 THEN U16Bytes(Len(els) \div sec.per) ELSE <<>>)
                           \o Concat([i \in 1 .. Len(els) |-> ElemBytes(els[i])])
Encode(fmt, vals) == Concat([i \in 1 .. Len(fmt) |-> EncodeSection(fmt[i], vals[i])])

LimbsAt(b, p) == <<b[p] + 256 * b[p + 1], b[p + 2] + 256 * b[p + 3], b[p + 4] + 256 * b[p + 5], b[p + 6] + 256 * b[p + 7]>>

RECURSIVE ReadElems(_, _, _, _)
\* reads n elements starting at byte position p (1-based); result [ok, els, p]
ReadElems(b, p, n, kind) ==
  IF n = 0 THEN [ok |-> TRUE, els |-> <<>>, p |-> p]
  ELSE IF p + 7 > Len(b) THEN [ok |-> FALSE]
  ELSE LET e == LimbsAt(b, p) IN
       IF kind = "felt" /\ ~NatLt(e, PLimbs) THEN [ok |-> FALSE]
       ELSE LET r == ReadElems(b, p + 8, n - 1, kind) IN
            IF r.ok THEN [ok |-> TRUE, els |-> <<e>> \o r.els, p |-> r.p] ELSE r

RECURSIVE DecodeFrom(_, _, _, _)
DecodeFrom(fmt, i, b, p) ==
  IF i > Len(fmt) THEN [ok |-> TRUE, vals |-> <<>>, p |-> p]
  ELSE LET sec == fmt[i]
           havePrefix == p + sec.prefix - 1 <= Len(b)
           cnt == IF sec.prefix = 0 THEN sec.fixed
                  ELSE IF sec.prefix = 2 THEN b[p] + 256 * b[p + 1]
                  ELSE b[p] + 256 * b[p + 1] + 65536 * b[p + 2]         \* counts >= 2^24 are not generated
       IN IF ~havePrefix THEN [ok |-> FALSE]
          ELSE IF sec.prefix = 4 /\ b[p + 3] # 0 THEN [ok |-> FALSE]    \* (only reached with a huge declared count: more than the bytes present)
          ELSE LET r == ReadElems(b, p + sec.prefix, cnt * sec.per, sec.kind) IN
               IF ~r.ok THEN [ok |-> FALSE]
               ELSE LET rest == DecodeFrom(fmt, i + 1, b, r.p) IN
                    IF rest.ok THEN [ok |-> TRUE, vals |-> <<r.els>> \o rest.vals, p |-> rest.p] ELSE rest
Decode(fmt, b) == LET r == DecodeFrom(fmt, 1, b, 1) IN IF r.ok THEN [ok |-> TRUE, vals |-> r.vals, used |-> r.p - 1] ELSE [ok |-> FALSE]

\* ------------------------------------------------------------------------
\* Text containers.  LibraryPath : u16 length, UTF-8 text (assembly/src/library/path.rs, doc comments of `new` / `validate`):
\*   the path is not empty and takes at most 1023 bytes; its components are separated by "::"; the first component may be
\*   one of the special names "#sys" / "#exec" (which is then the whole path or is followed by the delimiter); every other
\*   component is non-empty, at most 255 bytes, starts with an ASCII letter and consists of ASCII letters, digits and '_'.
\* Text is judged over the alphabet the generator uses: ASCII bytes, the two-byte character C3 A9 and the byte FF
\* (never valid in UTF-8).
IsAlpha(c) == (c >= 65 /\ c <= 90) \/ (c >= 97 /\ c <= 122)
IsLabelChar(c) == IsAlpha(c) \/ (c >= 48 /\ c <= 57) \/ c = 95
RECURSIVE Utf8Chars(_)          \* <<TRUE, code points>> or <<FALSE>>
Utf8Chars(b) ==
  IF b = <<>> THEN <<TRUE, <<>>>>
  ELSE IF b[1] < 128 THEN LET r == Utf8Chars(Tail(b)) IN IF r[1] THEN <<TRUE, <<b[1]>> \o r[2]>> ELSE r
  ELSE IF b[1] = 195 /\ Len(b) >= 2 /\ b[2] >= 128 /\ b[2] < 192
       THEN LET r == Utf8Chars(SubSeq(b, 3, Len(b))) IN IF r[1] THEN <<TRUE, <<64 * 3 + (b[2] - 128)>> \o r[2]>> ELSE r
  ELSE <<FALSE>>
RECURSIVE SplitDelim(_, _)      \* components between "::" delimiters, matched left to right
SplitDelim(cs, cur) ==
  IF cs = <<>> THEN <<cur>>
  ELSE IF Len(cs) >= 2 /\ cs[1] = 58 /\ cs[2] = 58 THEN <<cur>> \o SplitDelim(SubSeq(cs, 3, Len(cs)), <<>>)
  ELSE SplitDelim(Tail(cs), Append(cur, cs[1]))
ValidComponent(c) == c # <<>> /\ Len(c) <= 255 /\ IsAlpha(c[1]) /\ \A i \in 1 .. Len(c) : IsLabelChar(c[i])
SysName == <<35, 115, 121, 115>>
ExecName == <<35, 101, 120, 101, 99>>
SpecialLen(cs) ==
  LET is(p) == Len(cs) >= Len(p) /\ SubSeq(cs, 1, Len(p)) = p
                /\ (Len(cs) = Len(p) \/ (Len(cs) >= Len(p) + 2 /\ cs[Len(p) + 1] = 58 /\ cs[Len(p) + 2] = 58))
  IN IF is(SysName) THEN 4 ELSE IF is(ExecName) THEN 5 ELSE 0
\* cs : code points, nbytes : length of the encoded text
ValidPath(cs, nbytes) ==
  /\ cs # <<>> /\ nbytes <= 1023
  /\ LET sp == SpecialLen(cs) IN
     IF sp > 0 /\ Len(cs) = sp THEN TRUE
     ELSE LET rest == IF sp > 0 THEN SubSeq(cs, sp + 3, Len(cs)) ELSE cs
              comps == SplitDelim(rest, <<>>)
          IN \A i \in 1 .. Len(comps) : ValidComponent(comps[i])
DecodePath(b) ==
  IF Len(b) < 2 THEN [ok |-> FALSE]
  ELSE LET n == b[1] + 256 * b[2] IN
       IF Len(b) < 2 + n THEN [ok |-> FALSE]
       ELSE LET u == Utf8Chars(SubSeq(b, 3, 2 + n)) IN
            IF u[1] /\ ValidPath(u[2], n) THEN [ok |-> TRUE, used |-> 2 + n] ELSE [ok |-> FALSE]

\* ---- properties of the model itself ----
\* an accepted value re-encodes to the consumed prefix, which decodes to the same value
ReEncode(fmt, b) == LET d == Decode(fmt, b) IN d.ok => (Encode(fmt, d.vals) = SubSeq(b, 1, d.used) /\ Decode(fmt, Encode(fmt, d.vals)).vals = d.vals)
\* every proper prefix of the consumed part is rejected
PrefixesRejected(fmt, b) == LET d == Decode(fmt, b) IN d.ok => \A k \in 0 .. d.used - 1 : ~Decode(fmt, SubSeq(b, 1, k)).ok
=============================================================================
