------------------------------ MODULE Pipeline ------------------------------
(***************************************************************************)
(* execute -> prove -> (bytes) -> verify, with tampering (C01, C02).        *)
(* A statement is  [prog, kernel, inputs, outputs]  (abstract values); a    *)
(* proof records the statement and option set it was generated for, the    *)
(* hash-function tag it is labelled with and whether its bytes are intact. *)
(* Verify accepts iff the proof is intact, labelled with the tag it was     *)
(* made with, made for exactly the claimed statement, and its options are  *)
(* in the accepted set of that tag (verifier docs / air/src/options.rs).   *)
(***************************************************************************)
EXTENDS Naturals, Sequences, FiniteSets

\* parameter sets (queries, blow-up, grinding, extension, FRI folding / remainder): the four documented ones and sets that
\* are weaker than every documented one in a single parameter (q26: one query less, g15: one grinding bit less,
\* b4: half the blow-up) or in all of them (weak); the hash function is chosen independently of the parameter set
OptionSets == {"regular96", "regular128", "recursive96", "recursive128", "weak", "q26", "g15", "b4"}
TagOf(o) == CASE o = "regular96" -> "blake3_192" [] o = "regular128" -> "blake3_256"
              [] o \in {"recursive96", "recursive128"} -> "rpo256" [] OTHER -> "blake3_192"
Accepted(tag) == CASE tag = "blake3_192" -> {"regular96"} [] tag = "blake3_256" -> {"regular128"}
                   [] tag = "rpo256" -> {"recursive96", "recursive128"} [] OTHER -> {}
Configured(o) == CASE o \in {"regular96", "recursive96"} -> 96 [] o \in {"regular128", "recursive128"} -> 128 [] OTHER -> 0
ValidTags == {"blake3_192", "blake3_256", "rpo256"}

\* single-field alterations of the claimed statement, and alterations of the proof
StmtTampers == {"prog_hash", "kernel_add", "kernel_remove", "kernel_replace", "input_change", "input_append", "input_remove",
                "output_top", "output_deep", "ovf_addr", "output_append", "output_truncate"}
\* "every single-field alteration of the public statement": the positions at which a statement tamper is applied when a
\* behaviour is replayed (a kind with n sites stands for n behaviours; sites beyond the statement's size do not apply)
StmtSites(kind) == CASE kind = "prog_hash" -> 0 .. 3                      \* each element of the program hash
                     [] kind = "input_change" -> 0 .. 15                    \* each stack input
                     [] kind = "output_top" -> 0 .. 15                      \* each of the top 16 outputs
                     [] kind = "output_deep" -> {"first", "middle", "last"}  \* outputs below position 15
                     [] kind = "ovf_addr" -> {"first+1", "second+1", "middle+1", "last+1", "first:=2^32", "last:=p-1 (p-2 if it is p-1)"}
                     [] kind \in {"input_append", "output_append"} -> {"zero", "one"}
                     [] OTHER -> {"only"}
ProofTampers == {"flip_byte", "truncate", "trailing_byte", "relabel_tag", "invalid_tag"}
Tampers == StmtTampers \cup ProofTampers \cup {"none"}

VARIABLES opts, htag, viaBytes, tamper, phase, stmt, claimed, proof, verdict
vars == <<opts, htag, viaBytes, tamper, phase, stmt, claimed, proof, verdict>>

\* (tampering is explored on proofs made with the hash function that goes with the parameter set; every other
\* pairing of parameter set and hash function is explored untampered)
Init == /\ opts \in OptionSets /\ htag \in ValidTags /\ viaBytes \in BOOLEAN /\ tamper \in Tampers
        /\ (htag = TagOf(opts) \/ tamper = "none")
        /\ phase = "start" /\ stmt = "none" /\ claimed = "none" /\ proof = [none |-> TRUE] /\ verdict = "none"

Execute == /\ phase = "start" /\ phase' = "executed"
           /\ stmt' = "S" /\ claimed' = "S"
           /\ UNCHANGED <<opts, htag, viaBytes, tamper, proof, verdict>>
Prove == /\ phase = "executed" /\ phase' = "proved"
         /\ proof' = [stmt |-> stmt, opts |-> opts, madeTag |-> htag, tag |-> htag, intact |-> TRUE, parses |-> TRUE]
         /\ UNCHANGED <<opts, htag, viaBytes, tamper, stmt, claimed, verdict>>
\* serialisation round trip leaves the proof unchanged
Transport == /\ phase = "proved" /\ phase' = "transported"
             /\ UNCHANGED <<opts, htag, viaBytes, tamper, stmt, claimed, proof, verdict>>
Tamper == /\ phase = "transported" /\ phase' = "tampered"
          /\ IF tamper \in StmtTampers THEN claimed' = "S'" /\ proof' = proof
             ELSE IF tamper = "flip_byte" THEN proof' = [proof EXCEPT !.intact = FALSE] /\ claimed' = claimed
             ELSE IF tamper = "truncate" THEN proof' = [proof EXCEPT !.intact = FALSE, !.parses = FALSE] /\ claimed' = claimed
             \* bytes after the end of a complete proof: the decoded proof is the same proof; whether a decoder ignores or
             \* refuses them is not fixed by the property (verdict "any": only the absence of a panic is judged)
             ELSE IF tamper = "trailing_byte" THEN proof' = proof /\ claimed' = claimed
             ELSE IF tamper = "relabel_tag" THEN proof' = [proof EXCEPT !.tag = CHOOSE t \in ValidTags : t # proof.madeTag] /\ claimed' = claimed
             ELSE IF tamper = "invalid_tag" THEN proof' = [proof EXCEPT !.tag = "invalid", !.parses = FALSE] /\ claimed' = claimed
             ELSE proof' = proof /\ claimed' = claimed
          /\ UNCHANGED <<opts, htag, viaBytes, tamper, stmt, verdict>>
Verify == /\ phase = "tampered" /\ phase' = "verified"
          /\ LET ok == /\ proof.parses /\ proof.intact /\ proof.tag = proof.madeTag
                       /\ proof.stmt = claimed /\ proof.opts \in Accepted(proof.tag)
             IN verdict' = IF ~ok THEN "reject" ELSE IF tamper = "trailing_byte" THEN "any" ELSE "accept"
          /\ UNCHANGED <<opts, htag, viaBytes, tamper, stmt, claimed, proof>>
Next == Execute \/ Prove \/ Transport \/ Tamper \/ Verify

Honest == tamper = "none" /\ opts \in Accepted(htag)
Completeness == (phase = "verified" /\ Honest) => verdict = "accept"
Binding == (phase = "verified" /\ verdict = "accept") => (tamper = "none" /\ opts \in Accepted(htag))
AnyOnlyForTrailing == (phase = "verified" /\ verdict = "any") => tamper = "trailing_byte"
\* the accepted set of a hash function is exactly the documented one: nothing weaker, nothing labelled for another function
AcceptedExactly == (phase = "verified" /\ tamper = "none") => (verdict = "accept" <=> opts \in Accepted(htag))
WeakRejected == (phase = "verified" /\ opts \in {"weak", "q26", "g15", "b4"}) => verdict = "reject"
=============================================================================
