-------------------------------- MODULE Mast --------------------------------
(***************************************************************************)
(* The hash of a MAST node (docs/src/design/programs.md, "Program hash      *)
(* computation"): hash_domain(a, b) = 2-to-1 RPO hash of two words with the *)
(* domain (the opcode of the operation starting the block) in the second     *)
(* capacity element.  The recipe is a term; the primitives evaluate it.      *)
(***************************************************************************)
EXTENDS Opcodes
\* inputs of the node's hash: "c1" / "c2" = hashes of the first / second child, "f" = hash of the callee, "zero" = empty word
Recipe(kind) ==
  CASE kind = "join" -> [a |-> "c1", b |-> "c2", domain |-> DomainOf("join")]        \* hash_join(first, second)
    [] kind = "split" -> [a |-> "c1", b |-> "c2", domain |-> DomainOf("split")]      \* hash_split(true branch, false branch)
    [] kind = "loop" -> [a |-> "c1", b |-> "zero", domain |-> DomainOf("loop")]      \* hash_loop(body, 0)
    [] kind = "call" -> [a |-> "f", b |-> "zero", domain |-> DomainOf("call")]       \* hash_call(callee, 0)
    [] kind = "syscall" -> [a |-> "f", b |-> "zero", domain |-> DomainOf("syscall")]
    [] kind = "dyn" -> [a |-> "zero", b |-> "zero", domain |-> DomainOf("dyn")]      \* a constant
Kinds == {"join", "split", "loop", "call", "syscall", "dyn"}
\* a span is hashed as the sequence of its batches' 8 groups each (no domain): HashElems(groups of all batches)
=============================================================================
