------------------------------- MODULE StdLib -------------------------------
(***************************************************************************)
(* Contracts of the standard library's memory, stack and collection          *)
(* procedures (doc comments of stdlib/asm/{mem,sys}.masm and                 *)
(* collections/{mmr,smt}.masm; docs/src/user_docs/stdlib).                   *)
(* Words are abstract identifiers; hashes are terms (evaluated with the      *)
(* primitives by the harness).                                               *)
(***************************************************************************)
EXTENDS Naturals, Sequences, FiniteSets

\* sys::truncate_stack : the original top 16 elements remain, nothing else
TruncateStack(s) == SubSeq(s, 1, 16)

\* mem::memcopy : n words are copied one after the other from read_ptr to write_ptr ("copies n words from read_ptr to
\* write_ptr") ; mem : function address -> word, defined on the addresses of interest
RECURSIVE MemCopy(_, _, _, _)
MemCopy(mem, n, r, w) == IF n = 0 THEN mem ELSE MemCopy([mem EXCEPT ![w] = mem[r]], n - 1, r + 1, w + 1)

\* mem::pipe_words_to_memory : num_words words move from the advice stack to memory at write_ptr, in order ;
\* result = << memory, write_ptr + num_words >> ; the returned HASH is the RPO hash of the moved elements
PipeWords(mem, adv, n, w) == [a \in DOMAIN mem |-> IF a >= w /\ a < w + n THEN adv[a - w + 1] ELSE mem[a]]

\* Merkle mountain range over a sequence of leaves: one peak per set bit of the number of leaves, most significant
\* first ; a peak over 2^k consecutive leaves is the Merkle root of those leaves (term <<"m", left, right>>)
RECURSIVE Pow2(_), HighBit(_), Root(_, _, _), Peaks(_, _)
Pow2(k) == IF k = 0 THEN 1 ELSE 2 * Pow2(k - 1)
HighBit(n) == IF n < 2 THEN 0 ELSE 1 + HighBit(n \div 2)           \* floor(log2 n), n >= 1
Root(leaves, from, size) == IF size = 1 THEN leaves[from] ELSE <<"m", Root(leaves, from, size \div 2), Root(leaves, from + size \div 2, size \div 2)>>
Peaks(leaves, from) ==
  LET n == Len(leaves) - from + 1 IN
  IF n = 0 THEN <<>> ELSE LET sz == Pow2(HighBit(n)) IN <<Root(leaves, from, sz)>> \o Peaks(leaves, from + sz)
RECURSIVE PopCount(_)
PopCount(n) == IF n = 0 THEN 0 ELSE (n % 2) + PopCount(n \div 2)
MmrGet(leaves, pos) == leaves[pos + 1]                                \* positions are 0-based
PeakCountIsPopCount(leaves) == Len(Peaks(leaves, 1)) = PopCount(Len(leaves))

\* helper procedures of the MMR module on numbers given as little-endian sequences of 16-bit limbs
RECURSIVE TO16(_), TrailingOnes(_)
TO16(x) == IF x % 2 = 0 THEN 0 ELSE 1 + TO16(x \div 2)
\* mmr::trailing_ones / u32unchecked_trailing_ones : number of consecutive one bits from the least significant end
TrailingOnes(l) == IF l = <<>> THEN 0 ELSE IF l[1] = 65535 THEN 16 + TrailingOnes(Tail(l)) ELSE TO16(l[1])
\* mmr::ilog2_checked : [ilog2, power_of_two] for a non-zero 32-bit number (fails for zero)
TopLimb(l) == CHOOSE i \in 1 .. Len(l) : l[i] # 0 /\ \A j \in (i + 1) .. Len(l) : l[j] = 0
ILog2L(l) == 16 * (TopLimb(l) - 1) + HighBit(l[TopLimb(l)])
Pow2L(k, n) == [i \in 1 .. n |-> IF i = (k \div 16) + 1 THEN Pow2(k % 16) ELSE 0]
\* mmr::num_peaks_to_message_size : the peaks are hashed as a sequence padded with empty words to at least 16 words and
\* to an even number of words ("padded to an even length and to have a minimum size of 16 elements"); counted in words
PeakWords(np) == LET m == IF np < 16 THEN 16 ELSE np IN m + (m % 2)
\* mmr::pack returns the hash of the padded peaks and files num_leaves || padded peaks under it; mmr::unpack(HASH, ptr)
\* writes num_leaves and the peaks at ptr: Unpack(Pack(m)) = m, and the hash is the accumulator's peak hash (a primitive)
PaddedPeaks(peaks) == peaks \o [i \in 1 .. (PeakWords(Len(peaks)) - Len(peaks)) |-> 0]          \* 0 = the empty word

\* mem::pipe_double_words_to_memory : the words write_ptr .. end_ptr - 1 (an even, positive number) come from the advice
\* stack in order; the hasher state absorbs them two words at a time; the returned pointer is end_ptr

\* sparse Merkle tree = map key -> value (0 = empty) ; set returns the old value ; get returns the value
SmtGet(map, k) == map[k]
SmtSet(map, k, v) == [old |-> map[k], map |-> [map EXCEPT ![k] = v]]
=============================================================================
