------------------------------ MODULE Assembler ------------------------------
(***************************************************************************)
(* One assembler instance (docs/src/user_docs/assembly/code_organization.md *)
(* and execution_contexts.md; assembly/src/assembler): a module provider    *)
(* fed by libraries, a procedure cache shared by all compilations, the      *)
(* per-compilation context (module stack, callsets) and the code-block      *)
(* table of the result.                                                     *)
(*                                                                          *)
(* Two layers:                                                              *)
(*   D* operators : the declarative meaning of a source (what the user docs *)
(*                  say a program is): name resolution through re-exports,  *)
(*                  the code a procedure stands for with `exec` bodies       *)
(*                  pasted in, the set of call / syscall / procref targets   *)
(*                  statically reachable, validity.                          *)
(*   mechanism    : Compile / CompileModule / Ensure over the cache state,   *)
(*                  one operator per method of the implementation, state     *)
(*                  threaded through (a failed compilation keeps what it     *)
(*                  inserted, as the RefCell'ed cache does).                 *)
(* The listed properties relate the two (MC_Assembler): the mechanism in any *)
(* reachable state gives what it gives from the fresh state and what the     *)
(* declarative layer prescribes.                                             *)
(*                                                                          *)
(* Code is a term: a sequence of elements <<tag, payload>>                   *)
(*   <<"op",k>> <<"loc",d>> <<"fmp",n>> <<"fmpn",n>> <<"caller",0>>          *)
(*   <<"ref",code>>           (four pushes of the root of `code`)            *)
(*   <<"call",code>> <<"sys",code>> <<"dyn",0>>                              *)
(*   <<"blk",code>>           (pasted body that is not a single span)        *)
(* A MAST root is represented by the code term it commits to.               *)
(***************************************************************************)
EXTENDS Naturals, Sequences, FiniteSets, TLC

CONSTANT U      \* [mods : Seq(module), kernel : Seq(module) (0 or 1), progs : Seq(program)]
\* module  : [name, lib, procs : Seq([name, export, locals, body]), reexp : Seq([name, fm, fn])]
\* program : [procs : Seq(proc), body : Seq(item)]
\* item    : [t |-> "op", k] | [t |-> "loc", k] | [t |-> "exec" | "call" | "ref", i]
\*         | [t |-> "xexec" | "xcall" | "xref" | "lit", m, n] | [t |-> "sys", n] | [t |-> "caller"]
\* `ref` / `xref` stand for `procref.<target> dynexec dropw`, `lit` for `push.<the four elements of the target's root> dynexec dropw`,
\* `op k` for the stack-neutral `push.k drop`, `loc k` for `loc_load.k drop`, `caller` for `padw caller dropw`

KPath == "#sys"
XPath == "#exec"

SeqIdx(s, P(_)) == IF \E i \in 1 .. Len(s) : P(s[i]) THEN CHOOSE i \in 1 .. Len(s) : P(s[i]) ELSE 0
ModIdx(m) == LET P(x) == x.name = m IN SeqIdx(U.mods, P)
HasKernel == Len(U.kernel) = 1
Mod(m) == IF m = KPath THEN U.kernel[1] ELSE U.mods[ModIdx(m)]
ModExists(m) == IF m = KPath THEN HasKernel ELSE ModIdx(m) # 0
ProcIdx(md, n) == LET P(x) == x.name = n IN SeqIdx(md.procs, P)
ReexpIdx(md, n) == LET P(x) == x.name = n IN SeqIdx(md.reexp, P)

\* ------------------------------------------------------------------------
\* code terms
IsSpanElem(e) == e[1] \in {"op", "loc", "fmp", "fmpn", "caller", "ref"}
PureSpan(code) == \A i \in 1 .. Len(code) : IsSpanElem(code[i])
Norm(code) == IF Len(code) = 1 /\ code[1][1] = "blk" THEN code[1][2] ELSE code
\* pasting a body: a single span joins the surrounding run of operations, a single block stands for itself,
\* anything else is a sub-tree of its own
Paste(cur, body) == IF PureSpan(body) THEN cur \o body ELSE IF Len(body) = 1 THEN Append(cur, body[1]) ELSE Append(cur, <<"blk", body>>)
\* `procref.t dynexec dropw` (op 0 is the dropw)
RefElems(root) == <<<<"ref", root>>, <<"dyn", 0>>, <<"op", 0>>>>
Wrap(locals, body) == IF locals > 0 THEN <<<<"fmp", locals>>>> \o body \o <<<<"fmpn", locals>>>> ELSE body

\* targets a run of the code can reach through CALL / SYSCALL blocks (the term carries the callee's code)
RECURSIVE CallTargets(_)
CallTargets(code) ==
  UNION {LET e == code[i] IN
         IF e[1] \in {"call", "sys"} THEN {e[2]} \cup CallTargets(e[2])
         ELSE IF e[1] = "blk" THEN CallTargets(e[2]) ELSE {} : i \in 1 .. Len(code)}

\* ------------------------------------------------------------------------
\* declarative layer (relative to the set `libs` of libraries given to the assembler)
Provided(libs, m) == ModExists(m) /\ (m = KPath \/ Mod(m).lib \in libs)

\* resolution of an imported name to the defining <<module, procedure index>> ; <<>> if it does not resolve
RECURSIVE DRes(_, _, _, _)
DRes(libs, m, n, fuel) ==
  IF fuel = 0 \/ ~Provided(libs, m) THEN <<>>
  ELSE LET md == Mod(m)  i == ProcIdx(md, n)  r == ReexpIdx(md, n) IN
       IF r # 0 THEN DRes(libs, md.reexp[r].fm, md.reexp[r].fn, fuel - 1)
       ELSE IF i # 0 /\ md.procs[i].export THEN <<m, i>> ELSE <<>>
Fuel == Len(U.mods) + 2
AllLibs == {U.mods[i].lib : i \in 1 .. Len(U.mods)}

\* code a procedure stands for (defined when everything it mentions resolves)
RECURSIVE DCodeItems(_, _, _, _, _), DProc(_, _, _)
DProc(libs, procs, i) == Norm(Wrap(procs[i].locals, DCodeItems(libs, procs, procs[i].body, procs[i].locals, 1)))
DTarget(libs, it) == LET d == DRes(libs, it.m, it.n, Fuel) IN DProc(libs, Mod(d[1]).procs, d[2])
DKernelTarget(libs, n) == DProc(libs, Mod(KPath).procs, ProcIdx(Mod(KPath), n))
DCodeItems(libs, procs, items, locals, k) ==
  IF k > Len(items) THEN <<>>
  ELSE LET it == items[k]
           rest == DCodeItems(libs, procs, items, locals, k + 1)
       IN CASE it.t = "op" -> <<<<"op", it.k>>>> \o rest
            [] it.t = "loc" -> <<<<"loc", locals - 1 - it.k>>>> \o rest
            [] it.t = "caller" -> <<<<"caller", 0>>>> \o rest
            [] it.t = "exec" -> Paste(<<>>, DProc(libs, procs, it.i)) \o rest
            [] it.t = "call" -> <<<<"call", DProc(libs, procs, it.i)>>>> \o rest
            [] it.t = "ref" -> RefElems(DProc(libs, procs, it.i)) \o rest
            [] it.t = "xexec" -> Paste(<<>>, DTarget(libs, it)) \o rest
            [] it.t = "xcall" -> <<<<"call", DTarget(libs, it)>>>> \o rest
            [] it.t = "xref" -> RefElems(DTarget(libs, it)) \o rest
            [] it.t = "lit" -> RefElems(DTarget(AllLibs, it)) \o rest     \* a literal: the numbers do not depend on the configuration
            [] it.t = "sys" -> <<<<"sys", DKernelTarget(libs, it.n)>>>> \o rest
\* call / syscall / procref targets statically reachable from a body (through pasted bodies and callee bodies)
RECURSIVE DNeedItems(_, _, _, _), DNeedProc(_, _, _)
DNeedProc(libs, procs, i) == DNeedItems(libs, procs, procs[i].body, 1)
DNeedItems(libs, procs, items, k) ==
  IF k > Len(items) THEN {}
  ELSE LET it == items[k]
           rest == DNeedItems(libs, procs, items, k + 1)
       IN CASE it.t = "exec" -> DNeedProc(libs, procs, it.i) \cup rest
            [] it.t \in {"call", "ref"} -> {DProc(libs, procs, it.i)} \cup DNeedProc(libs, procs, it.i) \cup rest
            [] it.t = "xexec" -> LET d == DRes(libs, it.m, it.n, Fuel) IN DNeedProc(libs, Mod(d[1]).procs, d[2]) \cup rest
            [] it.t \in {"xcall", "xref"} -> LET d == DRes(libs, it.m, it.n, Fuel) IN
                                            {DProc(libs, Mod(d[1]).procs, d[2])} \cup DNeedProc(libs, Mod(d[1]).procs, d[2]) \cup rest
            [] it.t = "sys" -> {DKernelTarget(libs, it.n)} \cup rest
            [] OTHER -> rest

\* roots a run of the body feeds to `dynexec` from literals (not static references)
RECURSIVE DLitItems(_, _, _, _), DLitProc(_, _, _)
DLitProc(libs, procs, i) == DLitItems(libs, procs, procs[i].body, 1)
DLitItems(libs, procs, items, k) ==
  IF k > Len(items) THEN {}
  ELSE LET it == items[k]
           rest == DLitItems(libs, procs, items, k + 1)
           Ext == LET d == DRes(libs, it.m, it.n, Fuel) IN DLitProc(libs, Mod(d[1]).procs, d[2])
       IN CASE it.t \in {"exec", "call", "ref"} -> DLitProc(libs, procs, it.i) \cup rest
            [] it.t \in {"xexec", "xcall", "xref"} -> Ext \cup rest
            [] it.t = "lit" -> {DTarget(AllLibs, it)} \cup (LET d == DRes(AllLibs, it.m, it.n, Fuel) IN DLitProc(AllLibs, Mod(d[1]).procs, d[2])) \cup rest
            [] it.t = "sys" -> DLitProc(libs, Mod(KPath).procs, ProcIdx(Mod(KPath), it.n)) \cup rest
            [] OTHER -> rest

\* validity.  A module is compiled as a whole when one of its procedures is first needed, so a source is valid iff every
\* module it (transitively) loads is: names resolve to exported procedures, no import cycle, local indices in range,
\* `call` / `syscall` / `procref` not inside a kernel compilation, `caller` only in the kernel module itself, `syscall` only to
\* kernel exports.
RECURSIVE DItemsOk(_, _, _, _, _, _, _), DLoads(_, _, _, _)
DNameOk(libs, kern, m, n, stack, fuel) ==
  /\ fuel > 0 /\ Provided(libs, m) /\ m # KPath
  /\ LET md == Mod(m) IN ProcIdx(md, n) # 0 \/ ReexpIdx(md, n) # 0
  /\ DLoads(libs, kern, m, stack)
  /\ DRes(libs, m, n, Fuel) # <<>>
DLoads(libs, kern, m, stack) ==
  /\ \A j \in 1 .. Len(stack) : stack[j] # m
  /\ LET md == Mod(m)  st2 == Append(stack, m) IN
     /\ \A r \in 1 .. Len(md.reexp) : DNameOk(libs, kern, md.reexp[r].fm, md.reexp[r].fn, st2, Fuel)
     /\ \A i \in 1 .. Len(md.procs) : DItemsOk(libs, kern, md.procs, i, md.procs[i].body, st2, 1)
DItemsOk(libs, kern, procs, pi, items, stack, k) ==
  \A j \in k .. Len(items) :
    LET it == items[j] IN
    CASE it.t = "loc" -> it.k < procs[pi].locals
      [] it.t = "exec" -> it.i < pi
      [] it.t \in {"call", "ref"} -> it.i < pi /\ ~kern
      [] it.t = "xexec" -> DNameOk(libs, kern, it.m, it.n, stack, Fuel)
      [] it.t \in {"xcall", "xref"} -> DNameOk(libs, kern, it.m, it.n, stack, Fuel) /\ ~kern
      [] it.t = "lit" -> TRUE
      [] it.t = "sys" -> ~kern /\ HasKernel /\ LET i == ProcIdx(Mod(KPath), it.n) IN i # 0 /\ Mod(KPath).procs[i].export
      \* execution_contexts.md: "unlike procedures in regular library modules, procedures in a kernel module can use the caller
      \* instruction" - the module being compiled must be the kernel module itself, not a library module a kernel loads
      [] it.t = "caller" -> kern /\ stack # <<>> /\ stack[Len(stack)] = KPath
      [] OTHER -> TRUE
DKernelOk(libs) == ~HasKernel \/ DLoads(libs, TRUE, KPath, <<>>)
\* a program: body = pseudo-procedure after its local procedures
ProgProcs(p) == Append(p.procs, [name |-> "#main", export |-> FALSE, locals |-> 0, body |-> p.body])
DProgOk(libs, p) ==
  /\ \A i \in 1 .. Len(p.procs) : ~p.procs[i].export
  /\ LET pp == ProgProcs(p) IN \A i \in 1 .. Len(pp) : DItemsOk(libs, FALSE, pp, i, pp[i].body, <<XPath>>, 1)
DProgRoot(libs, p) == LET pp == ProgProcs(p) IN DProc(libs, pp, Len(pp))
DProgNeeded(libs, p) == LET pp == ProgProcs(p) IN DNeedProc(libs, pp, Len(pp))
DProgLits(libs, p) == LET pp == ProgProcs(p) IN DLitProc(libs, pp, Len(pp))
DKernelRoots(libs) == IF HasKernel THEN {DProc(libs, Mod(KPath).procs, i) : i \in {j \in 1 .. Len(Mod(KPath).procs) : Mod(KPath).procs[j].export}} ELSE {}
\* ------------------------------------------------------------------------
\* mechanism
\* st : [libs : set, kernel : set of roots, procs : root -> [callset, locals], ids : id -> root, alias : id -> id]
\* id : <<module path, procedure name>> for exported procedures, <<module path, "#" \o index>> for internal ones
EmptyFn == <<>>
Fresh(libs) == [libs |-> libs, kernel |-> {}, procs |-> EmptyFn, ids |-> EmptyFn, alias |-> EmptyFn]
Put(f, k, v) == [x \in (DOMAIN f) \cup {k} |-> IF x = k THEN v ELSE f[x]]
HasId(st, id) == id \in DOMAIN st.ids \/ id \in DOMAIN st.alias
RootById(st, id) == IF id \in DOMAIN st.ids THEN st.ids[id] ELSE st.ids[st.alias[id]]
Fail(st, kind) == [ok |-> FALSE, st |-> st, kind |-> kind]

\* ProcedureCache::insert ; id = <<>> when the procedure has no id
Insert(st, root, callset, locals, id) ==
  IF id # <<>> /\ HasId(st, id) THEN Fail(st, "DuplicateProcId")
  ELSE IF root \in DOMAIN st.procs
    \* equal code (a wrapper `exec`-ing a procedure with locals has that procedure's root but no locals of its own),
    \* possibly different static references: the cached procedure covers both callsets
    THEN [ok |-> TRUE, st |-> [st EXCEPT !.procs[root].callset = @ \cup callset,
                                         !.ids = IF id = <<>> THEN @ ELSE Put(@, id, root)]]
    ELSE [ok |-> TRUE, st |-> [st EXCEPT !.procs = Put(@, root, [callset |-> callset, locals |-> locals]),
                                          !.ids = IF id = <<>> THEN @ ELSE Put(@, id, root)]]

\* ModuleProvider::get_module : the module is known and defines (or re-exports) that name
ProviderHas(st, id) == /\ id[1] # KPath /\ Provided(st.libs, id[1])
                       /\ LET md == Mod(id[1]) IN ProcIdx(md, id[2]) # 0 \/ ReexpIdx(md, id[2]) # 0

\* ctx : [kern : BOOLEAN, stack : Seq(module path)]
RECURSIVE Items(_, _, _, _, _, _, _), Procs(_, _, _, _, _), ReexportsEnsure(_, _, _, _), ReexportsAlias(_, _, _), CompileModule(_, _, _), Ensure(_, _, _), InsertAll(_, _, _, _, _)

\* Assembler::ensure_procedure_is_in_cache
Ensure(st, ctx, id) ==
  IF HasId(st, id) THEN [ok |-> TRUE, st |-> st]
  ELSE IF ~ProviderHas(st, id) THEN Fail(st, "ImportedProcModuleNotFound")
  ELSE LET r == CompileModule(st, ctx, id[1]) IN
       IF ~r.ok THEN r
       ELSE IF ~HasId(r.st, id) THEN Fail(r.st, "ImportedProcNotFoundInModule") ELSE [ok |-> TRUE, st |-> r.st]

\* compile the items k.. of a body ; done = procedures of the current module compiled so far ; cur = [code, cs]
\* result: [ok, st, code, cs]
Items(st, ctx, done, locals, items, k, cur) ==
  IF k > Len(items) THEN [ok |-> TRUE, st |-> st, code |-> cur.code, cs |-> cur.cs]
  ELSE
    LET it == items[k]
        Go(st2, code2, cs2) == Items(st2, ctx, done, locals, items, k + 1, [code |-> code2, cs |-> cs2])
        Add(e) == Go(st, Append(cur.code, e), cur.cs)
    IN
    CASE it.t = "op" -> Add(<<"op", it.k>>)
      [] it.t = "loc" -> IF it.k < locals THEN Add(<<"loc", locals - 1 - it.k>>) ELSE Fail(st, "ParamOutOfBounds")
      [] it.t = "caller" -> IF ctx.kern /\ ctx.stack # <<>> /\ ctx.stack[Len(ctx.stack)] = KPath THEN Add(<<"caller", 0>>) ELSE Fail(st, "CallerOutOfKernel")
      [] it.t = "lit" -> Go(st, cur.code \o RefElems(DTarget(AllLibs, it)), cur.cs)
      [] it.t \in {"exec", "call", "ref"} ->
           IF it.i > Len(done) THEN Fail(st, "LocalProcNotFound")
           ELSE IF it.t # "exec" /\ ctx.kern THEN Fail(st, "CallInKernel")
           ELSE LET p == done[it.i] IN
                IF it.t = "exec" THEN Go(st, Paste(cur.code, p.root), cur.cs \cup p.callset)
                ELSE Go(st, IF it.t = "call" THEN Append(cur.code, <<"call", p.root>>) ELSE cur.code \o RefElems(p.root),
                        cur.cs \cup p.callset \cup {p.root})
      [] it.t \in {"xexec", "xcall", "xref"} ->
           LET e == Ensure(st, ctx, <<it.m, it.n>>) IN
           IF ~e.ok THEN e
           ELSE IF it.t # "xexec" /\ ctx.kern THEN Fail(e.st, "CallInKernel")
           ELSE LET root == RootById(e.st, <<it.m, it.n>>)
                    pcs == e.st.procs[root].callset
                IN IF it.t = "xexec" THEN Go(e.st, Paste(cur.code, root), cur.cs \cup pcs)
                   ELSE Go(e.st, IF it.t = "xcall" THEN Append(cur.code, <<"call", root>>) ELSE cur.code \o RefElems(root),
                           cur.cs \cup pcs \cup {root})
      [] it.t = "sys" ->
           IF ~HasId(st, <<KPath, it.n>>) THEN Fail(st, "KernelProcNotFound")
           ELSE IF ctx.kern THEN Fail(st, "CallInKernel")
           ELSE LET root == RootById(st, <<KPath, it.n>>) IN
                Go(st, Append(cur.code, <<"sys", root>>), cur.cs \cup st.procs[root].callset \cup {root})

\* compile procedures i.. of a module ; result [ok, st, done]
Procs(st, ctx, procs, i, done) ==
  IF i > Len(procs) THEN [ok |-> TRUE, st |-> st, done |-> done]
  ELSE LET p == procs[i]
           r == Items(st, ctx, done, p.locals, p.body, 1, [code |-> <<>>, cs |-> {}])
       IN IF ~r.ok THEN r
          ELSE Procs(r.st, ctx, procs, i + 1,
                     Append(done, [name |-> p.name, export |-> p.export, locals |-> p.locals,
                                   root |-> Norm(Wrap(p.locals, r.code)), callset |-> r.cs]))

\* re-exports j.. of module m: the targets are brought into the cache before the module's own procedures are compiled ...
ReexportsEnsure(st, ctx, m, j) ==
  LET md == Mod(m) IN
  IF j > Len(md.reexp) THEN [ok |-> TRUE, st |-> st]
  ELSE LET e == Ensure(st, ctx, <<md.reexp[j].fm, md.reexp[j].fn>>)
       IN IF ~e.ok THEN Fail(e.st, "ReExportedProcModuleNotFound") ELSE ReexportsEnsure(e.st, ctx, m, j + 1)
\* ... and their aliases are registered afterwards (a module that fails to compile leaves none behind)
ReexportsAlias(st, m, j) ==
  LET md == Mod(m) IN
  IF j > Len(md.reexp) THEN [ok |-> TRUE, st |-> st]
  ELSE LET r == md.reexp[j]
           ref == <<r.fm, r.fn>>
       IN IF HasId(st, <<m, r.name>>) THEN Fail(st, "DuplicateProcId")
          ELSE LET tgt == IF ref \in DOMAIN st.ids THEN ref ELSE st.alias[ref]
               IN ReexportsAlias([st EXCEPT !.alias = Put(@, <<m, r.name>>, tgt)], m, j + 1)

\* cache the module's procedures: exported ones and those in the module's combined callset
InsertAll(st, m, done, mcs, i) ==
  IF i > Len(done) THEN [ok |-> TRUE, st |-> st]
  ELSE LET p == done[i] IN
       IF p.export \/ p.root \in mcs
         THEN LET r == Insert(st, p.root, p.callset, p.locals, <<m, IF p.export THEN p.name ELSE "#" \o ToString(i - 1)>>)
              IN IF ~r.ok THEN r ELSE InsertAll(r.st, m, done, mcs, i + 1)
         ELSE InsertAll(st, m, done, mcs, i + 1)

\* Assembler::compile_module
CompileModule(st, ctx, m) ==
  IF \E j \in 1 .. Len(ctx.stack) : ctx.stack[j] = m THEN Fail(st, "CircularModuleDependency")
  ELSE LET ctx2 == [ctx EXCEPT !.stack = Append(@, m)]
           rx == ReexportsEnsure(st, ctx2, m, 1)
       IN IF ~rx.ok THEN rx
          ELSE LET ps == Procs(rx.st, ctx2, Mod(m).procs, 1, <<>>) IN
               IF ~ps.ok THEN ps
               ELSE LET al == ReexportsAlias(ps.st, m, 1) IN
                    IF ~al.ok THEN al
                    ELSE InsertAll(al.st, m, ps.done, UNION {ps.done[i].callset : i \in 1 .. Len(ps.done)}, 1)

\* Assembler::with_kernel : result [ok, st]
WithKernel(st) ==
  LET r == CompileModule(st, [kern |-> TRUE, stack |-> <<>>], KPath) IN
  IF ~r.ok THEN r
  ELSE [ok |-> TRUE, st |-> [r.st EXCEPT !.kernel = {RootById(r.st, <<KPath, Mod(KPath).procs[i].name>>) :
                                                      i \in {j \in 1 .. Len(Mod(KPath).procs) : Mod(KPath).procs[j].export}}]]

\* Assembler::compile_ast : result [ok, st, root, kernel, cbt] | [ok = FALSE, st, kind]
RECURSIVE ProgProcsLoop(_, _, _, _, _)
ProgProcsLoop(st, ctx, procs, i, done) ==
  IF i > Len(procs) THEN [ok |-> TRUE, st |-> st, done |-> done]
  ELSE IF procs[i].export THEN Fail(st, "ExportedProcInProgram")
  ELSE LET p == procs[i]
           r == Items(st, ctx, done, p.locals, p.body, 1, [code |-> <<>>, cs |-> {}])
       IN IF ~r.ok THEN r
          ELSE ProgProcsLoop(r.st, ctx, procs, i + 1,
                             Append(done, [name |-> p.name, export |-> FALSE, locals |-> p.locals,
                                           root |-> Norm(Wrap(p.locals, r.code)), callset |-> r.cs]))
Compile(st, p) ==
  LET ctx == [kern |-> FALSE, stack |-> <<XPath>>]
      ps == ProgProcsLoop(st, ctx, p.procs, 1, <<>>)
  IN IF ~ps.ok THEN ps
     ELSE LET b == Items(ps.st, ctx, ps.done, 0, p.body, 1, [code |-> <<>>, cs |-> {}]) IN
          IF ~b.ok THEN b
          ELSE LET cs == b.cs \cup UNION {ps.done[i].callset : i \in 1 .. Len(ps.done)}
                   local == {ps.done[i].root : i \in 1 .. Len(ps.done)}
               IN IF \E r \in cs : r \notin DOMAIN b.st.procs /\ r \notin local THEN Fail(b.st, "CallSetProcedureNotFound")
                  ELSE [ok |-> TRUE, st |-> b.st, root |-> Norm(b.code), kernel |-> b.st.kernel, cbt |-> cs]

\* the assembler as configured by the builder calls: libraries first, then the kernel
Configured(libs) == IF HasKernel THEN WithKernel(Fresh(libs)) ELSE [ok |-> TRUE, st |-> Fresh(libs)]
=============================================================================
