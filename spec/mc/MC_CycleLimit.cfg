CONSTANTS
  NeedSet = {0, 1, 2, 3, 5, 8, 12, 999}
  MaxSet = {0, 1, 2, 3, 4, 5, 7, 8, 9, 12, 13, 14}
  Infinite = 999
  MinTraceLen = 0
SPECIFICATION Spec
INVARIANTS NeverPassesLimit Exact ClosedForm
PROPERTIES NoStepAfterLimit AlwaysStops
CHECK_DEADLOCK FALSE
