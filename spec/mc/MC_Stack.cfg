CONSTANT N = 7
INIT Init
NEXT Next
INVARIANTS MinDepth16 LIFO
CHECK_DEADLOCK FALSE
