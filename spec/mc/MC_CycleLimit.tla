--------------------------- MODULE MC_CycleLimit ---------------------------
(* All (need, max) pairs in a small range incl. a non-terminating program; safety and liveness
   (under weak fairness, no state constraint); the closed form Outcome agrees with the behaviours. *)
EXTENDS CycleLimit
=============================================================================
