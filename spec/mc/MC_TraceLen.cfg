INIT Init
NEXT Next
INVARIANTS MinimalIsAdmissible MinimalIsLeast Monotone
CHECK_DEADLOCK FALSE
