SPECIFICATION Spec
INVARIANTS DepthBook CtxDiscipline Isolation FreshContexts Outcomes HaltClean
PROPERTY Terminates
CHECK_DEADLOCK FALSE
