--------------------------- MODULE MC_AirEnforced ---------------------------
(* Mini field: computes the enforced-cell table from the operation semantics, checks that every operation is exercised,
   that the helper-limb relations of the u32 operations have exactly one solution for every operand tuple, and prints
   the table for the harness (air-perturb). *)
EXTENDS Naturals, Sequences, TLC, Json
HB == 2
G == 9
B == 8
INSTANCE AirEnforced

U32 == 0 .. (LB * LB - 1)
Limbs == 0 .. (LB - 1)
Quads == {<<a, b, c, d>> : a \in Limbs, b \in Limbs, c \in Limbs, d \in Limbs}
Sols(op, a, b, c, r0, r1) == {h \in Quads : HelperRel(op, a, b, c, r0, r1, h)}
\* results as the operation defines them (integers)
Res(op, a, b, c) ==
  CASE op = "U32SPLIT" -> <<a \div (LB * LB), a % (LB * LB)>>
    [] op = "U32ASSERT2" -> <<a, b>>
    [] op = "U32ADD" -> <<(a + b) \div (LB * LB), (a + b) % (LB * LB)>>
    [] op = "U32ADD3" -> <<(a + b + c) \div (LB * LB), (a + b + c) % (LB * LB)>>
    [] op = "U32SUB" -> <<IF b < a THEN 1 ELSE 0, (b + LB * LB - a) % (LB * LB)>>          \* s1 - s0
    [] op = "U32MUL" -> <<(a * b) \div (LB * LB), (a * b) % (LB * LB)>>
    [] op = "U32MADD" -> <<(a * b + c) \div (LB * LB), (a * b + c) % (LB * LB)>>
    [] op = "U32DIV" -> <<b % a, b \div a>>                                                   \* s0' = remainder, s1' = quotient
UniqueLimbs ==
  \A op \in U32HelperOps : \A a \in (IF op = "U32DIV" THEN U32 \ {0} ELSE U32) : \A b \in U32 :
     \A c \in (IF op \in {"U32ADD3", "U32MADD"} THEN {0, 1, LB * LB - 1} ELSE {0}) :
        LET r == Res(op, a, b, c) IN Cardinality(Sols(op, a, b, c, r[1], r[2])) = 1

ASSUME \A op \in SpanOps : \A rg \in Regimes : Exercised(op, rg)
ASSUME UniqueLimbs
\* vacuity guard: the operations documented with a binary / fixed operand are found by the derivation
ASSUME /\ Pinned("NOT") = {0} /\ Pinned("AND") = {0, 1} /\ Pinned("OR") = {0, 1} /\ Pinned("CSWAP") = {0} /\ Pinned("CSWAPW") = {0}
       /\ Pinned("ASSERT") = {0} /\ Pinned("ADD") = {} /\ Pinned("SWAP") = {}
ASSUME PrintT(ToJson([tag |-> "enforced",
                      ops |-> [op \in SpanOps |-> [rg \in Regimes |-> Enforced(op, rg) \cup HelperCells(op) \cup PinnedCells(op)]],
                      ctl |-> [row \in CtlRows |-> [rg \in Regimes |-> CtlEnforced(row, rg)]],
                      chip |-> ChipEnforced]))
VARIABLE x
Init == x = 0
Next == x' = x
=============================================================================
