------------------------------- MODULE MC_VM -------------------------------
(***************************************************************************)
(* MidenVM.tla model-checked in the mini field (HB = 2) on call trees that *)
(* mix call / syscall / dyncall with memory operations on colliding        *)
(* addresses (C07), loops and splits (C06, C13).  The machine is           *)
(* deterministic, so TLC explores one behaviour per (program, input) pair; *)
(* the invariants are evaluated in every state and the action properties   *)
(* on every step.                                                          *)
(***************************************************************************)
EXTENDS Naturals, Sequences, TLC
HB == 2
G == 9
B == 8
INSTANCE MidenVM

H(n) == <<Small(n), F1, F0, F0>>                    \* abstract digest labels
Op(o) == [o |-> o, c |-> 0, imm |-> <<>>]
Push(v) == [o |-> "PUSH", c |-> 100, imm |-> <<Small(v)>>]
Span(id, ops) == [k |-> "span", h |-> H(id), ops |-> ops]
Join(id, a, b) == [k |-> "join", h |-> H(id), c |-> <<a, b>>]
Split(id, a, b) == [k |-> "split", h |-> H(id), c |-> <<a, b>>]
Loop(id, a) == [k |-> "loop", h |-> H(id), c |-> <<a>>]
Call(id, f) == [k |-> "call", h |-> H(id), f |-> H(f), isdyn |-> FALSE]
SysCall(id, f) == [k |-> "syscall", h |-> H(id), f |-> H(f), isdyn |-> FALSE]
DynCall(id) == [k |-> "call", h |-> H(id), f |-> H(99), isdyn |-> TRUE]

Store(v, a) == <<Push(v), Push(a), Op("MSTORE"), Op("DROP")>>        \* mem[a][0] := v
Load(a) == <<Push(a), Op("MLOAD")>>                                  \* push mem[a][0]

\* procedures (cb_table)
F1p == Span(11, Store(3, 1) \o Load(1) \o <<Op("DROP")>>)                  \* writes 3 to address 1 of its own context
F2p == Join(12, Span(13, Store(2, 1)), Call(14, 11))                       \* nested call
K1p == Span(21, Load(1) \o <<Op("INCR")>> \o <<Push(1), Op("MSTORE"), Op("DROP")>> \o <<Op("PAD"), Op("PAD"), Op("PAD"), Op("PAD"), Op("CALLER"), Op("DROP"), Op("DROP"), Op("DROP"), Op("DROP")>>)
                                                                            \* kernel: root memory[1] += 1, reads caller hash
F3p == Join(15, Span(16, Store(2, 1)), SysCall(17, 21))                    \* call -> syscall
Badp == Span(18, <<Push(1)>>)                                              \* leaves depth 17
Procs == <<[h |-> H(11), node |-> F1p], [h |-> H(12), node |-> F2p], [h |-> H(21), node |-> K1p], [h |-> H(15), node |-> F3p],
           [h |-> H(18), node |-> Badp]>>
Kernel == <<H(21)>>

Main(i) ==
  CASE i = 1 -> Join(1, Join(2, Span(3, Store(1, 1)), Call(4, 11)), Span(5, Load(1)))           \* caller's mem[1] must still be 1
    [] i = 2 -> Join(1, Join(2, Span(3, Store(1, 1)), Call(4, 12)), Span(5, Load(1)))           \* two levels
    [] i = 3 -> Join(1, Join(2, Span(3, Store(1, 1)), SysCall(4, 21)), Span(5, Load(1)))        \* kernel increments root mem[1] -> 2
    [] i = 4 -> Join(1, Join(2, Span(3, Store(1, 1)), Call(4, 15)), Span(5, Load(1)))           \* call -> syscall: root mem[1] -> 2
    [] i = 5 -> Join(1, Span(3, Store(1, 1)), Call(4, 18))                                       \* fails: depth 17 on return
    [] i = 6 -> Join(1, Span(3, Store(1, 1)), SysCall(4, 11))                                    \* fails: not a kernel procedure
    [] i = 7 -> Span(3, <<Op("PAD"), Op("PAD"), Op("PAD"), Op("PAD"), Op("CALLER")>>)           \* fails: caller outside syscall
    [] i = 8 -> Join(1, Span(3, <<Push(0), Push(0), Push(1), Push(11)>>), Join(6, DynCall(4), Span(5, Load(1))))   \* dyncall of H(11)
    [] i = 9 -> Join(1, Span(3, <<Push(1), Push(1)>>), Join(6, Loop(7, Join(8, Call(4, 11), Span(9, <<Op("NOT")>>))), Span(5, Load(1))))
    [] i = 10 -> Join(1, Span(3, <<Push(2)>>), Split(4, Span(5, <<Push(1)>>), Span(6, <<Push(2)>>)))            \* fails: non-binary
NProg == 10
Prog(i) == [mast |-> Main(i), procs |-> Procs, kernel |-> Kernel, hash |-> Main(i).h, dynhash |-> H(99)]
Env == [next |-> [j \in 1 .. 16 |-> F0]]

VARIABLES pi, vm, st, prev          \* st : "run" | "halted" | "failed:<kind>" ; prev : state before the last step (ghost)
Init == /\ pi \in 1 .. NProg
        /\ vm = InitVm(Prog(pi), <<>>, <<>>)
        /\ st = "run" /\ prev = vm
Next == /\ st = "run"
        /\ IF vm.todo.do = "halt" THEN st' = "halted" /\ UNCHANGED <<pi, vm, prev>>
           ELSE \E r \in {Step(vm, Env, Prog(pi))} :
                  IF r.ok = "ok" THEN vm' = r.vm /\ prev' = vm /\ UNCHANGED <<pi, st>>
                  ELSE st' = "failed:" \o r.kind /\ UNCHANGED <<pi, vm, prev>>

\* ---- invariants ----
DepthBook == Len(vm.stack) >= 16 /\ Len(vm.ovf) = Len(vm.stack) - 16
CtxDiscipline == /\ (vm.insys = 1 => vm.ctx = 0)
                 /\ (vm.ctx # 0 => vm.ctx <= vm.clk)
                 /\ NatLeq(FmpMin, vm.fmp) /\ NatLeq(vm.fmp, FmpMax)
\* a step changes memory only in the context it executes in
Isolation == \A k \in DOMAIN vm.mem : (k \notin DOMAIN prev.mem \/ vm.mem[k] # prev.mem[k]) => k[1] = prev.ctx
\* contexts of simultaneously live calls are pairwise distinct and differ from the current one
FreshContexts == LET calls == {j \in 1 .. Len(vm.cs) : vm.cs[j].k = "call" /\ vm.cs[j].nd.k = "call"} IN
                 \A a, b \in calls : a < b => vm.cs[a].sctx # vm.cs[b].sctx
\* expected outcomes (the reference semantics worked out by hand for these programs)
M1(v) == IF <<0, Small(1)>> \in DOMAIN v.mem THEN v.mem[<<0, Small(1)>>][1] ELSE F0
Outcomes ==
  /\ (st = "halted" /\ pi \in {1, 2}) => vm.stack[1] = Small(1) /\ M1(vm) = Small(1)
  /\ (st = "halted" /\ pi \in {3, 4}) => vm.stack[1] = Small(2)
  /\ (st = "halted" /\ pi = 8) => vm.stack[1] = F0          \* root mem[1] untouched by the dyncalled procedure
  /\ (st = "halted" /\ pi = 9) => vm.stack[1] = F0
  /\ st = "halted" => pi \in {1, 2, 3, 4, 8, 9}
  /\ (st # "run" /\ pi = 5) => st = "failed:InvalidStackDepthOnReturn"
  /\ (st # "run" /\ pi = 6) => st = "failed:SyscallTargetNotInKernel"
  /\ (st # "run" /\ pi = 7) => st = "failed:CallerNotInSyscall"
  /\ (st # "run" /\ pi = 10) => st = "failed:NotBinary"
\* when execution halts the control stack is empty and we are back in the root context
HaltClean == st = "halted" => (vm.cs = <<>> /\ vm.ctx = 0 /\ vm.insys = 0 /\ vm.fmp = FmpMin)
Terminates == <>(st # "run")
Spec == Init /\ [][Next]_<<pi, vm, st, prev>> /\ WF_<<pi, vm, st, prev>>(Next)
=============================================================================
