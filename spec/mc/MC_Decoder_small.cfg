CONSTANTS G = 3 B = 4 N = 12
INIT Init
NEXT Next
INVARIANTS GroupCountZeroAtEnd OpIdxRange OpIdxStep StreamIsProgram NoopsOnlyWhereDocumented GcMonotone RespanCount
CHECK_DEADLOCK FALSE
