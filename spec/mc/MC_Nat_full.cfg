CONSTANT ASET = {0, 1, 2, 3, 4, 5, 7, 8, 15, 16, 17, 31, 32, 33, 63, 64, 65, 100, 127, 128, 129, 170, 200, 254, 255}
INIT Init
NEXT Next
INVARIANT OK
CHECK_DEADLOCK FALSE
