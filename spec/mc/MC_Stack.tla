------------------------------ MODULE MC_Stack ------------------------------
(* The operand stack of the instruction-level specification: depth never drops below 16, zeros are
   shifted in, and values pushed beyond position 15 come back in LIFO order under every interleaving
   of shifting instructions (all instruction words up to length N). *)
EXTENDS Naturals, Sequences, TLC
CONSTANT N
HB == 2
INSTANCE Masm
VARIABLES st, ghost, n        \* ghost : the unbounded mathematical stack (no padding), for comparison
I(op) == [op |-> op, p |-> 0, imm |-> <<>>, err |-> 0]
Vals == {F1, F2}
Init == /\ \E d \in {0, 15, 16, 17, 19} : ghost = [i \in 1 .. d |-> Small(1 + (i % 3))]
        /\ st = [stack |-> Norm(ghost), mem |-> <<>>, adv |-> <<>>]
        /\ n = 0
PushV(v) == /\ st' = Apply(st, [I("push") EXCEPT !.imm = <<v>>]).st /\ ghost' = <<v>> \o ghost
Drop == /\ st' = Apply(st, I("drop")).st /\ ghost' = IF ghost = <<>> THEN <<>> ELSE Tail(ghost)
Dup == /\ st' = Apply(st, [I("dup") EXCEPT !.p = 1]).st
       /\ ghost' = <<(IF Len(ghost) >= 2 THEN ghost[2] ELSE F0)>> \o ghost
Swap == /\ st' = Apply(st, [I("swap") EXCEPT !.p = 1]).st
        /\ ghost' = LET g == IF Len(ghost) < 2 THEN ghost \o [i \in 1 .. 2 - Len(ghost) |-> F0] ELSE ghost
                    IN <<g[2], g[1]>> \o SubSeq(g, 3, Len(g))
Next == n < N /\ n' = n + 1 /\ (\E v \in Vals : PushV(v) \/ Drop \/ Dup \/ Swap)
MinDepth16 == Len(st.stack) >= 16
\* the specification's stack is the mathematical stack padded with zeros
Pad(g) == IF Len(g) < 16 THEN g \o [i \in 1 .. 16 - Len(g) |-> F0] ELSE g
El(a, i) == IF i <= Len(a) THEN a[i] ELSE F0
Max(x, y) == IF x > y THEN x ELSE y
\* equal up to trailing zeros (positions below the mathematical stack read as zeros)
LIFO == \A i \in 1 .. Max(Len(st.stack), Len(ghost)) : El(st.stack, i) = El(ghost, i)
=============================================================================
