CONSTANTS G = 9  B = 8  N = 14
INIT Init
NEXT Next
INVARIANTS InvGroupCap InvBatchCap InvImmNotLast InvImmCount InvDecode InvNoEmpty InvGreedy InvGroupCount
CHECK_DEADLOCK FALSE
