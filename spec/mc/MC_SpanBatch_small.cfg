CONSTANTS G = 3  B = 4  N = 14
INIT Init
NEXT Next
INVARIANTS InvGroupCap InvBatchCap InvImmNotLast InvImmCount InvDecode InvNoEmpty InvGreedy InvGroupCount
CHECK_DEADLOCK FALSE
