CONSTANTS MaxLen = 4
INIT Init
NEXT Next
INVARIANTS Emit KernelConforms
CHECK_DEADLOCK FALSE
