INIT Init
NEXT Next
