----------------------------- MODULE MC_Decoder -----------------------------
(* The rows MidenVM!SpanRows assigns to a span, for every push / non-push pattern up to length N:
   group counter reaches zero exactly at the end, op_index in range and restarting per group, NOOPs only
   where documented, executed operations = the span's operations in order. *)
EXTENDS Naturals, Sequences, TLC
CONSTANTS G, B, N
HB == 2
INSTANCE MidenVM
VARIABLE ops
PushOp == [o |-> "PUSH", c |-> 100, imm |-> <<F1>>]
PlainOp == [o |-> "ADD", c |-> 34, imm |-> <<>>]
Init == ops \in {<<PushOp>>, <<PlainOp>>}
Next == Len(ops) < N /\ \E x \in {PushOp, PlainOp} : ops' = Append(ops, x)
\* (every invariant binds the rows once: a state-level definition is re-evaluated at every occurrence)
LastGc(rows) == LET l == rows[Len(rows)] IN IF l.kind = "op" THEN l.gc - (IF HasImm(l.op) THEN 1 ELSE 0) ELSE l.gc - 1
\* group counter: total at SPAN, zero after the last row's effect
GroupCountZeroAtEnd == LET rows == SpanRows(ops) IN LastGc(rows) = 0 /\ rows[1].gc = GroupCount(Batches(ops)) /\ rows[1].kind = "SPAN"
OpIdxRange == LET rows == SpanRows(ops) IN \A i \in 1 .. Len(rows) : rows[i].ox \in 0 .. G - 1
\* within a batch, op_index is 0 at the start of a group and increases by one inside a group
OpIdxStep == LET rows == SpanRows(ops) IN \A i \in 1 .. Len(rows) - 1 :
               (rows[i].kind = "op" /\ rows[i + 1].kind = "op") => (rows[i + 1].ox = rows[i].ox + 1 \/ rows[i + 1].ox = 0)
\* executed operations without NOOPs = the program's operations in order (no NOOP in the test alphabet)
StreamIsProgram == LET rows == SpanRows(ops)
                       opRows == SelectSeq(rows, LAMBDA r : r.kind = "op")
                   IN SelectSeq([i \in 1 .. Len(opRows) |-> opRows[i].op], LAMBDA o : o.o # "NOOP") = ops
\* a NOOP row appears only (a) right after an immediate-carrier that closed its group, or (b) as a padding group (ox = 0)
NoopsOnlyWhereDocumented == LET rows == SpanRows(ops) IN
  \A i \in 1 .. Len(rows) : (rows[i].kind = "op" /\ rows[i].op.o = "NOOP") =>
      \/ rows[i].ox = 0
      \/ (i > 1 /\ rows[i - 1].kind = "op" /\ HasImm(rows[i - 1].op) /\ rows[i].ox = rows[i - 1].ox + 1)
\* group count never increases and decreases by at most 2 per row
GcMonotone == LET rows == SpanRows(ops) IN \A i \in 1 .. Len(rows) - 1 : rows[i + 1].gc <= rows[i].gc /\ rows[i].gc - rows[i + 1].gc <= 2
RespanCount == LET rows == SpanRows(ops) IN Len(SelectSeq(rows, LAMBDA r : r.kind = "RESPAN")) = Len(Batches(ops)) - 1
=============================================================================
