----------------------------- MODULE MC_TraceLen -----------------------------
EXTENDS Naturals, TLC
MinLen == 8
INSTANCE TraceLen
VARIABLES a, b, c
Init == a \in 0 .. 40 /\ b \in 0 .. 40 /\ c \in 0 .. 40
Next == UNCHANGED <<a, b, c>>
MinimalIsAdmissible == Admissible(Minimal(a, b, c), a, b, c)
MinimalIsLeast == \A l \in 1 .. Minimal(a, b, c) - 1 : ~Admissible(l, a, b, c)
Monotone == a < 40 => Minimal(a + 1, b, c) >= Minimal(a, b, c)
=============================================================================
