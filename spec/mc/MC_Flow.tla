------------------------------ MODULE MC_Flow ------------------------------
(* Laws of the structured semantics, checked on the specification (HB = 2): for every small body and
   every decision tape, repeat.n b = n textual copies of b, and exec.f = body(f) pasted at the call site
   (for procedures that do not use locals), if = the selected branch. *)
EXTENDS Naturals, Sequences, TLC
HB == 2
INSTANCE MasmFlow
VARIABLES body, tape, n
I0(op) == [op |-> op, p |-> 0, imm |-> <<>>, err |-> 0]
Ins(i) == [k |-> "ins", ins |-> i]
Mark(m) == Ins([I0("push") EXCEPT !.imm = <<Small(m)>>])
Decide == Ins([I0("adv_push") EXCEPT !.p = 1])
Leafs == {<<Mark(1)>>, <<Mark(2), Ins(I0("add"))>>, <<Ins(I0("drop"))>>}
B1 == Leafs \cup {<<Decide, [k |-> "if", t |-> a, e |-> b]>> : a \in Leafs, b \in Leafs \cup {<<>>}}
            \cup {<<Decide, [k |-> "while", b |-> a \o <<Decide>>]>> : a \in Leafs}
Tapes == [1 .. 3 -> {F0, F1, F2}]
Init == body \in B1 /\ tape \in Tapes /\ n \in 0 .. 3
Next == UNCHANGED <<body, tape, n>>
St0 == [stack |-> Norm(<<Small(3), Small(2)>>), mem |-> <<>>, adv |-> [i \in 1 .. 3 |-> tape[i]], loc |-> <<>>]
NoProcs == <<>>
RepeatLaw == Run(NoProcs, <<[k |-> "repeat", n |-> n, b |-> body]>>, St0, 8) = Run(NoProcs, Copies(body, n), St0, 8)
ExecLaw == Run(<<[locals |-> 0, body |-> body]>>, <<Mark(3), [k |-> "exec", p |-> 1], Mark(1)>>, St0, 8)
             = Run(NoProcs, <<Mark(3)>> \o body \o <<Mark(1)>>, St0, 8)
IfLaw == \A c \in {F0, F1, F2} :
           LET st == [St0 EXCEPT !.stack = <<c>> \o @]
               r == Run(NoProcs, <<[k |-> "if", t |-> body, e |-> <<Mark(2)>>]>>, st, 8)
           IN IF c = F1 THEN r = Run(NoProcs, body, St0, 8)
              ELSE IF c = F0 THEN r = Run(NoProcs, <<Mark(2)>>, St0, 8)
              ELSE r.ok = "fail" /\ r.kind = "NotBinary"
=============================================================================
