INIT Init
NEXT Next
INVARIANT OK
CHECK_DEADLOCK FALSE
