---------------------------- MODULE MC_Assembler ----------------------------
(* All histories (library additions and compilations, including failing ones) of bounded length on one assembler
   instance over a universe of modules / programs read from a file (env UNIV, ndjson, line UIDX).
   Monitors (printed, never stopping the exploration; the orchestrator turns them into findings):
     HistoryIndependence : a compilation gives what the freshly configured assembler with the same libraries gives
     Declarative         : ... and that is: success iff the source is valid, the root the source stands for,
                           a code-block table containing every statically reachable call / syscall / procref target
   Every maximal history is printed with the prescription for each step (replayed on the real assembler). *)
EXTENDS Naturals, Sequences, FiniteSets, TLC, Json, IOUtils
CONSTANTS MaxLen
Univs == ndJsonDeserialize(IOEnv.UNIV)
UIDX == atoi(IOEnv.UIDX)
U == Univs[UIDX]
INSTANCE Assembler

VARIABLES st, hist, dead
vars == <<st, hist, dead>>
Libs == AllLibs

Summary(r) == IF r.ok THEN [ok |-> TRUE, root |-> r.root, kernel |-> r.kernel, cbt |-> r.cbt] ELSE [ok |-> FALSE, kind |-> r.kind]
SameResult(a, b) == a.ok = b.ok /\ (a.ok => a.root = b.root /\ a.kernel = b.kernel)

Init == \E l0 \in SUBSET Libs :
          LET c == Configured(l0) IN
          /\ st = c.st /\ dead = ~c.ok
          /\ hist = <<[act |-> "config", libs |-> l0, ok |-> c.ok, dok |-> DKernelOk(l0)]>>

AddLibrary(l) == /\ l \notin st.libs /\ st' = [st EXCEPT !.libs = @ \cup {l}]
                 /\ hist' = Append(hist, [act |-> "lib", lib |-> l]) /\ UNCHANGED dead

\* what the declarative layer prescribes for program p with the current libraries
Prescribed(libs, p) ==
  IF DProgOk(libs, p)
    THEN [ok |-> TRUE, root |-> DProgRoot(libs, p), needed |-> DProgNeeded(libs, p),
          runok |-> DProgLits(libs, p) \subseteq DProgNeeded(libs, p)]
    ELSE [ok |-> FALSE]

CompileP(pi) ==
  LET p == U.progs[pi]
      r == Compile(st, p)
      f0 == Configured(st.libs)
      f == Compile(f0.st, p)
      d == Prescribed(st.libs, p)
      hi == SameResult(r, f)
      de == r.ok = d.ok /\ (r.ok => r.root = d.root /\ d.needed \subseteq r.cbt /\ r.kernel = DKernelRoots(st.libs))
  IN /\ st' = r.st /\ UNCHANGED dead
     /\ hist' = Append(hist, [act |-> "compile", prog |-> pi, mech |-> IF r.ok THEN "ok" ELSE r.kind, hi |-> hi, de |-> de,
                              d |-> IF d.ok THEN [ok |-> TRUE, root |-> d.root, runok |-> d.runok] ELSE [ok |-> FALSE]])
     /\ (hi /\ de) \/ PrintT(ToJson([tag |-> "modelviol", uidx |-> UIDX, hi |-> hi, de |-> de, hist |-> hist',
                                      mech |-> Summary(r), fresh |-> Summary(f)]))

Next == /\ ~dead /\ Len(hist) < MaxLen
        /\ \/ \E l \in Libs : AddLibrary(l)
           \/ \E pi \in 1 .. Len(U.progs) : CompileP(pi)

Maximal == Len(hist) = MaxLen \/ dead
Emit == Maximal => PrintT(ToJson([tag |-> "history", uidx |-> UIDX, hist |-> hist]))
\* the kernel configuration must behave as prescribed as well
KernelConforms == hist[1].ok = hist[1].dok
=============================================================================
