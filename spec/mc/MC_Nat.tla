------------------------------ MODULE MC_Nat ------------------------------
(* HB = 2: a 4-limb number has 8 bits.  For all pairs the limb-level functions of Nat.tla (used at full
   width as the oracle for std::math::u64 / u256) equal plain integer arithmetic. *)
EXTENDS Naturals, Sequences, TLC
HB == 2
INSTANCE Nat
CONSTANTS ASET
VARIABLES a, b
M == 256
Init == a \in ASET /\ b \in 0 .. M - 1
Next == UNCHANGED <<a, b>>
L(x) == <<x % 4, (x \div 4) % 4, (x \div 16) % 4, (x \div 64) % 4>>
A == L(a)
Bq == L(b)
V(x) == NToNat(x, 1)
s == b % 8
RECURSIVE Clz(_, _)
Clz(x, i) == IF i < 0 \/ (x \div IntPow2(i)) % 2 = 1 THEN 0 ELSE 1 + Clz(x, i - 1)
RECURSIVE Ctz(_, _)
Ctz(x, i) == IF i = 8 \/ (x \div IntPow2(i)) % 2 = 1 THEN 0 ELSE 1 + Ctz(x, i + 1)
OK ==
  /\ V(NAdd(A, Bq)) = a + b
  /\ LET r == NSub(A, Bq) IN V(r[1]) = (a + M - b) % M /\ r[2] = (IF a < b THEN 1 ELSE 0)
  /\ V(NMul(A, Bq)) = a * b
  /\ NLt(A, Bq) = (a < b) /\ NLeq(A, Bq) = (a <= b)
  /\ b # 0 => LET r == NDivMod(A, Bq) IN V(r[1]) = a \div b /\ V(r[2]) = a % b
  /\ V(NAnd(A, Bq)) + V(NOr(A, Bq)) = a + b /\ V(NXor(A, Bq)) = V(NOr(A, Bq)) - V(NAnd(A, Bq))
  /\ V(NShl(A, s)) = (a * IntPow2(s)) % M
  /\ V(NShr(A, s)) = a \div IntPow2(s)
  /\ V(NRotl(A, s)) = ((a * IntPow2(s)) % M) + ((a * IntPow2(s)) \div M)
  /\ V(NRotr(A, s)) = (a \div IntPow2(s)) + (((a % IntPow2(s)) * IntPow2(8 - s)) % M)
  /\ NClz(A) = Clz(a, 7) /\ NClo(A) = Clz(M - 1 - a, 7) /\ NCtz(A) = Ctz(a, 0) /\ NCto(A) = Ctz(M - 1 - a, 0)
=============================================================================
