------------------------------ MODULE MC_Felt ------------------------------
(* Exhaustive check (HB = 2, P = 241) that the limb operators of Felt are the field. *)
EXTENDS Naturals, Sequences, TLC
HB == 2
INSTANCE Felt
P == 241
VARIABLES a, b
Init == a = 0 /\ b = 0
Next == \/ b < P - 1 /\ b' = b + 1 /\ a' = a
        \/ b = P - 1 /\ a < P - 1 /\ a' = a + 1 /\ b' = 0
A == FromNat(a)
B == FromNat(b)
AddOK == ToNat(FAdd(A, B)) = (a + b) % P
SubOK == ToNat(FSub(A, B)) = (a + P - b) % P
MulOK == ToNat(FMul(A, B)) = (a * b) % P
NegOK == ToNat(FNeg(A)) = (P - a) % P
InvOK == a # 0 => (ToNat(FMul(A, FInv(A))) = 1 /\ IsFelt(FInv(A)))
TypeOK == IsFelt(FAdd(A, B)) /\ IsFelt(FSub(A, B)) /\ IsFelt(FMul(A, B)) /\ IsFelt(FNeg(A))
PowOK == b < 8 => ToNat(Pow2F(b)) = IntPow2(b) % P
RawOK == LET t == MulRaw(A, B) IN t[1] + 4 * t[2] + 16 * t[3] + 64 * t[4] + 256 * (t[5] + 4 * t[6] + 16 * t[7] + 64 * t[8]) = a * b
=============================================================================
