INIT Init
NEXT Next
INVARIANTS AddOK SubOK MulOK NegOK InvOK TypeOK PowOK RawOK
CHECK_DEADLOCK FALSE
