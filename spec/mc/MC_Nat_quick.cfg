CONSTANT ASET = {0, 1, 2, 3, 15, 16, 63, 64, 65, 127, 128, 200, 254, 255}
INIT Init
NEXT Next
INVARIANT OK
CHECK_DEADLOCK FALSE
