CONSTANTS G = 9 B = 8 N = 11
INIT Init
NEXT Next
INVARIANTS GroupCountZeroAtEnd OpIdxRange OpIdxStep StreamIsProgram NoopsOnlyWhereDocumented GcMonotone RespanCount
CHECK_DEADLOCK FALSE
