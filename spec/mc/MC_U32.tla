------------------------------ MODULE MC_U32 ------------------------------
(* Exhaustive check at HB = 2 (a "u32" has 4 bits) that the limb-level u32 functions are the
   integer functions of the instruction reference. *)
EXTENDS Naturals, Sequences, TLC
HB == 2
INSTANCE U32
VARIABLES a, b, c
M == 16
Init == a \in 0 .. M - 1 /\ b \in 0 .. M - 1 /\ c \in 0 .. M - 1
Next == UNCHANGED <<a, b, c>>
A == FromNat(a)
Bq == FromNat(b)
C == FromNat(c)
N(x) == ToNat(x)
RECURSIVE Pop(_)
Pop(x) == IF x = 0 THEN 0 ELSE (x % 2) + Pop(x \div 2)
RECURSIVE Clz(_, _)
Clz(x, i) == IF i < 0 \/ (x \div IntPow2(i)) % 2 = 1 THEN 0 ELSE 1 + Clz(x, i - 1)
RECURSIVE Ctz(_, _)
Ctz(x, i) == IF i = 4 \/ (x \div IntPow2(i)) % 2 = 1 THEN 0 ELSE 1 + Ctz(x, i + 1)
OK ==
  /\ LET r == U32AddPair(A, Bq) IN N(r[1]) = (a + b) % M /\ N(r[2]) = (a + b) \div M
  /\ LET r == U32Add3Pair(A, Bq, C) IN N(r[1]) = (a + b + c) % M /\ N(r[2]) = (a + b + c) \div M
  /\ LET r == U32SubPair(A, Bq) IN N(r[1]) = (a + M - b) % M /\ N(r[2]) = (IF a < b THEN 1 ELSE 0)
  /\ LET r == U32MulPair(A, Bq) IN N(r[1]) = (a * b) % M /\ N(r[2]) = (a * b) \div M
  /\ LET r == U32MaddPair(A, Bq, C) IN N(r[1]) = (a * b + c) % M /\ N(r[2]) = (a * b + c) \div M
  /\ b # 0 => LET r == U32DivMod(A, Bq) IN N(r[1]) = a \div b /\ N(r[2]) = a % b
  /\ N(U32Not(A)) = M - 1 - a
  /\ N(U32And(A, Bq)) + N(U32Or(A, Bq)) = a + b
  /\ N(U32Xor(A, Bq)) = N(U32Or(A, Bq)) - N(U32And(A, Bq))
  /\ \A i \in 0 .. 3 : BitOf(U32And(A, Bq), i) = BitOf(A, i) * BitOf(Bq, i)
  /\ b < 4 => /\ N(U32Shl(A, b)) = (a * IntPow2(b)) % M
              /\ N(U32Shr(A, b)) = a \div IntPow2(b)
              /\ N(U32Rotl(A, b)) = ((a * IntPow2(b)) % M) + ((a * IntPow2(b)) \div M)
              /\ N(U32Rotr(A, b)) = (a \div IntPow2(b)) + (((a % IntPow2(b)) * IntPow2(4 - b)) % M)
  /\ N(U32Popcnt(A)) = Pop(a)
  /\ N(U32Clz(A)) = Clz(a, 3) /\ N(U32Clo(A)) = Clz(M - 1 - a, 3)
  /\ N(U32Ctz(A)) = Ctz(a, 0) /\ N(U32Cto(A)) = Ctz(M - 1 - a, 0)
  /\ a # 0 => IntPow2(N(ILog2(A))) <= a /\ a < 2 * IntPow2(N(ILog2(A)))
=============================================================================
