INIT Init
NEXT Next
INVARIANTS RepeatLaw ExecLaw IfLaw
CHECK_DEADLOCK FALSE
