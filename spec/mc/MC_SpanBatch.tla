---------------------------- MODULE MC_SpanBatch ----------------------------
(* All push / non-push patterns up to length N: the batching rules hold.  The pattern grows by one
   operation per step, so BFS to depth N visits every pattern of length <= N as one state. *)
EXTENDS Naturals, Sequences, TLC
CONSTANTS G, B, N
HB == 2
INSTANCE SpanBatch
VARIABLE ops
PushOp == [c |-> 100, imm |-> <<F1>>]
PlainOp == [c |-> 34, imm |-> <<>>]
Init == ops \in {<<PushOp>>, <<PlainOp>>}
Next == Len(ops) < N /\ \E o \in {PushOp, PlainOp} : ops' = Append(ops, o)
bs == Batches(ops)
InvGroupCap == GroupCap(bs)
InvBatchCap == BatchCap(bs)
InvImmNotLast == ImmNotLast(bs)
InvImmCount == ImmCount(bs)
InvDecode == DecodeRoundTrip(ops, bs)
InvNoEmpty == NoEmptyBatch(bs)
InvGreedy == Greedy(ops, bs)
InvGroupCount == GroupCount(bs) >= 1 /\ GroupCount(bs) <= Len(bs) * B
=============================================================================
