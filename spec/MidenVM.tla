------------------------------ MODULE MidenVM ------------------------------
(***************************************************************************)
(* Operation-level specification of Miden VM: system registers, operand    *)
(* stack with overflow table, per-context word RAM, and the program        *)
(* decoder walking a MAST (docs/src/design/{programs,decoder/main,         *)
(* stack/*}.md, user_docs/assembly/execution_contexts.md).                 *)
(*                                                                         *)
(* One step = one trace row.  Exec(vm) returns the row the decoder must    *)
(* show for the current state (operation, block address, hasher registers, *)
(* in_span, group_count, op_index, batch flags) and the successor state,   *)
(* or a failure.  Inputs the specification cannot know (values popped from *)
(* the advice stack, results of the RPO permutation, Merkle roots) are     *)
(* passed in as `env` (taken from the recording and checked elsewhere).    *)
(***************************************************************************)
EXTENDS Masm, SpanBatch, Opcodes

FmpMin == <<0, LB \div 4, 0, 0>>            \* 2^30
SyscallFmpMin == <<0, LB \div 2, 0, 0>>     \* 2^31
FmpMax == <<LB - 1, (LB \div 4) * 3 - 1 + 0, 0, 0>>   \* 3 * 2^30 - 1
ZeroDigest == <<F0, F0, F0, F0>>
Zero8 == [i \in 1 .. 8 |-> F0]

Top16(s) == SubSeq(s, 1, 16)
Last(q) == q[Len(q)]
Front(q) == SubSeq(q, 1, Len(q) - 1)

\* ------------------------------------------------------------------------
\* machine state (a record):
\*   clk, ctx : Nat ; fmp : felt ; insys : 0/1 ; fh : word (hash of the executing function)
\*   stack    : visible stack of the current context (top first, length >= 16)
\*   ovf      : addresses (felts) of the overflow rows of the current context, deepest first  (Len = Len(stack) - 16)
\*   mem      : function <<ctx, addr>> -> word (written locations only)
\*   hrows    : number of hasher rows used so far (next block id = hrows + 1)
\*   cs       : control stack of decoder frames ; todo : what the next row does
\*   lasth    : hasher registers of the last END row (a REPEAT row copies them)
\*   status   : "run" | "halted"

B0(vm) == Len(vm.stack)
B1(vm) == IF vm.ovf = <<>> THEN F0 ELSE Last(vm.ovf)

\* stack shifts: the value shifted out of position 15 goes to the overflow table with the current clock as address
ShR(vm, newtop) == [vm EXCEPT !.stack = newtop \o vm.stack,
                              !.ovf = vm.ovf \o [i \in 1 .. Len(newtop) |-> Small(vm.clk)]]
\* remove n items from the top (n <= 4 used one at a time by real ops; generic here), zeros shifted in at depth 16
RECURSIVE PopN(_, _)
PopN(vm, n) == IF n = 0 THEN vm
               ELSE PopN(IF Len(vm.stack) > 16 THEN [vm EXCEPT !.stack = Tail(vm.stack), !.ovf = Front(vm.ovf)]
                                               ELSE [vm EXCEPT !.stack = Tail(vm.stack) \o <<F0>>], n - 1)
\* replace the top n items by r (Len(r) = n) : no shift
SetTop(vm, n, r) == [vm EXCEPT !.stack = r \o SubSeq(vm.stack, n + 1, Len(vm.stack))]
\* pop n then the new top items r replace the first Len(r)
PopSet(vm, n, r) == SetTop(PopN(vm, n), Len(r), r)

MRead(vm, a) == LET k == <<vm.ctx, a>> IN IF k \in DOMAIN vm.mem THEN vm.mem[k] ELSE ZeroWord
MWrite(vm, a, w) == [vm EXCEPT !.mem = [k \in (DOMAIN vm.mem) \cup {<<vm.ctx, a>>} |-> IF k = <<vm.ctx, a>> THEN w ELSE vm.mem[k]]]

OkVm(vm) == [ok |-> "ok", vm |-> vm]
FailVm(kind) == [ok |-> "fail", kind |-> kind]

\* ------------------------------------------------------------------------
\* native operations (op : record [o |-> name, imm |-> <<>> | <<felt>>]); env : record of recorded inputs
\*   env.next : top 16 of the next row (used only for operations whose result comes from outside the VM)
ApplyOp(vm, op, env) ==
  LET s == vm.stack
      o == op.o
      a0 == s[1]  a1 == s[2]  a2 == s[3]  a3 == s[4]
  IN
  CASE o = "NOOP" -> OkVm(vm)
    [] o = "ASSERT" -> IF a0 = F1 THEN OkVm(PopN(vm, 1)) ELSE FailVm("FailedAssertion")
    [] o = "FMPADD" -> OkVm(SetTop(vm, 1, <<FAdd(a0, vm.fmp)>>))
    [] o = "FMPUPDATE" -> LET f == FAdd(vm.fmp, a0) IN
                          IF NatLt(f, FmpMin) \/ NatLt(FmpMax, f) THEN FailVm("InvalidFmpValue")
                          ELSE OkVm([PopN(vm, 1) EXCEPT !.fmp = f])
    [] o = "SDEPTH" -> OkVm(ShR(vm, <<Small(Len(s))>>))
    [] o = "CALLER" -> IF vm.insys = 0 THEN FailVm("CallerNotInSyscall")
                       ELSE OkVm(SetTop(vm, 4, <<vm.fh[4], vm.fh[3], vm.fh[2], vm.fh[1]>>))
    [] o = "CLK" -> OkVm(ShR(vm, <<Small(vm.clk)>>))
    \* field
    [] o = "ADD" -> OkVm(PopSet(vm, 1, <<FAdd(a1, a0)>>))
    [] o = "NEG" -> OkVm(SetTop(vm, 1, <<FNeg(a0)>>))
    [] o = "MUL" -> OkVm(PopSet(vm, 1, <<FMul(a1, a0)>>))
    [] o = "INV" -> IF a0 = F0 THEN FailVm("DivideByZero") ELSE OkVm(SetTop(vm, 1, <<FInv(a0)>>))
    [] o = "INCR" -> OkVm(SetTop(vm, 1, <<FAdd(a0, F1)>>))
    [] o = "AND" -> IF ~IsBin(a0) \/ ~IsBin(a1) THEN FailVm("NotBinary") ELSE OkVm(PopSet(vm, 1, <<FMul(a0, a1)>>))
    [] o = "OR" -> IF ~IsBin(a0) \/ ~IsBin(a1) THEN FailVm("NotBinary")
                   ELSE OkVm(PopSet(vm, 1, <<FSub(FAdd(a0, a1), FMul(a0, a1))>>))
    [] o = "NOT" -> IF ~IsBin(a0) THEN FailVm("NotBinary") ELSE OkVm(SetTop(vm, 1, <<FSub(F1, a0)>>))
    [] o = "EQ" -> OkVm(PopSet(vm, 1, <<Bool(a0 = a1)>>))
    [] o = "EQZ" -> OkVm(SetTop(vm, 1, <<Bool(a0 = F0)>>))
    \* [bit, base, acc, b] -> [b & 1, base^2, acc * (base if bit else 1), b >> 1]
    [] o = "EXPACC" -> LET bit == a3[1] % 2
                           val == IF bit = 1 THEN a1 ELSE F1
                           half == <<(a3[1] \div 2) + (a3[2] % 2) * (LB \div 2), (a3[2] \div 2) + (a3[3] % 2) * (LB \div 2),
                                     (a3[3] \div 2) + (a3[4] % 2) * (LB \div 2), a3[4] \div 2>>
                       IN OkVm(SetTop(vm, 4, <<Small(bit), FSq(a1), FMul(a2, val), half>>))
    \* [b1, b0, a1, a0] -> [b1, b0, c1, c0]
    [] o = "EXT2MUL" -> LET c == E2Mul(<<a3, a2>>, <<a1, a0>>) IN OkVm(SetTop(vm, 4, <<a0, a1, c[2], c[1]>>))
    \* u32 (arithmetic operations on operands that are not u32 values: the result is whatever satisfies the
    \* limb constraints, docs/design/stack/u32_ops.md; it is taken from the recording and not judged here)
    [] o = "U32SPLIT" -> OkVm(SetTop(ShR(vm, <<F0>>), 2, <<Hi32(a0), Lo32(a0)>>))
    [] o = "U32ADD" -> IF ~IsU32(a0) \/ ~IsU32(a1) THEN OkVm(SetTop(vm, 2, SubSeq(env.next, 1, 2))) ELSE LET r == U32AddPair(a1, a0) IN OkVm(SetTop(vm, 2, <<r[2], r[1]>>))
    [] o = "U32ADD3" -> IF ~IsU32(a0) \/ ~IsU32(a1) \/ ~IsU32(a2) THEN OkVm(PopSet(vm, 1, SubSeq(env.next, 1, 2)))
                        ELSE LET r == U32Add3Pair(a2, a1, a0) IN OkVm(PopSet(vm, 1, <<r[2], r[1]>>))
    [] o = "U32SUB" -> IF ~IsU32(a0) \/ ~IsU32(a1) THEN OkVm(SetTop(vm, 2, SubSeq(env.next, 1, 2))) ELSE LET r == U32SubPair(a1, a0) IN OkVm(SetTop(vm, 2, <<r[2], r[1]>>))
    [] o = "U32MUL" -> IF ~IsU32(a0) \/ ~IsU32(a1) THEN OkVm(SetTop(vm, 2, SubSeq(env.next, 1, 2))) ELSE LET r == U32MulPair(a1, a0) IN OkVm(SetTop(vm, 2, <<r[2], r[1]>>))
    [] o = "U32MADD" -> IF ~IsU32(a0) \/ ~IsU32(a1) \/ ~IsU32(a2) THEN OkVm(PopSet(vm, 1, SubSeq(env.next, 1, 2)))
                        ELSE LET r == U32MaddPair(a1, a0, a2) IN OkVm(PopSet(vm, 1, <<r[2], r[1]>>))
    [] o = "U32DIV" -> IF a0 = F0 THEN FailVm("DivideByZero") ELSE IF ~IsU32(a0) \/ ~IsU32(a1) THEN OkVm(SetTop(vm, 2, SubSeq(env.next, 1, 2)))
                       ELSE LET r == U32DivMod(a1, a0) IN OkVm(SetTop(vm, 2, <<r[2], r[1]>>))
    [] o = "U32AND" -> IF ~IsU32(a0) \/ ~IsU32(a1) THEN FailVm("NotU32") ELSE OkVm(PopSet(vm, 1, <<U32And(a0, a1)>>))
    [] o = "U32XOR" -> IF ~IsU32(a0) \/ ~IsU32(a1) THEN FailVm("NotU32") ELSE OkVm(PopSet(vm, 1, <<U32Xor(a0, a1)>>))
    [] o = "U32ASSERT2" -> IF ~IsU32(a0) \/ ~IsU32(a1) THEN FailVm("NotU32") ELSE OkVm(vm)
    \* stack manipulation
    [] o = "PAD" -> OkVm(ShR(vm, <<F0>>))
    [] o = "DROP" -> OkVm(PopN(vm, 1))
    [] o \in {"DUP0", "DUP1", "DUP2", "DUP3", "DUP4", "DUP5", "DUP6", "DUP7", "DUP9", "DUP11", "DUP13", "DUP15"} ->
         LET n == CASE o = "DUP0" -> 0 [] o = "DUP1" -> 1 [] o = "DUP2" -> 2 [] o = "DUP3" -> 3 [] o = "DUP4" -> 4 [] o = "DUP5" -> 5
                     [] o = "DUP6" -> 6 [] o = "DUP7" -> 7 [] o = "DUP9" -> 9 [] o = "DUP11" -> 11 [] o = "DUP13" -> 13 [] o = "DUP15" -> 15
         IN OkVm(ShR(vm, <<s[n + 1]>>))
    [] o = "SWAP" -> OkVm(SetTop(vm, 2, <<a1, a0>>))
    [] o = "SWAPW" -> OkVm(SetTop(vm, 8, SubSeq(s, 5, 8) \o SubSeq(s, 1, 4)))
    [] o = "SWAPW2" -> OkVm(SetTop(vm, 12, SubSeq(s, 9, 12) \o SubSeq(s, 5, 8) \o SubSeq(s, 1, 4)))
    [] o = "SWAPW3" -> OkVm(SetTop(vm, 16, SubSeq(s, 13, 16) \o SubSeq(s, 5, 12) \o SubSeq(s, 1, 4)))
    [] o = "SWAPDW" -> OkVm(SetTop(vm, 16, SubSeq(s, 9, 16) \o SubSeq(s, 1, 8)))
    [] o \in {"MOVUP2", "MOVUP3", "MOVUP4", "MOVUP5", "MOVUP6", "MOVUP7", "MOVUP8"} ->
         LET n == CASE o = "MOVUP2" -> 2 [] o = "MOVUP3" -> 3 [] o = "MOVUP4" -> 4 [] o = "MOVUP5" -> 5 [] o = "MOVUP6" -> 6 [] o = "MOVUP7" -> 7 [] o = "MOVUP8" -> 8
         IN OkVm(SetTop(vm, n + 1, <<s[n + 1]>> \o SubSeq(s, 1, n)))
    [] o \in {"MOVDN2", "MOVDN3", "MOVDN4", "MOVDN5", "MOVDN6", "MOVDN7", "MOVDN8"} ->
         LET n == CASE o = "MOVDN2" -> 2 [] o = "MOVDN3" -> 3 [] o = "MOVDN4" -> 4 [] o = "MOVDN5" -> 5 [] o = "MOVDN6" -> 6 [] o = "MOVDN7" -> 7 [] o = "MOVDN8" -> 8
         IN OkVm(SetTop(vm, n + 1, SubSeq(s, 2, n + 1) \o <<a0>>))
    [] o = "CSWAP" -> IF ~IsBin(a0) THEN FailVm("NotBinary") ELSE OkVm(PopSet(vm, 1, IF a0 = F0 THEN <<a1, a2>> ELSE <<a2, a1>>))
    [] o = "CSWAPW" -> IF ~IsBin(a0) THEN FailVm("NotBinary")
                       ELSE OkVm(PopSet(vm, 1, IF a0 = F0 THEN SubSeq(s, 2, 9) ELSE SubSeq(s, 6, 9) \o SubSeq(s, 2, 5)))
    \* input / output
    [] o = "PUSH" -> OkVm(ShR(vm, <<op.imm[1]>>))
    [] o = "ADVPOP" -> OkVm(ShR(vm, <<env.next[1]>>))                       \* value comes from the host
    [] o = "ADVPOPW" -> OkVm(SetTop(vm, 4, SubSeq(env.next, 1, 4)))
    [] o = "MLOADW" -> IF ~IsU32(a0) THEN FailVm("MemoryAddressOutOfBounds")
                       ELSE LET w == MRead(vm, a0) IN OkVm(PopSet(vm, 1, <<w[4], w[3], w[2], w[1]>>))
    [] o = "MLOAD" -> IF ~IsU32(a0) THEN FailVm("MemoryAddressOutOfBounds") ELSE OkVm(SetTop(vm, 1, <<MRead(vm, a0)[1]>>))
    [] o = "MSTOREW" -> IF ~IsU32(a0) THEN FailVm("MemoryAddressOutOfBounds")
                        ELSE OkVm(PopN(MWrite(vm, a0, <<s[5], s[4], s[3], s[2]>>), 1))
    [] o = "MSTORE" -> IF ~IsU32(a0) THEN FailVm("MemoryAddressOutOfBounds")
                       ELSE LET w == MRead(vm, a0) IN OkVm(PopN(MWrite(vm, a0, <<a1, w[2], w[3], w[4]>>), 1))
    [] o = "MSTREAM" -> LET a == s[13] IN
                        IF ~IsU32(a) \/ ~IsU32(FAdd(a, F1)) THEN FailVm("MemoryAddressOutOfBounds")
                        ELSE LET d == MRead(vm, a)  e == MRead(vm, FAdd(a, F1))
                             IN OkVm(SetTop(vm, 13, <<e[4], e[3], e[2], e[1], d[4], d[3], d[2], d[1]>> \o SubSeq(s, 9, 12) \o <<FAdd(a, F2)>>))
    [] o = "PIPE" -> LET a == s[13] IN
                     IF ~IsU32(a) \/ ~IsU32(FAdd(a, F1)) THEN FailVm("MemoryAddressOutOfBounds")
                     ELSE LET n == env.next
                              d == <<n[8], n[7], n[6], n[5]>>  e == <<n[4], n[3], n[2], n[1]>>
                          IN OkVm(SetTop(MWrite(MWrite(vm, a, d), FAdd(a, F1), e), 13, SubSeq(n, 1, 8) \o SubSeq(s, 9, 12) \o <<FAdd(a, F2)>>))
    \* cryptographic operations: results come from the hash chiplet / host (checked against the primitive by the recorder)
    [] o = "HPERM" -> OkVm([SetTop(vm, 12, SubSeq(env.next, 1, 12)) EXCEPT !.hrows = @ + 8])
    \* RCOMBBASE (crypto_ops.md): [T7..T0 (T0 deepest of the eight), p1, p0, r1, r0, x_ptr, z_ptr, a_ptr, ...] ;
    \* p += alpha * (T0 - T(z)), r += alpha * (T0 - T(gz)) with (T(z), T(gz)) = the word at z_ptr, alpha = the first two
    \* elements of the word at a_ptr; the eight values rotate so that T0 comes on top; z_ptr and a_ptr advance by one
    [] o = "RCOMBBASE" ->
         LET zp == s[14]  ap == s[15] IN
         IF ~IsU32(zp) \/ ~IsU32(ap) THEN FailVm("MemoryAddressOutOfBounds")
         ELSE LET wz == MRead(vm, zp)  wa == MRead(vm, ap)
                  tx == <<s[8], F0>>
                  al == <<wa[1], wa[2]>>
                  pn == E2Add(<<s[10], s[9]>>, E2Mul(al, E2Sub(tx, <<wz[1], wz[2]>>)))
                  rn == E2Add(<<s[12], s[11]>>, E2Mul(al, E2Sub(tx, <<wz[3], wz[4]>>)))
              IN OkVm(SetTop(vm, 15, <<s[8]>> \o SubSeq(s, 1, 7) \o <<pn[2], pn[1], rn[2], rn[1], s[13], FAdd(zp, F1), FAdd(ap, F1)>>))
    \* FRIE2F4 (crypto_ops.md): folds four query values; the first ten positions of the next row are degree-reduction
    \* intermediates ("garbage") and the folded value depends on constants of the FRI domain, so positions 0 .. 14 are taken from
    \* the recording (the AIR is what judges them, C03); what the specification fixes is the domain segment check, the left
    \* shift from position 16, and the documented results poe^4, f_pos and the advanced layer pointer
    [] o = "FRIE2F4" ->
         IF s[10] \notin {F0, F1, F2, Small(3)} THEN FailVm("InvalidFriDomainSegment")
         ELSE LET n == env.next IN
              IF n[11] # FAdd(s[16], F2) \/ n[12] # FSq(FSq(s[11])) \/ n[13] # s[9] THEN FailVm("FriResultMismatch")
              ELSE OkVm(SetTop(PopN(vm, 1), 15, SubSeq(n, 1, 15)))
    [] o = "MPVERIFY" -> IF ~IsSmall(s[5]) THEN FailVm("InvalidTreeDepth") ELSE OkVm([vm EXCEPT !.hrows = @ + 8 * s[5][1]])
    [] o = "MRUPDATE" -> IF ~IsSmall(s[5]) THEN FailVm("InvalidTreeDepth")
                         ELSE OkVm([SetTop(vm, 4, SubSeq(env.next, 1, 4)) EXCEPT !.hrows = @ + 16 * s[5][1]])
    [] OTHER -> [ok |-> "unknown"]

\* ------------------------------------------------------------------------
\* span rows: the sequence of rows a span contributes (SPAN, operations, RESPAN, ..., without the final END)
RECURSIVE SuffixValue(_, _)
SuffixValue(ops, i) == OpsValue(SubSeq(ops, i, Len(ops)), 1)       \* value of the group after removing operations 1 .. i-1

NoopOp == [o |-> "NOOP", c |-> 0, imm |-> <<>>]
BatchFlags(n) == CASE n = 8 -> <<1, 0, 0>> [] n = 4 -> <<0, 1, 0>> [] n = 2 -> <<0, 0, 1>> [] n = 1 -> <<0, 1, 1>>

\* executed items of one batch: sequence of [op, ox, h0, newgroup (TRUE if the item is the first of a group other than the first)]
RECURSIVE BatchItems(_, _, _, _, _)
BatchItems(bt, gi, oi, nxt, padTo) ==
  IF gi > padTo THEN <<>>
  ELSE IF gi > NumGroups(bt) \/ bt.groups[gi].kind # "ops"
    \* padding group: one NOOP
    THEN <<[op |-> NoopOp, ox |-> 0, h0 |-> F0, first |-> TRUE]>> \o BatchItems(bt, gi + 1, 1, gi + 2, padTo)
  ELSE LET g == bt.groups[gi]  n == Len(g.ops) IN
    IF oi > n THEN BatchItems(bt, nxt, 1, nxt + 1, padTo)
    ELSE LET op == g.ops[oi]
             item == [op |-> op, ox |-> oi - 1, h0 |-> SuffixValue(g.ops, oi + 1), first |-> (oi = 1)]
             nxt2 == IF HasImm(op) THEN nxt + 1 ELSE nxt
             \* an operation with an immediate closing its group is followed by a NOOP
             pad == IF oi = n /\ HasImm(op) THEN <<[op |-> NoopOp, ox |-> oi, h0 |-> F0, first |-> FALSE]>> ELSE <<>>
         IN <<item>> \o pad \o BatchItems(bt, gi, oi + 1, nxt2, padTo)

\* rows of a span: [kind ("SPAN" | "RESPAN" | "op"), op, ox, gc, h0, groups, bf, bi (batch index from 0)]
SpanRows(ops) ==
  LET bs == Batches(ops)
      total == GroupCount(bs)
      RECURSIVE Rows(_, _)
      Rows(bi, gc) ==
        IF bi > Len(bs) THEN <<>>
        ELSE LET bt == bs[bi]
                 padTo == NextPow2(NumGroups(bt))
                 items == BatchItems(bt, 1, 1, 2, padTo)
                 head == [kind |-> IF bi = 1 THEN "SPAN" ELSE "RESPAN", op |-> NoopOp, ox |-> 0, gc |-> gc, h0 |-> F0,
                          groups |-> GroupValues(bt), bf |-> BatchFlags(padTo), bi |-> bi - 1]
                 RECURSIVE Items(_, _)
                 Items(k, g) ==       \* g = group count shown in the row of item k
                   IF k > Len(items) THEN <<>>
                   ELSE LET it == items[k]
                            g2 == g - (IF HasImm(it.op) THEN 1 ELSE 0)
                                    - (IF k < Len(items) /\ items[k + 1].first THEN 1 ELSE 0)
                        IN <<[kind |-> "op", op |-> it.op, ox |-> it.ox, gc |-> g, h0 |-> it.h0, groups |-> <<>>, bf |-> <<0, 0, 0>>, bi |-> bi - 1]>>
                           \o Items(k + 1, g2)
                 body == Items(1, gc - 1)
                 gcEnd == IF body = <<>> THEN gc - 1
                          ELSE LET l == body[Len(body)] IN l.gc - (IF HasImm(l.op) THEN 1 ELSE 0)
             IN <<head>> \o body \o Rows(bi + 1, gcEnd)
  IN Rows(1, total)

\* ------------------------------------------------------------------------
\* decoder
ParentAddr(vm) == IF vm.cs = <<>> THEN 0 ELSE Last(vm.cs).blk

Row(op, addr, h, sp, gc, ox, bf, hmask) == [op |-> op, addr |-> addr, h |-> h, sp |-> sp, gc |-> gc, ox |-> ox, bf |-> bf, hmask |-> hmask]
CtlRow(op, addr, h) == Row(op, addr, h, 0, 0, 0, <<0, 0, 0>>, 8)

Flags(lb, isloop, iscall, issys) == <<Small(lb), Small(isloop), Small(iscall), Small(issys)>>

LookupProc(procs, h) == IF \E i \in 1 .. Len(procs) : procs[i].h = h
                        THEN (CHOOSE i \in 1 .. Len(procs) : procs[i].h = h) ELSE 0

Tick(vm) == [vm EXCEPT !.clk = @ + 1]

\* start executing block `nd` (its parent is the top frame); lb = 1 iff nd is the body of a loop
Start(vm, nd, lb, prog) ==
  LET pa == ParentAddr(vm)
      blk == vm.hrows + 1
      c0 == vm.stack[1]
  IN
  CASE nd.k = "join" ->
         [ok |-> "ok", row |-> CtlRow("JOIN", pa, nd.c[1].h \o nd.c[2].h),
          vm |-> [vm EXCEPT !.hrows = @ + 8, !.cs = Append(@, [k |-> "join", nd |-> nd, blk |-> blk, ph |-> 0, lb |-> lb]),
                            !.todo = [do |-> "start", nd |-> nd.c[1], lb |-> 0]]]
    [] nd.k = "split" ->
         IF ~IsBin(c0) THEN FailVm("NotBinary")
         ELSE [ok |-> "ok", row |-> CtlRow("SPLIT", pa, nd.c[1].h \o nd.c[2].h),
               vm |-> [PopN(vm, 1) EXCEPT !.hrows = @ + 8, !.cs = Append(@, [k |-> "split", nd |-> nd, blk |-> blk, ph |-> 0, lb |-> lb]),
                                         !.todo = [do |-> "start", nd |-> IF c0 = F1 THEN nd.c[1] ELSE nd.c[2], lb |-> 0]]]
    [] nd.k = "loop" ->
         IF ~IsBin(c0) THEN FailVm("NotBinary")
         ELSE [ok |-> "ok", row |-> CtlRow("LOOP", pa, nd.c[1].h \o ZeroDigest),
               vm |-> [PopN(vm, 1) EXCEPT !.hrows = @ + 8,
                          !.cs = Append(@, [k |-> "loop", nd |-> nd, blk |-> blk, ph |-> 0, lb |-> lb, entered |-> (IF c0 = F1 THEN 1 ELSE 0)]),
                          !.todo = IF c0 = F1 THEN [do |-> "start", nd |-> nd.c[1], lb |-> 1] ELSE [do |-> "cont"]]]
    [] nd.k \in {"call", "syscall"} ->
         LET issys == nd.k = "syscall"
             pi == LookupProc(prog.procs, nd.f)
         IN IF issys /\ ~(\E i \in 1 .. Len(prog.kernel) : prog.kernel[i] = nd.f) THEN FailVm("SyscallTargetNotInKernel")
            \* execution_contexts.md: "creating a new context from within a syscall is not possible" (the assembler rules it out for
            \* kernel modules; a dynamically invoked block may still contain a call or a syscall)
            ELSE IF vm.insys = 1 THEN FailVm("CallInSyscall")
            ELSE IF ~nd.isdyn /\ pi = 0 THEN FailVm("CodeBlockNotFound")
            ELSE [ok |-> "ok", row |-> CtlRow(IF issys THEN "SYSCALL" ELSE "CALL", pa, nd.f \o ZeroDigest),
                  vm |-> [vm EXCEPT !.hrows = @ + 8,
                             !.cs = Append(@, [k |-> "call", nd |-> nd, blk |-> blk, ph |-> 0, lb |-> lb,
                                               sctx |-> vm.ctx, sfmp |-> vm.fmp, sfh |-> vm.fh, sinsys |-> vm.insys,
                                               srest |-> SubSeq(vm.stack, 17, Len(vm.stack)), sovf |-> vm.ovf]),
                             !.stack = Top16(vm.stack), !.ovf = <<>>,
                             !.ctx = IF issys THEN 0 ELSE vm.clk + 1,
                             !.fmp = IF issys THEN SyscallFmpMin ELSE FmpMin,
                             !.insys = IF issys THEN 1 ELSE vm.insys,
                             !.fh = IF issys THEN vm.fh ELSE nd.f,
                             !.todo = IF nd.isdyn THEN [do |-> "start", nd |-> [k |-> "dyn", h |-> prog.dynhash], lb |-> 0]
                                      ELSE [do |-> "start", nd |-> prog.procs[pi].node, lb |-> 0]]]
    [] nd.k = "dyn" ->
         LET target == <<vm.stack[4], vm.stack[3], vm.stack[2], vm.stack[1]>>
             pi == LookupProc(prog.procs, target)
         IN IF pi = 0 THEN FailVm("DynamicCodeBlockNotFound")
            ELSE [ok |-> "ok", row |-> [CtlRow("DYN", pa, Zero8) EXCEPT !.hmask = 0],
                  vm |-> [vm EXCEPT !.hrows = @ + 8, !.cs = Append(@, [k |-> "dyn", nd |-> nd, blk |-> blk, ph |-> 0, lb |-> lb]),
                                    !.todo = [do |-> "start", nd |-> prog.procs[pi].node, lb |-> 0]]]
    [] nd.k = "span" ->
         LET rows == SpanRows(nd.ops)
             r == rows[1]
         IN [ok |-> "ok", row |-> Row("SPAN", pa, r.groups, 0, r.gc, 0, r.bf, 8),
             vm |-> [vm EXCEPT !.hrows = @ + 8,
                               !.cs = Append(@, [k |-> "span", nd |-> nd, blk |-> blk, ph |-> 0, lb |-> lb, rows |-> rows, pos |-> 2, pa |-> pa]),
                               !.todo = [do |-> "cont"]]]

\* the END row of the top frame; afterwards the parent frame continues
EndRow(vm, fr, isloop, iscall, issys) == CtlRow("END", fr.blk, fr.nd.h \o Flags(fr.lb, isloop, iscall, issys))
PopFrame(vm) == [vm EXCEPT !.cs = Front(@), !.todo = IF Len(vm.cs) = 1 THEN [do |-> "halt"] ELSE [do |-> "cont"]]

\* continue the top frame
Cont(vm, env, prog) ==
  LET fr == Last(vm.cs)
      n == Len(vm.cs)
  IN
  CASE fr.k = "join" ->
         IF fr.ph = 0 THEN [ok |-> "skip", vm |-> [vm EXCEPT !.cs[n].ph = 1, !.todo = [do |-> "start", nd |-> fr.nd.c[2], lb |-> 0]]]
         ELSE [ok |-> "ok", row |-> EndRow(vm, fr, 0, 0, 0), vm |-> PopFrame(vm)]
    [] fr.k = "split" -> [ok |-> "ok", row |-> EndRow(vm, fr, 0, 0, 0), vm |-> PopFrame(vm)]
    [] fr.k = "dyn" -> [ok |-> "ok", row |-> EndRow(vm, fr, 0, 0, 0), vm |-> PopFrame(vm)]
    [] fr.k = "loop" ->
         IF fr.entered = 0 THEN [ok |-> "ok", row |-> EndRow(vm, fr, 0, 0, 0), vm |-> PopFrame(vm)]
         ELSE LET c == vm.stack[1] IN
              \* REPEAT: the hasher registers are copied from the previous row, the END of the loop body (its hash and
              \* flags: is-loop-body = 1, and is-loop / is-call / is-syscall of the body block itself)
              IF c = F1 THEN [ok |-> "ok", row |-> CtlRow("REPEAT", fr.blk, vm.lasth),
                              vm |-> [PopN(vm, 1) EXCEPT !.todo = [do |-> "start", nd |-> fr.nd.c[1], lb |-> 1]]]
              ELSE IF c = F0 THEN [ok |-> "ok", row |-> EndRow(vm, fr, 1, 0, 0), vm |-> PopFrame(PopN(vm, 1))]
              ELSE FailVm("NotBinary")
    [] fr.k = "call" ->
         IF Len(vm.stack) # 16 THEN FailVm("InvalidStackDepthOnReturn")
         ELSE [ok |-> "ok", row |-> EndRow(vm, fr, 0, IF fr.nd.k = "call" THEN 1 ELSE 0, IF fr.nd.k = "syscall" THEN 1 ELSE 0),
               vm |-> [PopFrame(vm) EXCEPT !.ctx = fr.sctx, !.fmp = fr.sfmp, !.fh = fr.sfh, !.insys = fr.sinsys,
                                           !.stack = vm.stack \o fr.srest, !.ovf = fr.sovf]]
    [] fr.k = "span" ->
         IF fr.pos > Len(fr.rows)
           THEN [ok |-> "ok", row |-> CtlRow("END", fr.blk, fr.nd.h \o Flags(fr.lb, 0, 0, 0)), vm |-> PopFrame(vm)]
         ELSE LET r == fr.rows[fr.pos] IN
           IF r.kind = "RESPAN"
             THEN [ok |-> "ok", row |-> Row("RESPAN", fr.blk, r.groups, 0, r.gc, 0, r.bf, 8),
                   vm |-> [vm EXCEPT !.hrows = @ + 8, !.cs[n].blk = fr.blk + 8, !.cs[n].pos = fr.pos + 1]]
           ELSE LET res == ApplyOp(vm, r.op, env) IN
                IF res.ok # "ok" THEN res
                ELSE [ok |-> "ok", row |-> Row(r.op.o, fr.blk, <<r.h0, Small(fr.pa)>>, 1, r.gc, r.ox, <<0, 0, 0>>, 2),
                      vm |-> [res.vm EXCEPT !.cs[n].pos = fr.pos + 1]]

\* one trace row: [ok, row, vm] ; "skip" steps (bookkeeping without a row) are folded in
RECURSIVE Exec(_, _, _)
Exec(vm, env, prog) ==
  IF vm.todo.do = "halt" THEN [ok |-> "ok", row |-> CtlRow("HALT", 0, prog.hash \o ZeroDigest), vm |-> vm]
  ELSE LET r == IF vm.todo.do = "start" THEN Start(vm, vm.todo.nd, vm.todo.lb, prog) ELSE Cont(vm, env, prog)
       IN IF r.ok = "skip" THEN Exec(r.vm, env, prog) ELSE r

\* a row costs one clock cycle
Step(vm, env, prog) == LET r == Exec(vm, env, prog) IN
                       IF r.ok = "ok" THEN [r EXCEPT !.vm = Tick(IF r.row.op = "END" THEN [r.vm EXCEPT !.lasth = r.row.h] ELSE r.vm)] ELSE r

InitVm(prog, inputs, initOvf) ==
  [clk |-> 0, ctx |-> 0, fmp |-> FmpMin, insys |-> 0, fh |-> ZeroDigest,
   stack |-> Norm(inputs), ovf |-> initOvf, mem |-> <<>>, hrows |-> 0, cs |-> <<>>, lasth |-> Zero8,
   todo |-> [do |-> "start", nd |-> prog.mast, lb |-> 0]]
=============================================================================
