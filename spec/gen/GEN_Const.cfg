CONSTANTS DEPTH = 3 LEAVES = {2, 7} OPS = {"+", "-", "*", "//"} SHARD = 0 NSHARDS = 1
INIT Init
NEXT Next
CHECK_DEADLOCK FALSE
