------------------------------ MODULE GEN_Mast ------------------------------
EXTENDS Naturals, Sequences, TLC, Json, Mast
ASSUME PrintT(ToJson([tag |-> "recipe", kinds |-> [k \in Kinds |-> Recipe(k)]]))
VARIABLE x
Init == x = 0
Next == x' = x
=============================================================================
