CONSTANTS DEPTH = 2 MODE = "exh"
INIT Init
NEXT Next
INVARIANT Laws
CHECK_DEADLOCK FALSE
