CONSTANTS NInstr = 296 Window = 8
INIT Init
NEXT Next
INVARIANT Emit
CHECK_DEADLOCK FALSE
