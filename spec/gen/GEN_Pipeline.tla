---------------------------- MODULE GEN_Pipeline ----------------------------
(* every behaviour of Pipeline.tla ends in a verdict; it is printed as a scenario for the real prover / verifier *)
EXTENDS Pipeline, TLC, Json
Emit == phase = "verified" =>
          PrintT(ToJson([tag |-> "pipeline", opts |-> opts, hash |-> htag, via_bytes |-> viaBytes, tamper |-> tamper, expect |-> verdict,
                         min_level |-> IF verdict = "accept" THEN Configured(opts) ELSE 0]))
=============================================================================
