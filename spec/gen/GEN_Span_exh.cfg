CONSTANTS N = 10  MODE = "exh"
INIT Init
NEXT Next
INVARIANT Emit
CHECK_DEADLOCK FALSE
