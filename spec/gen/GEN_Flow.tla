------------------------------ MODULE GEN_Flow ------------------------------
(***************************************************************************)
(* Behaviour generator for C06: structured programs whose decisions are    *)
(* read from the advice tape (adv_push.1 before every decision point) and  *)
(* whose leaves push distinct marks, so that the final stack is the        *)
(* executed path.  MODE "exh": every program shape of nesting depth <= D   *)
(* x every decision tape over {0, 1, 2} of length L.  MODE "rnd": random   *)
(* deeper shapes.  The predicted outcome of MasmFlow!Run is printed.       *)
(***************************************************************************)
EXTENDS Naturals, Sequences, FiniteSets, TLC, Json, Randomization
CONSTANTS MODE, D, L, SHARD, NSHARDS
HB == 256
INSTANCE MasmFlow

VARIABLES phase, sc

I0(op) == [op |-> op, p |-> 0, imm |-> <<>>, err |-> 0, form |-> "dec"]
Ins(i) == [k |-> "ins", ins |-> i]
Mark(m) == Ins([I0("push") EXCEPT !.imm = <<Small(m)>>])
Decide == Ins([I0("adv_push") EXCEPT !.p = 1])

\* program shapes: a node tree; every body is  <mark> <node>;  marks derive from the path prefix
\* procedure table is built alongside: shape "exec" puts its body into procedure slot (prefix)
RECURSIVE Shapes(_)
Shapes(d) == IF d = 0 THEN {<<"m">>}
             ELSE LET S == Shapes(d - 1) IN
                  {<<"m">>} \cup {<<"if", a>> : a \in S} \cup {<<"ife", a, b>> : a \in S, b \in S}
                  \cup {<<"wh", a>> : a \in S} \cup {<<"rep", n, a>> : n \in {1, 2, 3}, a \in S}
                  \cup {<<"ex", a>> : a \in S} \cup {<<"exl", a>> : a \in S} \cup {<<"exr", a>> : a \in S} \cup {<<"exe", a>> : a \in S}
                  \cup {<<"ifs", a>> : a \in S} \cup {<<"ifx", a>> : a \in S}

\* Build(shape, prefix) = [body, procs] ; procs = set of <<slot, locals, body>>
RECURSIVE Build(_, _)
Build(sh, pf) ==
  LET m == Mark(pf) IN
  CASE sh[1] = "m" -> [body |-> <<m>>, procs |-> {}]
    [] sh[1] = "if" -> LET a == Build(sh[2], 4 * pf + 1) IN
         [body |-> <<m, Decide, [k |-> "if", t |-> a.body, e |-> <<>>]>>, procs |-> a.procs]
    [] sh[1] = "ife" -> LET a == Build(sh[2], 4 * pf + 1)  b == Build(sh[3], 4 * pf + 2) IN
         [body |-> <<m, Decide, [k |-> "if", t |-> a.body, e |-> b.body]>>, procs |-> a.procs \cup b.procs]
    \* both branches textually identical
    [] sh[1] = "ifs" -> LET a == Build(sh[2], 4 * pf + 1) IN
         [body |-> <<m, Decide, [k |-> "if", t |-> a.body, e |-> a.body]>>, procs |-> a.procs]
    \* both branches invoke different procedures with equal bodies
    [] sh[1] = "ifx" -> LET a == Build(sh[2], 4 * pf + 1) IN
         [body |-> <<m, Decide, [k |-> "if", t |-> <<[k |-> "exec", p |-> 4 * pf + 2]>>, e |-> <<[k |-> "exec", p |-> 4 * pf + 3]>>]>>,
          procs |-> a.procs \cup {<<4 * pf + 2, 0, a.body>>, <<4 * pf + 3, 0, a.body>>}]
    [] sh[1] = "wh" -> LET a == Build(sh[2], 4 * pf + 1) IN
         [body |-> <<m, Decide, [k |-> "while", b |-> a.body \o <<Decide>>]>>, procs |-> a.procs]
    [] sh[1] = "rep" -> LET a == Build(sh[3], 4 * pf + 1) IN
         [body |-> <<m, [k |-> "repeat", n |-> sh[2], b |-> a.body]>>, procs |-> a.procs]
    [] sh[1] = "ex" -> LET a == Build(sh[2], 4 * pf + 1) IN
         [body |-> <<m, [k |-> "exec", p |-> pf]>>, procs |-> a.procs \cup {<<pf, 0, a.body>>}]
    \* procedure with locals: stores its mark in local 1, runs its body, reloads the local at the end
    [] sh[1] = "exl" -> LET a == Build(sh[2], 4 * pf + 1) IN
         [body |-> <<m, [k |-> "exec", p |-> pf]>>,
          procs |-> a.procs \cup {<<pf, 2, <<Mark(1000 + pf), Ins([I0("loc_store") EXCEPT !.p = 1])>> \o a.body
                                            \o <<Ins([I0("loc_load") EXCEPT !.p = 1])>>>>}]
    \* procedure with locals that touches them only inside nested blocks (never at the top level of its body)
    [] sh[1] = "exr" -> LET a == Build(sh[2], 4 * pf + 1) IN
         [body |-> <<m, [k |-> "exec", p |-> pf]>>,
          procs |-> a.procs \cup {<<pf, 2, <<[k |-> "repeat", n |-> 1, b |-> <<Mark(1000 + pf), Ins([I0("loc_store") EXCEPT !.p = 1])>>]>> \o a.body
                                            \o <<[k |-> "repeat", n |-> 1, b |-> <<Mark(1), [k |-> "if", t |-> <<Ins([I0("loc_load") EXCEPT !.p = 1])>>, e |-> <<>>]>>]>>>>}]
    \* procedure with locals whose body ENDS with an if / else (both branches written): whichever branch runs, the frame
    \* must be released before the caller continues
    [] sh[1] = "exe" -> LET a == Build(sh[2], 4 * pf + 1) IN
         [body |-> <<m, [k |-> "exec", p |-> pf]>>,
          procs |-> a.procs \cup {<<pf, 3, <<Mark(1000 + pf), Ins([I0("loc_store") EXCEPT !.p = 2]), Decide,
                                            [k |-> "if", t |-> a.body, e |-> <<Mark(2000 + pf), Ins([I0("loc_load") EXCEPT !.p = 2])>>]>>>>}]

\* procedure table as a function slot -> [locals, body]
ProcFun(ps) == [s \in {p[1] : p \in ps} |-> LET p == CHOOSE p \in ps : p[1] = s IN [locals |-> p[2], body |-> p[3]]]

\* pseudo-random shape of depth <= d determined by the number s (random mode): no enumeration of Shapes(d)
Nx(s, k) == (s * 75 + 74 + 7 * k) % 65537
RECURSIVE RShape(_, _)
RShape(d, s) ==
  IF d = 0 THEN <<"m">>
  ELSE LET c == s % 12  a == RShape(d - 1, Nx(s, 1))  b == RShape(d - 1, Nx(s, 2)) IN
       CASE c = 0 -> <<"m">> [] c = 1 -> <<"if", a>> [] c = 2 -> <<"ife", a, b>> [] c = 3 -> <<"wh", a>>
         [] c = 4 -> <<"rep", 1 + (Nx(s, 3) % 3), a>> [] c = 5 -> <<"ex", a>> [] c = 6 -> <<"exl", a>>
         [] c = 7 -> <<"ifs", a>> [] c = 8 -> <<"ifx", a>> [] c = 9 -> <<"ife", b, a>> [] c = 10 -> <<"exr", a>> [] c = 11 -> <<"exe", a>>

Tapes == [1 .. L -> {F0, F1, F2}]
TapeSeq(t) == [i \in 1 .. L |-> t[i]]

SetToSeq(S0) == LET RECURSIVE ToSeq(_)
                    ToSeq(S) == IF S = {} THEN <<>> ELSE LET x == CHOOSE x \in S : TRUE IN <<x>> \o ToSeq(S \ {x})
                IN ToSeq(S0)
ShapeSeq == SetToSeq(Shapes(D))

Outcome(r) == IF r.ok = "ok" THEN [ok |-> "ok", stack |-> r.st.stack, adv_left |-> Len(r.st.adv)]
              ELSE IF r.ok = "fail" THEN [ok |-> "fail", kind |-> r.kind, code |-> r.code]
              ELSE [ok |-> r.ok]

Init ==
  /\ phase = "init"
  /\ IF MODE = "exh"
       THEN \E k \in {k \in 1 .. Len(ShapeSeq) : k % NSHARDS = SHARD} : \E t \in Tapes :
              sc = [shape |-> ShapeSeq[k], tape |-> TapeSeq(t)]
       ELSE \E s \in RandomSubset(1, 1 .. 65536) : \E t \in RandomSubset(1, Tapes) :
              sc = [shape |-> RShape(D, s), tape |-> TapeSeq(t)]
Next ==
  /\ phase = "init"
  /\ phase' = "done"
  /\ sc' = sc
  /\ LET b == Build(sc.shape, 1)
         procs == ProcFun(b.procs)
         st0 == [stack |-> Norm(<<>>), mem |-> <<>>, adv |-> sc.tape, loc |-> <<>>]
         r == Run(procs, b.body, st0, 12)
     IN PrintT(ToJson([tag |-> "flow", main |-> b.body,
                       procs |-> SetToSeq({[slot |-> p[1], locals |-> p[2], body |-> p[3]] : p \in b.procs}),
                       tape |-> sc.tape, expect |-> Outcome(r)]))
=============================================================================
