CONSTANTS N = 300  MODE = "rnd"
INIT Init
NEXT Next
INVARIANT Emit
CHECK_DEADLOCK FALSE
