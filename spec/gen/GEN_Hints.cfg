CONSTANTS KIND = "u64div" LEVEL = 1 SHARD = 0 NSHARDS = 8
INIT Init
NEXT Next
CHECK_DEADLOCK FALSE
