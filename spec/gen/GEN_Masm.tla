------------------------------ MODULE GEN_Masm ------------------------------
(***************************************************************************)
(* Behaviour generator for C05 (and the instruction catalogue used by      *)
(* C10): every behaviour is  Init (instruction variant, operand tuple,     *)
(* stack depth)  -> Step (the instruction applied by Masm!Apply); the      *)
(* predicted outcome is printed as one JSON line and replayed on the real  *)
(* assembler + VM.  MODE "unit" is exhaustive over the catalogue; MODE     *)
(* "seq" (TLC -simulate) draws random instruction sequences.               *)
(***************************************************************************)
EXTENDS Naturals, Sequences, FiniteSets, TLC, Json, Randomization
CONSTANTS MODE,       \* "unit" | "seq"
          LEVEL,      \* 1 = quick operand sets, 2 = thorough
          SHARD, NSHARDS,   \* unit mode: this run handles catalogue entries with index % NSHARDS = SHARD
          SEQLEN
HB == 256
INSTANCE Masm

VARIABLES phase, sc      \* sc : the scenario record under construction

\* ---- boundary values ------------------------------------------------------------------------
V0 == F0
V1 == F1
V2 == F2
V16 == <<0, 1, 0, 0>>                  \* 2^16
V31 == <<0, LB \div 2, 0, 0>>          \* 2^31
VU == <<LB - 1, LB - 1, 0, 0>>         \* 2^32 - 1
VP == <<0, 0, 1, 0>>                   \* 2^32
VP1 == <<1, 0, 1, 0>>                  \* 2^32 + 1
VM1 == FNeg1                           \* p - 1
VX == <<4660, 22136, 36882, 43981>>    \* an arbitrary 64-bit value
VY == <<51966, 47806, 0, 0>>           \* an arbitrary u32 value

Dom(d) ==
  CASE d = "F" -> IF LEVEL = 1 THEN {V0, V1, VU, VP, VM1, VX} ELSE {V0, V1, V2, V16, V31, VU, VP, VP1, VM1, VX}
    [] d = "Fs" -> {V0, V1, VP, VM1}                                   \* small felt set (high arity)
    [] d = "U" -> IF LEVEL = 1 THEN {V0, V1, V31, VU, VY} ELSE {V0, V1, V2, V16, V31, VU, VY}   \* valid u32 operands
    [] d = "Us" -> {V0, V1, VU}
    [] d = "UC" -> IF LEVEL = 1 THEN {V0, V1, VU, VP, VM1} ELSE {V0, V1, V16, V31, VU, VY, VP, VP1, VM1}  \* checked u32: may fail
    [] d = "B" -> {V0, V1, V2, VM1}                                    \* binary (2, p-1 fail)
    [] d = "S" -> {Small(0), Small(1), Small(15), Small(16), Small(31)} \* valid shift amounts
    [] d = "P2" -> {Small(0), Small(1), Small(31), Small(32), Small(63), Small(64), VP, VM1}   \* pow2 argument
    [] d = "EX" -> {V0, V1, V2, Small(3), Small(63), VU, VP, VM1}     \* exponents
    [] d = "NZ" -> IF LEVEL = 1 THEN {V1, VU, VP, VM1} ELSE {V1, V2, V16, VU, VP, VP1, VM1, VX}   \* non-zero
    [] d = "Z" -> {V0}
    [] d = "T" -> {V1, VM1}                                          \* two values (word comparisons)

RECURSIVE Tuples(_)
Tuples(doms) == IF doms = <<>> THEN {<<>>}
                ELSE {<<h>> \o t : h \in Dom(Head(doms)), t \in Tuples(Tail(doms))}

\* ---- instruction catalogue -------------------------------------------------------------------
I0(op) == [op |-> op, p |-> 0, imm |-> <<>>, err |-> 0, form |-> "dec"]
IP(op, n) == [I0(op) EXCEPT !.p = n]
II(op, v, f) == [I0(op) EXCEPT !.imm = <<v>>, !.form = f]
IE(op, e) == [I0(op) EXCEPT !.err = e]
E(ins, doms) == [ins |-> ins, doms |-> doms]
Forms == {"dec"}       \* only push accepts hexadecimal immediates (io_operations.md)
ErrCodes == {0, 7, 65535}

ImmF == IF LEVEL = 1 THEN {V0, V1, V2, VU, VP, VM1} ELSE {V0, V1, V2, V16, V31, VU, VP, VP1, VM1, VX}
ImmU == IF LEVEL = 1 THEN {V0, V1, V2, V31, VU} ELSE {V0, V1, V2, V16, V31, VU, VY}
ImmUNZ == ImmU \ {V0}
ImmS == {Small(0), Small(1), Small(16), Small(31)}

Catalogue ==
  \* field / comparison
  {E(I0(op), <<"F", "F">>) : op \in {"add", "sub", "mul", "eq", "neq", "lt", "lte", "gt", "gte"}}
  \cup {E(I0("div"), <<"F", "F">>), E(I0("neg"), <<"F">>), E(I0("inv"), <<"F">>), E(I0("is_odd"), <<"F">>),
        E(I0("pow2"), <<"P2">>), E(I0("exp"), <<"EX", "F">>), E(I0("ilog2"), <<"F">>),
        E(I0("not"), <<"B">>), E(I0("and"), <<"B", "B">>), E(I0("or"), <<"B", "B">>), E(I0("xor"), <<"B", "B">>),
        E(I0("eqw"), <<"T", "T", "T", "T", "T", "T", "T", "T">>)}
  \cup {E(II(op, v, f), <<"F">>) : op \in {"add", "sub", "mul", "eq", "neq"}, v \in ImmF, f \in Forms}
  \cup {E(II("div", v, f), <<"F">>) : v \in ImmF \ {V0}, f \in Forms}
  \cup {E(II("exp", v, "dec"), <<"F">>) : v \in {V0, V1, V2, Small(3), Small(63), VU, VP, VM1}}
  \cup {E(IP("exp.u", n), <<"EX", "F">>) : n \in {64}}
  \* assertions with error codes
  \cup {E(IE("assert", e), <<"B">>) : e \in ErrCodes}
  \cup {E([IE("assert", 77) EXCEPT !.form = "errconst"], <<"B">>), E([IE("assert_eq", 78) EXCEPT !.form = "errconst"], <<"Fs", "Fs">>)}
  \cup {E(IE("assertz", e), <<"B">>) : e \in ErrCodes}
  \cup {E(IE("assert_eq", e), <<"Fs", "Fs">>) : e \in ErrCodes}
  \cup {E(IE("assert_eqw", e), <<"T", "T", "T", "T", "T", "T", "T", "T">>) : e \in {0, 9}}
  \* extension field
  \cup {E(I0(op), <<"Fs", "Fs", "Fs", "Fs">>) : op \in {"ext2add", "ext2sub", "ext2mul", "ext2div"}}
  \cup {E(I0(op), <<"F", "F">>) : op \in {"ext2neg", "ext2inv"}}
  \cup {E(I0("ext2mul"), <<"F", "NZ", "NZ", "F">>)}
  \* u32 conversions / tests
  \cup {E(I0(op), <<"F">>) : op \in {"u32test", "u32cast", "u32split"}}
  \cup {E(I0("u32testw"), <<"UC", "Us", "UC", "Us">>)}
  \cup {E(IE("u32assert", e), <<"UC">>) : e \in ErrCodes}
  \cup {E(IE("u32assert2", e), <<"UC", "UC">>) : e \in ErrCodes}
  \cup {E(IE("u32assertw", e), <<"UC", "Us", "Us", "UC">>) : e \in {0, 11}}
  \* u32 arithmetic (operands valid u32: anything else is undefined)
  \cup {E(I0(op), <<"U", "U">>) : op \in {"u32overflowing_add", "u32wrapping_add", "u32overflowing_sub", "u32wrapping_sub",
                                           "u32overflowing_mul", "u32wrapping_mul", "u32div", "u32mod", "u32divmod",
                                           "u32lt", "u32lte", "u32gt", "u32gte", "u32min", "u32max"}}
  \cup {E(I0(op), <<"U", "U", "U">>) : op \in {"u32overflowing_add3", "u32wrapping_add3", "u32overflowing_madd", "u32wrapping_madd"}}
  \cup {E(II(op, v, f), <<"U">>) : op \in {"u32overflowing_add", "u32wrapping_add", "u32overflowing_sub", "u32wrapping_sub",
                                            "u32overflowing_mul", "u32wrapping_mul"}, v \in ImmU, f \in Forms}
  \cup {E(II(op, v, "dec"), <<"U">>) : op \in {"u32div", "u32mod", "u32divmod"}, v \in ImmUNZ}
  \* u32 bitwise (checked)
  \cup {E(I0(op), <<"UC", "UC">>) : op \in {"u32and", "u32or", "u32xor"}}
  \cup {E(I0("u32not"), <<"UC">>)}
  \cup {E(I0(op), <<"S", "U">>) : op \in {"u32shl", "u32shr", "u32rotl", "u32rotr"}}
  \cup {E(II(op, v, "dec"), <<"U">>) : op \in {"u32shl", "u32shr", "u32rotl", "u32rotr"}, v \in ImmS}
  \cup {E(I0(op), <<"U">>) : op \in {"u32popcnt", "u32clz", "u32ctz", "u32clo", "u32cto"}}
  \* stack manipulation (operands: distinguishable fillers, see Fill)
  \cup {E(I0(op), <<>>) : op \in {"drop", "dropw", "padw", "swapdw", "sdepth"}}
  \cup {E(IP("dup", n), <<>>) : n \in 0 .. 15}
  \cup {E(IP("dupw", n), <<>>) : n \in 0 .. 3}
  \cup {E(IP("swap", n), <<>>) : n \in 1 .. 15}
  \cup {E(IP("swapw", n), <<>>) : n \in 1 .. 3}
  \cup {E(IP("movup", n), <<>>) : n \in 2 .. 15}
  \cup {E(IP("movdn", n), <<>>) : n \in 2 .. 15}
  \cup {E(IP("movupw", n), <<>>) : n \in 2 .. 3}
  \cup {E(IP("movdnw", n), <<>>) : n \in 2 .. 3}
  \cup {E(I0(op), <<"B">>) : op \in {"cswap", "cswapw", "cdrop", "cdropw"}}
  \* constants
  \cup {E(II("push", v, f), <<>>) : v \in ImmF \cup {V0}, f \in {"dec", "hex", "const", "expr"}}
  \cup {E([I0("push") EXCEPT !.imm = [i \in 1 .. n |-> IF i % 3 = 0 THEN VM1 ELSE Small(i)], !.form = f], <<>>) :
           n \in {2, 3, 4, 5, 15, 16}, f \in {"dec", "hex"}}
  \cup {E([I0("push") EXCEPT !.imm = <<V1, VX, VM1, VP>>, !.form = "word"], <<>>)}

\* ---- scenario construction -------------------------------------------------------------------
Filler(i) == <<1000 + i, 7, 0, 0>>            \* distinct, non-zero, u32
Depths == IF LEVEL = 1 THEN {0, 17} ELSE {0, 16, 17, 20, 40}

DepthsFor(e) == IF e.doms = <<>> THEN (IF LEVEL = 1 THEN {16, 18} ELSE {0, 16, 18, 40}) ELSE Depths

\* initial stack: operand tuple on top, then fillers up to depth d (at least the tuple)
InitStack(t, d) == t \o [i \in 1 .. (IF d > Len(t) THEN d - Len(t) ELSE 0) |-> Filler(i)]

CatSeq == LET RECURSIVE ToSeq(_)
              ToSeq(S) == IF S = {} THEN <<>> ELSE LET x == CHOOSE x \in S : TRUE IN <<x>> \o ToSeq(S \ {x})
          IN ToSeq(Catalogue)

Outcome(r) == IF r.ok = "ok" THEN [ok |-> "ok", stack |-> r.st.stack]
              ELSE IF r.ok = "fail" THEN [ok |-> "fail", kind |-> r.kind, code |-> r.code]
              ELSE [ok |-> r.ok]

\* --- unit mode
UnitInit ==
  /\ phase = "init"
  /\ \E k \in {k \in 1 .. Len(CatSeq) : k % NSHARDS = SHARD} :
       \E t \in Tuples(CatSeq[k].doms) : \E d \in DepthsFor(CatSeq[k]) :
         sc = [ins |-> CatSeq[k].ins, init |-> InitStack(t, d)]
UnitStep ==
  /\ phase = "init"
  /\ phase' = "done"
  /\ LET st0 == [stack |-> Norm(sc.init), mem |-> <<>>, adv |-> <<>>]
         ins == IF sc.ins.op = "exp.u" THEN [sc.ins EXCEPT !.op = "exp"] ELSE sc.ins
         r == Apply(st0, ins)
     IN /\ PrintT(ToJson([tag |-> "masm", prog |-> <<sc.ins>>, init |-> sc.init, adv |-> <<>>, expect |-> Outcome(r)]))
        /\ sc' = sc

\* --- seq mode: random instruction sequences (each step one instruction, operands prepared by pushes)
SeqOps0 == {"add", "sub", "mul", "neg", "eq", "neq", "lt", "lte", "gt", "gte", "is_odd", "u32test", "u32cast", "u32split",
            "drop", "dropw", "padw", "swapdw", "sdepth", "eqw", "ext2add", "ext2sub", "ext2mul", "ext2neg", "u32testw"}
SeqOpsU2 == {"u32overflowing_add", "u32wrapping_add", "u32overflowing_sub", "u32wrapping_sub", "u32overflowing_mul",
             "u32wrapping_mul", "u32lt", "u32lte", "u32gt", "u32gte", "u32min", "u32max", "u32and", "u32or", "u32xor"}
SeqOpsP == {"dup", "swap", "movup", "movdn"}
SeqOpsX == {"inv", "div", "not", "and", "cswap", "cdrop", "u32div", "u32divmod", "assert", "u32assert2"}

\* Random choices are bound by  \E x \in RandomSubset(1, S)  so that every use of x sees the same value.
RS(S) == RandomSubset(1, S)
SetToSeq(S) == LET RECURSIVE ToSeq(_)
                   ToSeq(T) == IF T = {} THEN <<>> ELSE LET x == CHOOSE x \in T : TRUE IN <<x>> \o ToSeq(T \ {x})
               IN ToSeq(S)
Pick(S, j) == LET q == SetToSeq(S) IN q[1 + (j % Len(q))]
BoundaryF == SetToSeq(Dom("F"))
\* a value from three classes, determined by the drawn numbers (c : class, l1..l4 limbs)
ValOf(c, l1, l2, l3, l4) == IF c = 1 THEN Canon(<<l1, l2, l3, l4>>) ELSE IF c = 2 THEN <<l1, l2, 0, 0>>
                            ELSE BoundaryF[1 + (l1 % Len(BoundaryF))]
InsOf(k, j, c, l1, l2, l3, l4) ==
  IF k <= 3 THEN [I0("push") EXCEPT !.imm = <<ValOf(c, l1, l2, l3, l4)>>, !.form = IF j % 2 = 0 THEN "dec" ELSE "hex"]
  ELSE IF k <= 6 THEN I0(Pick(SeqOps0, j))
  ELSE IF k <= 8 THEN LET op == Pick(SeqOpsP, j)
                          lo == IF op = "dup" THEN 0 ELSE IF op = "swap" THEN 1 ELSE 2
                      IN IP(op, lo + (l1 % (16 - lo)))
  ELSE IF k = 9 THEN I0(Pick(SeqOpsU2, j))
  ELSE I0(Pick(SeqOpsX, j))

SeqInit ==
  /\ phase = "run"
  /\ \E d \in RS(0 .. 24), tg \in RS(1 .. SEQLEN), a \in RS(1 .. 65521), b \in RS(1 .. 65521) :
       LET s0 == [i \in 1 .. d |-> ValOf(1 + ((a + i * b) % 3), (a * i + b) % LB, (a + 7 * i * b) % LB, (b * i * i + a) % LB, (a * b + i) % (LB - 1))]
       IN sc = [prog |-> <<>>, init |-> s0, st |-> [stack |-> Norm(s0), mem |-> <<>>, adv |-> <<>>],
                target |-> tg, result |-> [ok |-> "ok"]]
SeqStep ==
  /\ phase = "run"
  /\ \E k \in RS(1 .. 10), j \in RS(0 .. 1023), c \in RS(1 .. 3), l1 \in RS(Limb), l2 \in RS(Limb), l3 \in RS(Limb), l4 \in RS(Limb),
        m1 \in RS(Limb), m2 \in RS(Limb) :
     LET ins == InsOf(k, j, c, l1, l2, l3, l4)
         \* operands for u32-only instructions are prepared so that the instruction is defined
         pre == IF ins.op \in SeqOpsU2 THEN <<[I0("push") EXCEPT !.imm = <<<<l1, l2, 0, 0>>, <<m1, m2, 0, 0>>>>]>> ELSE <<>>
         st1 == IF pre = <<>> THEN sc.st ELSE Apply(sc.st, pre[1]).st
         r == Apply(st1, ins)
     IN IF r.ok = "undef" THEN UNCHANGED <<phase, sc>>
        ELSE IF r.ok = "ok"
          THEN /\ sc' = [sc EXCEPT !.prog = @ \o pre \o <<ins>>, !.st = r.st]
               /\ phase' = IF Len(sc.prog) + 1 >= sc.target THEN "emit" ELSE "run"
          ELSE /\ sc' = [sc EXCEPT !.prog = @ \o pre \o <<ins>>, !.st = st1, !.result = Outcome(r)]
               /\ phase' = "emit"
SeqEmit ==
  /\ phase = "emit"
  /\ phase' = "done"
  /\ PrintT(ToJson([tag |-> "masm", prog |-> sc.prog, init |-> sc.init, adv |-> <<>>,
                    expect |-> IF sc.result.ok = "ok" THEN [ok |-> "ok", stack |-> sc.st.stack]
                               ELSE [ok |-> "fail", kind |-> sc.result.kind, code |-> sc.result.code, before |-> sc.st.stack]]))
  /\ sc' = sc

Init == IF MODE = "unit" THEN UnitInit ELSE SeqInit
Next == IF MODE = "unit" THEN UnitStep ELSE (SeqStep \/ SeqEmit)
NumEntries == Len(CatSeq)
=============================================================================
