------------------------------ MODULE GEN_Hash ------------------------------
(* Scenario generator for C17: inputs of the standard-library hash procedures (word / byte patterns: constant,
   counting, one-hot, pseudo-random from a 16-bit Lehmer generator) with the digest the reference definition
   (Hashes.tla) prescribes; for the native RPO helpers, the sponge recipe (RpoSponge below) that the primitives
   evaluate.  One behaviour = Init (choice of a case) -> Next (emit). *)
EXTENDS Hashes, Json, FiniteSets
CONSTANTS LEVEL, SHARD, NSHARDS
VARIABLES phase, sc

\* ZX81 generator: x' = 75 (x + 1) mod 65537 - 1 on 0 .. 65535
Nx(x) == ((75 * (x + 1)) % 65537) - 1
RECURSIVE Rnd(_, _)
Rnd(seed, n) == IF n = 0 THEN <<>> ELSE LET x == Nx(seed) IN <<x>> \o Rnd(x, n - 1)

Seeds == IF LEVEL = 1 THEN {11, 4093} ELSE {11, 4093, 65000, 7, 31337, 2024, 999, 12345, 54321, 40000, 257, 65535}
HotBits(nbits) == IF LEVEL = 1 THEN {0, nbits - 1} ELSE {0, 1, 7, 8, 15, 16, 31, 32, 33, 63, 64, nbits \div 2, nbits - 33, nbits - 32, nbits - 2, nbits - 1}
\* word patterns: n 32-bit words (<<lo, hi>>)
Pats(n) == {<<"zero", 0>>, <<"ones", 0>>, <<"count", 0>>, <<"alt", 0>>} \cup {<<"rand", s>> : s \in Seeds} \cup {<<"hot", b>> : b \in HotBits(32 * n)}
Words(p, n) ==
  CASE p[1] = "zero" -> [i \in 1 .. n |-> <<0, 0>>]
    [] p[1] = "ones" -> [i \in 1 .. n |-> <<65535, 65535>>]
    [] p[1] = "count" -> [i \in 1 .. n |-> <<i, 0>>]
    [] p[1] = "alt" -> [i \in 1 .. n |-> IF i % 2 = 0 THEN <<21845, 43690>> ELSE <<65280, 255>>]
    [] p[1] = "rand" -> LET r == Rnd(p[2], 2 * n) IN [i \in 1 .. n |-> <<r[2 * i - 1], r[2 * i]>>]
    [] p[1] = "hot" -> [i \in 1 .. n |-> IF (p[2] \div 32) + 1 = i
                                          THEN (IF p[2] % 32 < 16 THEN <<P2(p[2] % 32), 0>> ELSE <<0, P2((p[2] % 32) - 16)>>)
                                          ELSE <<0, 0>>]
\* byte messages for sha256::hash_memory
ByteLens == IF LEVEL = 1 THEN {0, 1, 55, 56, 64, 100} ELSE {0, 1, 2, 3, 4, 5, 15, 16, 17, 31, 32, 33, 54, 55, 56, 57, 63, 64, 65, 100, 119, 120, 121, 127, 128, 129, 183, 184, 200, 256}
BytePats == IF LEVEL = 1 THEN {<<"rand", 11>>, <<"ones", 0>>} ELSE {<<"rand", 11>>, <<"rand", 4093>>, <<"ones", 0>>, <<"zero", 0>>, <<"count", 0>>}
Bytes(p, n) == CASE p[1] = "zero" -> [i \in 1 .. n |-> 0] [] p[1] = "ones" -> [i \in 1 .. n |-> 255] [] p[1] = "count" -> [i \in 1 .. n |-> i % 256]
                 [] p[1] = "rand" -> LET r == Rnd(p[2], n) IN [i \in 1 .. n |-> r[i] % 256]
\* the message as big-endian words, the last one zero-padded (the layout sha256::hash_memory reads)
BEWords(bytes) == LET n == Len(bytes)  b(i) == IF i <= n THEN bytes[i] ELSE 0
                  IN [i \in 1 .. ((n + 3) \div 4) |-> <<b(4 * i - 1) * 256 + b(4 * i), b(4 * i - 3) * 256 + b(4 * i - 2)>>]
LEBytes(words) == [i \in 1 .. 4 * Len(words) |-> LET w == words[(i + 3) \div 4]  k == (i - 1) % 4 IN
                     CASE k = 0 -> w[1] % 256 [] k = 1 -> w[1] \div 256 [] k = 2 -> w[2] % 256 [] k = 3 -> w[2] \div 256]
\* keccak: stack words (hi, lo) per lane <-> lanes
LanesOfStack(ws) == [i \in 1 .. (Len(ws) \div 2) |-> <<ws[2 * i][1], ws[2 * i][2], ws[2 * i - 1][1], ws[2 * i - 1][2]>>]
StackOfLanes(ls) == [i \in 1 .. 2 * Len(ls) |-> LET l == ls[(i + 1) \div 2] IN IF i % 2 = 1 THEN <<l[3], l[4]>> ELSE <<l[1], l[2]>>]

\* ----- the RPO sponge over field elements (hash_elements of the VM's hasher): rate 8, capacity 4, overwrite mode;
\* capacity element 0 is 1 when the length is not a multiple of 8, the last block is padded with 1, 0, 0, ...
Felt0 == <<0, 0, 0, 0>>
Felt1 == <<1, 0, 0, 0>>
RpoRecipe(elems) ==
  LET n == Len(elems)
      padded == IF n % 8 = 0 THEN elems ELSE elems \o <<Felt1>> \o [i \in 1 .. (7 - (n % 8)) |-> Felt0]
  IN [cap0 |-> IF n % 8 = 0 THEN 0 ELSE 1, blocks |-> [k \in 1 .. (Len(padded) \div 8) |-> SubSeq(padded, 8 * k - 7, 8 * k)]]
FeltPats == IF LEVEL = 1 THEN {<<"rand", 11>>, <<"count", 0>>} ELSE {<<"rand", 11>>, <<"rand", 4093>>, <<"rand", 7>>, <<"count", 0>>, <<"zero", 0>>, <<"big", 0>>}
Felts(p, n) == CASE p[1] = "zero" -> [i \in 1 .. n |-> Felt0] [] p[1] = "count" -> [i \in 1 .. n |-> <<i, 0, 0, 0>>]
                 [] p[1] = "big" -> [i \in 1 .. n |-> <<65536 - i, 65535, 65534, 65535>>]        \* below the modulus (limb 3 < 65535 or limbs 1, 2 zero)
                 [] p[1] = "rand" -> LET r == Rnd(p[2], 4 * n) IN [i \in 1 .. n |-> <<r[4 * i - 3], r[4 * i - 2], r[4 * i - 1], r[4 * i] % 65535>>]
NativeWords == IF LEVEL = 1 THEN {1, 2, 3, 4} ELSE 1 .. 12
EvenWords == IF LEVEL = 1 THEN {0, 2, 4} ELSE {0, 2, 4, 6, 8, 10}
\* absorbing an even number of words into a given state (native::hash_memory_even): no padding, no capacity change
AbsorbRecipe(init, elems) == [init |-> init, blocks |-> [k \in 1 .. (Len(elems) \div 8) |-> SubSeq(elems, 8 * k - 7, 8 * k)]]
InitPat(p) == IF p[1] = "rand" THEN <<"rand", p[2] + 1>> ELSE IF p[1] = "zero" THEN <<"count", 0>> ELSE <<"rand", 5>>

\* two calls one after the other in the same context (the second must not see anything the first left in locals / memory)
SeqProcs == <<[mod |-> "sha256", proc |-> "hash_2to1", n |-> 16], [mod |-> "sha256", proc |-> "hash_1to1", n |-> 8],
              [mod |-> "blake3", proc |-> "hash_2to1", n |-> 16], [mod |-> "blake3", proc |-> "hash_1to1", n |-> 8],
              [mod |-> "keccak256", proc |-> "hash", n |-> 16]>>
SeqSeeds == IF LEVEL = 1 THEN {11} ELSE {11, 4093, 7}
Digest(m, p, w) ==
  CASE m = "sha256" -> Sha256(BytesBE(w))
    [] m = "blake3" -> Blake3Words(w)
    [] m = "keccak256" -> StackOfLanes(Keccak256(BytesOfLanes(LanesOfStack(w))))

Cases ==
  {[mod |-> "sha256", proc |-> "hash_2to1", pat |-> p] : p \in Pats(16)}
  \cup {[mod |-> "sha256", proc |-> "hash_1to1", pat |-> p] : p \in Pats(8)}
  \* (the message starts at word addresses of every residue modulo 4: a block is four memory words)
  \cup {[mod |-> "sha256", proc |-> "hash_memory", pat |-> <<p[1], p[2], n, b>>] : p \in BytePats, n \in ByteLens, b \in {10000, 10001, 10002, 10003}}
  \cup {[mod |-> "blake3", proc |-> "hash_2to1", pat |-> p] : p \in Pats(16)}
  \cup {[mod |-> "blake3", proc |-> "hash_1to1", pat |-> p] : p \in Pats(8)}
  \cup {[mod |-> "keccak256", proc |-> "hash", pat |-> p] : p \in Pats(16)}
  \cup {[mod |-> "keccak256", proc |-> "to_bit_interleaved", pat |-> p] : p \in Pats(2)}
  \cup {[mod |-> "keccak256", proc |-> "from_bit_interleaved", pat |-> p] : p \in Pats(2)}
  \cup {[mod |-> "seq", proc |-> "pair", pat |-> <<"rand", sd, i, j>>] : sd \in SeqSeeds, i \in 1 .. Len(SeqProcs), j \in 1 .. Len(SeqProcs)}
  \* (the memory range starts at an even and at an odd address)
  \cup {[mod |-> "native", proc |-> "hash_memory", pat |-> <<p[1], p[2], n, b>>] : p \in FeltPats, n \in NativeWords, b \in {10000, 10001}}
  \cup {[mod |-> "native", proc |-> "hash_memory_even", pat |-> <<p[1], p[2], n, b>>] : p \in FeltPats, n \in EvenWords, b \in {10000, 10001}}
  \cup {[mod |-> "native", proc |-> "state_to_digest", pat |-> <<p[1], p[2], 3>>] : p \in FeltPats}

Expect(c) ==
  CASE c.mod = "sha256" /\ c.proc = "hash_2to1" -> LET w == Words(c.pat, 16) IN [inw |-> w, out |-> Sha256(BytesBE(w))]
    [] c.mod = "sha256" /\ c.proc = "hash_1to1" -> LET w == Words(c.pat, 8) IN [inw |-> w, out |-> Sha256(BytesBE(w))]
    [] c.mod = "sha256" /\ c.proc = "hash_memory" -> LET b == Bytes(c.pat, c.pat[3]) IN [inw |-> <<>>, mem |-> BEWords(b), len |-> c.pat[3], out |-> Sha256(b)]
    [] c.mod = "blake3" /\ c.proc = "hash_2to1" -> LET w == Words(c.pat, 16) IN [inw |-> w, out |-> Blake3Words(w)]
    [] c.mod = "blake3" /\ c.proc = "hash_1to1" -> LET w == Words(c.pat, 8) IN [inw |-> w, out |-> Blake3Words(w)]
    [] c.mod = "keccak256" /\ c.proc = "hash" -> LET w == Words(c.pat, 16) IN [inw |-> w, out |-> StackOfLanes(Keccak256(BytesOfLanes(LanesOfStack(w))))]
    [] c.mod = "keccak256" /\ c.proc = "to_bit_interleaved" ->
         LET w == Words(c.pat, 2)  r == Interleave(LanesOfStack(w)[1]) IN [inw |-> w, out |-> <<r.even, r.odd>>]
    [] c.mod = "keccak256" /\ c.proc = "from_bit_interleaved" ->
         LET w == Words(c.pat, 2)  r == Interleave(LanesOfStack(w)[1]) IN [inw |-> <<r.even, r.odd>>, out |-> w]
    [] c.mod = "seq" ->
         LET a == SeqProcs[c.pat[3]]  b == SeqProcs[c.pat[4]]
             wa == Words(<<"rand", c.pat[2]>>, a.n)  wb == Words(<<"rand", c.pat[2] + 1>>, b.n)
         IN [inw |-> <<>>, calls |-> <<[mod |-> a.mod, proc |-> a.proc, inw |-> wa, out |-> Digest(a.mod, a.proc, wa)],
                                       [mod |-> b.mod, proc |-> b.proc, inw |-> wb, out |-> Digest(b.mod, b.proc, wb)]>>]
    [] c.mod = "native" /\ c.proc = "hash_memory" -> LET e == Felts(c.pat, 4 * c.pat[3]) IN [inw |-> <<>>, elems |-> e, recipe |-> RpoRecipe(e)]
    \* state (12 elements, capacity first) given on the stack as [C, B, A] = the state in reverse order
    [] c.mod = "native" /\ c.proc = "hash_memory_even" ->
         LET e == Felts(c.pat, 4 * c.pat[3])  st == Felts(InitPat(c.pat), 12) IN [inw |-> <<>>, elems |-> e, state |-> st, recipe |-> AbsorbRecipe(st, e)]
    \* [C, B, A, ...] -> [B, ...]: the digest is the first rate word, state[4 .. 7]
    [] c.mod = "native" /\ c.proc = "state_to_digest" ->
         LET st == Felts(c.pat, 12) IN [inw |-> <<>>, state |-> st, digest |-> SubSeq(st, 5, 8)]

Id(c) == LET RECURSIVE H(_)
             H(i) == IF i > Len(c.pat) THEN 0 ELSE (IF c.pat[i] \in Nat THEN c.pat[i] ELSE 17) + 31 * H(i + 1)
         IN H(2) % 9973
Init == phase = "init" /\ sc \in {c \in Cases : Id(c) % NSHARDS = SHARD}
Next == /\ phase = "init" /\ phase' = "done" /\ sc' = sc
        /\ PrintT(ToJson([tag |-> "hash", mod |-> sc.mod, proc |-> sc.proc, pat |-> sc.pat, x |-> Expect(sc)]))
=============================================================================
