------------------------------ MODULE GEN_Std ------------------------------
(* scenarios for the standard-library contracts (C18), each with the result StdLib.tla prescribes *)
EXTENDS Naturals, Sequences, FiniteSets, TLC, Json
INSTANCE StdLib
CONSTANTS KIND, MaxLeaves, HistLen

VARIABLES sc
Addrs == 100 .. 111
Mem0 == [a \in Addrs |-> a - 99]                  \* word identifiers 1 .. 12
Keys == {1, 2, 3}                                  \* key 2 and key 3 share a leaf index (rendered by the harness)
Vals == {0, 1, 2}                                  \* 0 = the empty word (removal)
Ops == {<<"get", k, 0>> : k \in Keys} \cup {<<"set", k, v>> : k \in Keys, v \in Vals}
RECURSIVE RunSmt(_, _, _)
RunSmt(map, ops, i) == IF i > Len(ops) THEN <<>>
                       ELSE IF ops[i][1] = "get" THEN <<SmtGet(map, ops[i][2])>> \o RunSmt(map, ops, i + 1)
                       ELSE LET r == SmtSet(map, ops[i][2], ops[i][3]) IN <<r.old>> \o RunSmt(r.map, ops, i + 1)
RECURSIVE FinalMap(_, _, _)
FinalMap(map, ops, i) == IF i > Len(ops) THEN map ELSE FinalMap(IF ops[i][1] = "set" THEN SmtSet(map, ops[i][2], ops[i][3]).map ELSE map, ops, i + 1)
Hist(n) == [1 .. n -> Ops]

Init ==
  CASE KIND = "truncate" -> \E d \in 16 .. 40 : sc = [kind |-> "truncate", depth |-> d, expect |-> TruncateStack([i \in 1 .. d |-> i])]
    [] KIND = "memcopy" -> \E n \in 0 .. 5, r \in 100 .. 104, w \in 100 .. 106 :
                              sc = [kind |-> "memcopy", n |-> n, r |-> r, w |-> w, expect |-> [i \in 1 .. 12 |-> MemCopy(Mem0, n, r, w)[99 + i]]]
    [] KIND = "pipe" -> \E n \in 0 .. 5, w \in {100, 103} :
                              sc = [kind |-> "pipe", n |-> n, w |-> w, expect |-> [i \in 1 .. 12 |-> PipeWords(Mem0, [j \in 1 .. 5 |-> 20 + j], n, w)[99 + i]], ptr |-> w + n]
    [] KIND = "pipe2" -> \E n \in {2, 4}, w \in {100, 103, 106} :
                              sc = [kind |-> "pipe2", n |-> n, w |-> w, expect |-> [i \in 1 .. 12 |-> PipeWords(Mem0, [j \in 1 .. 5 |-> 20 + j], n, w)[99 + i]], ptr |-> w + n]
    [] KIND = "mmrfn" ->
         LET U32 == {<<0, 0>>, <<1, 0>>, <<2, 0>>, <<3, 0>>, <<5, 0>>, <<7, 0>>, <<65535, 0>>, <<65535, 1>>, <<65535, 32767>>, <<65535, 65535>>, <<0, 1>>,
                     <<0, 32768>>, <<65534, 65535>>, <<21845, 21845>>, <<43690, 43690>>, <<32767, 0>>, <<32768, 0>>, <<1, 32768>>}
             F64 == {<<v[1], v[2], 0, 0>> : v \in U32} \cup {<<65535, 65535, 1, 0>>, <<65535, 65535, 65535, 32767>>, <<0, 0, 65535, 65535>>, <<65535, 65535, 65535, 0>>,
                     <<65535, 65535, 0, 1>>, <<65535, 32767, 65535, 32767>>, <<65535, 65535, 3, 0>>, <<65535, 65535, 65534, 65535>>}
         IN \/ \E v \in U32 : sc = [kind |-> "mmrfn", fn |-> "u32unchecked_trailing_ones", arg |-> v, ok |-> TRUE, expect |-> <<<<TrailingOnes(v)>>>>]
            \/ \E v \in F64 : sc = [kind |-> "mmrfn", fn |-> "trailing_ones", arg |-> v, ok |-> TRUE, expect |-> <<<<TrailingOnes(v)>>>>]
            \/ \E v \in U32 : sc = [kind |-> "mmrfn", fn |-> "ilog2_checked", arg |-> v, ok |-> (v # <<0, 0>>),
                                    expect |-> IF v = <<0, 0>> THEN <<>> ELSE <<<<ILog2L(v)>>, Pow2L(ILog2L(v), 2)>>]
            \/ \E np \in 0 .. 40 : sc = [kind |-> "mmrfn", fn |-> "num_peaks_to_message_size", arg |-> <<np>>, ok |-> TRUE, expect |-> <<<<PeakWords(np)>>>>]
    [] KIND = "mmr" -> \E n \in 1 .. MaxLeaves :
                              LET leaves == [i \in 1 .. n |-> i] IN
                              sc = [kind |-> "mmr", n |-> n, peaks |-> Peaks(leaves, 1), npeaks |-> PopCount(n), gets |-> [p \in 0 .. n - 1 |-> MmrGet(leaves, p)]]
    \* accumulators given directly by their peaks (any number of peaks up to 32: a leaf count of np one bits, all low bits
    \* or every second bit): pack hashes PeakWords(np) words and files them, unpack restores num_leaves and the peaks
    [] KIND = "mmrpack" -> \E np \in 1 .. 32, pat \in {"ones", "spread"} :
                              /\ pat = "spread" => np <= 16
                              /\ LET lo == IF pat = "ones" THEN (IF np >= 16 THEN 65535 ELSE Pow2(np) - 1)
                                           ELSE (Pow2(2 * (IF np < 8 THEN np ELSE 8)) - 1) \div 3
                                     hi == IF pat = "ones" THEN (IF np <= 16 THEN 0 ELSE Pow2(np - 16) - 1)
                                           ELSE (IF np <= 8 THEN 0 ELSE (Pow2(2 * (np - 8)) - 1) \div 3)
                                 IN sc = [kind |-> "mmrpack", np |-> np, pat |-> pat, leaves |-> <<lo, hi>>, words |-> PeakWords(np),
                                          padded |-> PaddedPeaks([i \in 1 .. np |-> i])]
    \* (smt.masm documents leaves holding more than one key-value pair as unimplemented: keys 2 and 3 share a leaf, so
    \* histories in which both would be present are outside the contract)
    [] KIND = "smt" -> \E init \in [Keys -> {0, 1}], h \in Hist(HistLen) :
                              /\ \A i \in 0 .. HistLen : LET m == FinalMap(init, SubSeq(h, 1, i), 1) IN ~(m[2] # 0 /\ m[3] # 0)
                              /\ sc = [kind |-> "smt", init |-> init, ops |-> h, results |-> RunSmt(init, h, 1), final |-> FinalMap(init, h, 1)]
Next == UNCHANGED sc
Emit == PrintT(ToJson([tag |-> "std"] @@ sc))
\* the contract's own properties
MmrPeaks == /\ KIND = "mmr" => Len(sc.peaks) = sc.npeaks
            /\ KIND = "mmrpack" => Len(sc.padded) = sc.words /\ sc.words % 2 = 0 /\ sc.words >= 16 /\ sc.words >= sc.np /\ sc.words <= sc.np + 15
=============================================================================
