------------------------------ MODULE GEN_Const ------------------------------
(* Constant expressions (code_organization.md, "Constants"): a constant's value can be an arithmetic expression over
   decimal numbers and previously defined constants with + - * / // and parentheses, where / is the field division and
   // the integer division; + - * are field operations.  The generator enumerates expression TREES (so the meaning of a
   tree is unambiguous) with at most DEPTH operators; the replayer writes each tree with the fewest parentheses that the usual
   conventions allow - multiplication and both divisions bind tighter than addition and subtraction, operators of equal
   precedence associate to the left - optionally
   routing sub-expressions through earlier constants, and `push.<constant>` must push the value of the tree.
   Expressions in which a divisor is zero are not generated. *)
EXTENDS Naturals, Sequences, TLC, Json
CONSTANTS DEPTH, LEAVES, OPS, SHARD, NSHARDS
HB == 256
INSTANCE Nat
VARIABLES phase, sc

RECURSIVE TreesN(_)        \* trees with exactly n operators
TreesN(n) == IF n = 0 THEN {<<"n", v>> : v \in LEAVES}
             ELSE UNION {{<<o, a, b>> : o \in OPS, a \in TreesN(k), b \in TreesN(n - 1 - k)} : k \in 0 .. n - 1}
Trees(d) == UNION {TreesN(n) : n \in 1 .. d}
RECURSIVE Eval(_)          \* <<TRUE, value>> or <<FALSE>> (division by zero)
Eval(t) ==
  IF t[1] = "n" THEN <<TRUE, Small(t[2])>>
  ELSE LET a == Eval(t[2])  b == Eval(t[3]) IN
       IF ~a[1] \/ ~b[1] THEN <<FALSE>>
       ELSE CASE t[1] = "+" -> <<TRUE, FAdd(a[2], b[2])>>
              [] t[1] = "-" -> <<TRUE, FSub(a[2], b[2])>>
              [] t[1] = "*" -> <<TRUE, FMul(a[2], b[2])>>
              [] t[1] = "/" -> IF b[2] = F0 THEN <<FALSE>> ELSE <<TRUE, FDiv(a[2], b[2])>>
              [] t[1] = "//" -> IF b[2] = F0 THEN <<FALSE>> ELSE <<TRUE, NTrunc(NDivMod(a[2], b[2])[1], 4)>>
RECURSIVE Size(_)
Size(t) == IF t[1] = "n" THEN 1 ELSE 1 + Size(t[2]) + Size(t[3])
Key(t) == IF t[1] = "n" THEN t[2] ELSE (7 * Size(t[2]) + 13 * Size(t[3]) + (IF t[2][1] = "n" THEN t[2][2] ELSE 3) + (IF t[3][1] = "n" THEN 5 * t[3][2] ELSE 11))
Init == phase = "init" /\ sc \in {t \in Trees(DEPTH) : Key(t) % NSHARDS = SHARD /\ Eval(t)[1]}
Next == /\ phase = "init" /\ phase' = "done" /\ sc' = sc
        /\ PrintT(ToJson([tag |-> "const", tree |-> sc, value |-> Eval(sc)[2]]))
=============================================================================
