CONSTANTS MODE = "exh" D = 1 L = 3 SHARD = 0 NSHARDS = 1
INIT Init
NEXT Next
CHECK_DEADLOCK FALSE
