---------------------------- MODULE GEN_TraceLen ----------------------------
(* judges recorded trace-length facts: TRIPLES = sequence of <<len, main, range, chiplets>> *)
EXTENDS Naturals, Sequences, TLC, Json, IOUtils
MinLen == 64
INSTANCE TraceLen
Facts == ndJsonDeserialize(IOEnv.FACTS)
ASSUME PrintT(ToJson([tag |-> "tracelen",
   verdicts |-> [i \in 1 .. Len(Facts) |-> [ok |-> Admissible(Facts[i].len, Facts[i].main, Facts[i].range, Facts[i].chiplets),
                                            minimal |-> Minimal(Facts[i].main, Facts[i].range, Facts[i].chiplets)]]]))
=============================================================================
