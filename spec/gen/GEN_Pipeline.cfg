INIT Init
NEXT Next
INVARIANTS Completeness Binding WeakRejected AcceptedExactly AnyOnlyForTrailing Emit
CHECK_DEADLOCK FALSE
