INIT Init
NEXT Next
INVARIANTS Completeness Binding WeakRejected AnyOnlyForTrailing Emit
CHECK_DEADLOCK FALSE
