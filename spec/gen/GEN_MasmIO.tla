----------------------------- MODULE GEN_MasmIO -----------------------------
(***************************************************************************)
(* Memory and advice instructions of the instruction reference              *)
(* (io_operations.md) as short programs: write then read in both the        *)
(* immediate and the stack-operand form, element stores into written and    *)
(* unwritten words, reads of unwritten addresses, the top of the address    *)
(* space, addresses of 2^32 and more, two-word transfers (mem_stream,       *)
(* adv_pipe) incl. their second word at 2^32, advice pops with too little   *)
(* advice.  The outcome Masm!Apply prescribes is printed with each program. *)
(***************************************************************************)
EXTENDS Naturals, Sequences, FiniteSets, TLC, Json
HB == 256
INSTANCE Masm

VX == <<4660, 22136, 36882, 43981>>
VP32 == <<0, 0, 1, 0>>                               \* 2^32
VU == <<LB - 1, LB - 1, 0, 0>>                       \* 2^32 - 1
VU1 == <<LB - 2, LB - 1, 0, 0>>                      \* 2^32 - 2
I0(op) == [op |-> op, p |-> 0, imm |-> <<>>, err |-> 0, form |-> "dec"]
IP(op, n) == [I0(op) EXCEPT !.p = n]
II(op, v) == [I0(op) EXCEPT !.imm = <<v>>]
Push(vs) == [I0("push") EXCEPT !.imm = vs]
W1 == <<F1, VX, FNeg1, VP32>>
W2 == <<Small(5), Small(6), Small(7), Small(8)>>
Addrs == {F0, F1, Small(7), VU}
BadAddrs == {VP32, FNeg1}

\* address given as an immediate (imm = TRUE) or pushed onto the stack
Ld(op, a, imm) == IF imm THEN <<II(op, a)>> ELSE <<Push(<<a>>), I0(op)>>
Programs ==
  UNION {{
     \* store a word, overwrite the stack, load it back
     <<Push(W1)>> \o Ld("mem_storew", a, i) \o <<I0("dropw"), I0("padw")>> \o Ld("mem_loadw", a, j),
     \* element store into an unwritten word, then the whole word
     <<Push(<<VX>>)>> \o Ld("mem_store", a, i) \o Ld("mem_load", a, j) \o <<I0("padw")>> \o Ld("mem_loadw", a, i),
     \* element store into a written word keeps the other three elements
     <<Push(W1)>> \o Ld("mem_storew", a, i) \o <<I0("dropw"), Push(<<Small(9)>>)>> \o Ld("mem_store", a, j) \o <<I0("padw")>> \o Ld("mem_loadw", a, j),
     \* unwritten memory reads as zeros
     Ld("mem_load", a, i) \o <<I0("padw")>> \o Ld("mem_loadw", a, j),
     \* two stores to neighbouring addresses do not disturb each other
     <<Push(W1)>> \o Ld("mem_storew", a, i) \o <<I0("dropw"), Push(W2)>> \o Ld("mem_storew", F2, i) \o <<I0("dropw"), I0("padw")>> \o Ld("mem_loadw", a, j)
       \o <<I0("padw")>> \o Ld("mem_loadw", F2, j)
   } : a \in Addrs, i \in BOOLEAN, j \in BOOLEAN}
  \cup {<<Push(<<a>>), I0(op)>> : a \in BadAddrs, op \in {"mem_load", "mem_loadw", "mem_store", "mem_storew"}}
  \* two-word transfers: [C, B, A, a, ...] ; a at position 12
  \cup {<<Push(W1), II("mem_storew", a), I0("dropw"), Push(W2), II("mem_storew", FAdd(a, F1)), I0("dropw"),
          Push(<<a>>), I0("padw"), I0("padw"), I0("padw"), I0("mem_stream")>> : a \in {F0, Small(7), VU1}}
  \cup {<<Push(<<a>>), I0("padw"), I0("padw"), I0("padw"), I0("mem_stream")>> : a \in {VU, VP32}}
  \cup {<<Push(<<a>>), I0("padw"), I0("padw"), I0("padw"), I0("adv_pipe"), I0("padw"), II("mem_loadw", a), I0("padw"), II("mem_loadw", FAdd(a, F1))>> : a \in {F0, VU1}}
  \cup {<<Push(<<a>>), I0("padw"), I0("padw"), I0("padw"), I0("adv_pipe")>> : a \in {VU, VP32}}
  \* advice stack
  \cup {<<IP("adv_push", n)>> : n \in {1, 2, 7, 16}}
  \cup {<<IP("adv_push", 3), I0("padw"), I0("adv_loadw")>>, <<I0("adv_loadw"), I0("adv_loadw"), I0("adv_loadw")>>}
AdvLists == {[i \in 1 .. n |-> <<100 + i, i, 0, 0>>] : n \in {0, 3, 8, 16}}

VARIABLES phase, sc
Filler(i) == <<1000 + i, 7, 0, 0>>
RECURSIVE Run(_, _, _)
Run(st, prog, k) == IF k > Len(prog) THEN [ok |-> "ok", st |-> st]
                    ELSE LET r == Apply(st, prog[k]) IN IF r.ok = "ok" THEN Run(r.st, prog, k + 1) ELSE r
Init == /\ phase = "init"
        /\ \E p \in Programs : \E adv \in (IF \E k \in 1 .. Len(p) : p[k].op \in {"adv_push", "adv_loadw", "adv_pipe"} THEN AdvLists ELSE {<<>>}) :
              \E d \in {0, 18} : sc = [prog |-> p, adv |-> adv, init |-> [i \in 1 .. d |-> Filler(i)]]
Next == /\ phase = "init" /\ phase' = "done" /\ sc' = sc
        /\ LET r == Run([stack |-> Norm(sc.init), mem |-> <<>>, adv |-> sc.adv], sc.prog, 1) IN
           PrintT(ToJson([tag |-> "masm", prog |-> sc.prog, init |-> sc.init, adv |-> sc.adv,
                          expect |-> IF r.ok = "ok" THEN [ok |-> "ok", stack |-> r.st.stack]
                                     ELSE IF r.ok = "fail" THEN [ok |-> "fail", kind |-> r.kind, code |-> r.code] ELSE [ok |-> r.ok]]))
=============================================================================
