------------------------------ MODULE GEN_Cycle ------------------------------
(* Scenario generator for C15: for every measured cycle count n (NEEDS; 0 stands for the
   non-terminating program) every limit around n and every expected-cycles hint; plus the option-set
   acceptance table. *)
EXTENDS Naturals, Sequences, FiniteSets, TLC, Json
CONSTANTS NEEDS
Inf == 0
MinLen == 64
VARIABLES need, max, clk, status
C == INSTANCE CycleLimit WITH NeedSet <- {}, MaxSet <- {}, Infinite <- Inf, MinTraceLen <- MinLen
Limits(n) == IF n = Inf THEN {64, 65, 100, 127, 128, 129, 1000}
             ELSE {m \in {64, n - 2, n - 1, n, n + 1, n + 2, 2 * n, 100000} : m >= 64}
Hints(m) == {e \in {0, 1, 64, 65, 100, m - 1, m} : e <= m}
Scenarios == UNION {UNION {{[n |-> n, m |-> m, e |-> e] : e \in Hints(m)} : m \in Limits(n)} : n \in NEEDS}
OptMax == {0, 1, 63, 64, 65, 100, 1000, 65536}
OptExp == {0, 1, 63, 64, 65, 100, 101, 1000, 1001, 65536, 65537}
SetToSeq(S0) == LET RECURSIVE ToSeq(_)
                    ToSeq(S) == IF S = {} THEN <<>> ELSE LET x == CHOOSE x \in S : TRUE IN <<x>> \o ToSeq(S \ {x})
                IN ToSeq(S0)
ASSUME PrintT(ToJson([tag |-> "cycle",
    runs |-> SetToSeq({[n |-> s.n, m |-> s.m, e |-> s.e, expect |-> C!Outcome(s.n, s.m)] : s \in Scenarios}),
    options |-> SetToSeq({[max |-> a, expected |-> b, accepted |-> C!OptionsAccepted(a, b)] : a \in OptMax, b \in OptExp})]))
GInit == need = 0 /\ max = 0 /\ clk = 0 /\ status = "done"
GNext == UNCHANGED <<need, max, clk, status>>
=============================================================================
