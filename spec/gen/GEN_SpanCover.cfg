CONSTANTS NB = 2 FINE = 0 FULL = TRUE
INIT Init
NEXT Next
VIEW Shape
CHECK_DEADLOCK FALSE
