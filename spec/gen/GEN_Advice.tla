----------------------------- MODULE GEN_Advice -----------------------------
(***************************************************************************)
(* Behaviours of the advice provider (Advice.tla): every sequence of DEPTH  *)
(* steps over an alphabet of short instruction groups - readers, injectors, *)
(* hashing instructions, word shuffles, memory stores - from one initial    *)
(* state with a populated advice stack and advice map.  The laws of         *)
(* Advice.tla are checked on every step (invariant Laws); every maximal     *)
(* behaviour (DEPTH steps, or a failing step) is printed with the final     *)
(* operand stack the specification prescribes, after a closing adv_push     *)
(* that drains what is left of the advice stack (so its content and order   *)
(* are observed too).  In MODE "sim" TLC's simulator draws longer random    *)
(* behaviours from the same machine.                                        *)
(***************************************************************************)
EXTENDS Naturals, Sequences, FiniteSets, TLC, Json
HB == 256
INSTANCE Advice
CONSTANTS DEPTH, MODE

I0(op) == [op |-> op, p |-> 0, imm |-> <<>>, err |-> 0, form |-> "dec"]
IP(op, n) == [I0(op) EXCEPT !.p = n]
IF_(op, n, f) == [I0(op) EXCEPT !.p = n, !.form = f]
II(op, v) == [I0(op) EXCEPT !.imm = <<v>>]
Push(vs) == [I0("push") EXCEPT !.imm = vs]
W(a) == <<Small(a), Small(a + 1), Small(a + 2), Small(a + 3)>>

K1 == W(1001)    K2 == W(2001)    K3 == W(3001)    KM == W(4001)
V1 == <<Small(11), Small(12), Small(13)>>
V3 == [i \in 1 .. 9 |-> Small(20 + i)]
Map0 == (K1 :> V1) @@ (K2 :> <<>>) @@ (K3 :> V3)
Adv0 == [i \in 1 .. 10 |-> <<100 + i, i, 0, 0>>]
Stack0 == Rev4(K1) \o Rev4(K3) \o <<Small(58), Small(59), Small(60), Small(61)>> \o <<Small(40)>> \o <<Small(63), Small(64), Small(65)>>
St0 == [stack |-> Stack0, mem |-> <<>>, adv |-> Adv0, map |-> Map0]

InsMem(a, b) == <<Push(<<Small(b), Small(a)>> \o K2), I0("adv.insert_mem"), IP("movup", 4), I0("drop"), IP("movup", 4), I0("drop")>>
\* MODE "hash": the instruction groups around the hash-keyed injectors only, so that insert / hash in the VM / look up
\* chains (4 steps with a domain) are enumerated exhaustively
HashMacros ==
  { <<IF_("adv.insert_hdword", 0, "bare")>>, <<IP("adv.insert_hdword", 3)>>, <<I0("adv.insert_hperm")>>,
    <<I0("hmerge")>>, <<I0("hperm"), I0("dropw"), IP("swapw", 1), I0("dropw")>>,
    <<Push(<<F0, Small(3), F0, F0>>), IP("movdnw", 2)>>, <<Push(<<F0, F0, F0, F0>>), IP("movdnw", 2)>>,
    <<IF_("adv.push_mapvaln", 0, "bare")>>, <<IP("adv.push_mapval", 4)>>, <<IP("dupw", 1), IP("dupw", 1)>> }
Macros ==
  IF MODE = "hash" THEN HashMacros ELSE
  { <<Push(K1)>>, <<Push(K2)>>, <<Push(KM)>>, <<I0("dropw")>>, <<IP("swapw", 1)>>, <<IP("movupw", 2)>>, <<IP("dupw", 1)>>,
    <<IF_("adv.push_mapval", 0, "bare")>>, <<IP("adv.push_mapval", 4)>>,
    <<IF_("adv.push_mapvaln", 0, "bare")>>, <<IP("adv.push_mapvaln", 4)>>, <<IP("adv.push_mapvaln", 8)>>,
    <<IP("adv_push", 1)>>, <<IP("adv_push", 4)>>, <<I0("adv_loadw")>>, <<I0("adv_pipe")>>,
    <<II("mem_storew", Small(5))>>, <<II("mem_storew", Small(6))>>,
    InsMem(5, 7), InsMem(5, 5), InsMem(6, 5), InsMem(4, 8),
    <<IF_("adv.insert_hdword", 0, "bare")>>, <<IP("adv.insert_hdword", 3)>>, <<I0("adv.insert_hperm")>>,
    <<I0("hmerge")>>, <<I0("hperm"), I0("dropw"), IP("swapw", 1), I0("dropw")>>,
    <<Push(<<F0, Small(3), F0, F0>>), IP("movdnw", 2)>> }
  \cup (IF MODE = "sim" THEN { <<IP("adv.push_mapval", 8)>>, <<IP("adv.push_mapval", 12)>>, <<IP("adv.push_mapvaln", 12)>>,
                               <<IF_("adv.insert_hdword", 0, "dec")>>, <<IP("adv.insert_hdword", 255)>>,
                               <<IP("adv_push", 2)>>, <<IP("adv_push", 16)>>, <<IP("swapw", 2)>>, <<IP("swapw", 3)>>,
                               <<IP("dupw", 0)>>, <<IP("dupw", 3)>>, InsMem(0, 1), InsMem(5, 6), InsMem(6, 7) }
        ELSE {})

VARIABLES st, trail, res, steps
vars == <<st, trail, res, steps>>

RECURSIVE RunSeq(_, _, _)
RunSeq(s, prog, k) == IF k > Len(prog) THEN [ok |-> "ok", st |-> s]
                      ELSE LET r == ApplyA(s, prog[k]) IN IF r.ok = "ok" THEN RunSeq(r.st, prog, k + 1) ELSE r

\* the laws of Advice.tla on every instruction of a group, from the state it is applied in
RECURSIVE LawsSeq(_, _, _)
LawsSeq(s, prog, k) ==
  IF k > Len(prog) THEN TRUE
  ELSE /\ InjectorFrame(s, prog[k]) /\ MapGrows(s, prog[k]) /\ PushedFirst(s, prog[k])
       /\ LET r == ApplyA(s, prog[k]) IN IF r.ok = "ok" THEN LawsSeq(r.st, prog, k + 1) ELSE TRUE

Drain(s) == IF Len(s.adv) = 0 THEN <<>>
            ELSE IF Len(s.adv) <= 16 THEN <<IP("adv_push", Len(s.adv))>>
            ELSE <<IP("adv_push", 16)>>
Emit(prog, r0) ==
  LET dr == IF r0.ok = "ok" THEN Drain(r0.st) ELSE <<>>
      r == IF r0.ok = "ok" THEN RunSeq(r0.st, dr, 1) ELSE r0
  IN PrintT(ToJson([tag |-> "advice", prog |-> prog \o dr, init |-> Stack0, adv |-> Adv0,
                    map |-> [k \in {K1, K2, K3} |-> <<k, Map0[k]>>],
                    expect |-> IF r.ok = "ok" THEN [ok |-> "ok", stack |-> r.st.stack]
                               ELSE IF r.ok = "fail" THEN [ok |-> "fail", kind |-> r.kind, code |-> r.code] ELSE [ok |-> r.ok]]))

Init == st = St0 /\ trail = <<>> /\ res = "run" /\ steps = 0
Step(m) ==
  LET r == RunSeq(st, m, 1) IN
  /\ Assert(LawsSeq(st, m, 1), <<"law of Advice.tla violated by", m>>)
  /\ trail' = trail \o m
  /\ steps' = steps + 1
  /\ IF r.ok = "ok"
       THEN /\ st' = r.st
            /\ IF steps + 1 = DEPTH THEN res' = "done" /\ Emit(trail \o m, r) ELSE res' = "run"
       ELSE st' = st /\ res' = "done" /\ Emit(trail \o m, r)
Next == res = "run" /\ IF MODE = "sim" THEN Step(RandomElement(Macros)) ELSE \E m \in Macros : Step(m)
Laws == HdwordKeyIsHmerge(st)
=============================================================================
