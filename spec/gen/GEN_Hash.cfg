CONSTANTS LEVEL = 1 SHARD = 0 NSHARDS = 1
INIT Init
NEXT Next
CHECK_DEADLOCK FALSE
