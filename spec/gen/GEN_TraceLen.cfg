
