CONSTANTS N = 3
INIT Init
NEXT Next
INVARIANT ModelReEncode
CHECK_DEADLOCK FALSE
