------------------------------ MODULE GEN_Span ------------------------------
(* Behaviour generator for C08 / C13: every state is an operation sequence; the batching the
   specification assigns to it is printed as one JSON line and replayed on the real Span::new. *)
EXTENDS Naturals, Sequences, TLC, Json, Randomization
CONSTANTS N, MODE          \* MODE = "exh" (all push/non-push patterns <= N) or "rnd" (random ops, simulate)
HB == 256
G == 9
B == 8
INSTANCE SpanBatch
INSTANCE Opcodes
VARIABLES ops, target

\* opcodes of all operations allowed in a span, in table order (NOOP excluded from "exh" patterns)
SpanCodes == LET t == SelectSeq(OpTable, LAMBDA e : e[1] \notin ControlOps) IN [i \in 1 .. Len(t) |-> t[i][2]]
PlainCodes == SelectSeq(SpanCodes, LAMBDA c : c # 100 /\ c # 0)

ImmAt(i) == <<(i * 7919) % LB, (i * 104729) % LB, (i * 31) % LB, (i * 17) % (LB - 1)>>
PushAt(i) == [c |-> 100, imm |-> <<ImmAt(i)>>]
PlainAt(i) == [c |-> PlainCodes[1 + ((i * 5) % Len(PlainCodes))], imm |-> <<>>]

RndLimb == RandomElement(0 .. LB - 1)
RndFelt == Canon(<<RndLimb, RndLimb, RndLimb, RndLimb>>)
RndOp == LET k == RandomElement(1 .. 4) IN
         IF k = 1 THEN [c |-> 100, imm |-> <<RndFelt>>]
         ELSE [c |-> SpanCodes[RandomElement(1 .. Len(SpanCodes))], imm |-> <<>>]

Init == /\ ops = <<>>
        /\ target = IF MODE = "exh" THEN 0 ELSE RandomElement(1 .. N)
Next == /\ Len(ops) < N
        /\ IF MODE = "exh"
             THEN \E o \in {PushAt(Len(ops) + 1), PlainAt(Len(ops) + 1)} : ops' = Append(ops, o)
             ELSE ops' = Append(ops, RndOp)
        /\ UNCHANGED target

Scenario ==
  LET bs == Batches(ops) IN
  [tag |-> "span",
   ops |-> [i \in 1 .. Len(ops) |-> [c |-> ops[i].c, imm |-> ops[i].imm]],
   batches |-> [i \in 1 .. Len(bs) |-> [groups |-> GroupValues(bs[i]), counts |-> OpCounts(bs[i]), ng |-> NumGroups(bs[i]),
                                        ops |-> [j \in 1 .. Len(bs[i].ops) |-> bs[i].ops[j].c]]],
   gc |-> GroupCount(bs)]

Emit == (Len(ops) >= 1 /\ (MODE = "exh" \/ Len(ops) = target)) => PrintT(ToJson(Scenario))
=============================================================================
