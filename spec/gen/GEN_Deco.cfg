CONSTANT MAXLEN = 3
INIT Init
NEXT Next
CHECK_DEADLOCK FALSE
