CONSTANTS MODE = "seq" LEVEL = 1 SHARD = 0 NSHARDS = 1 SEQLEN = 40
INIT Init
NEXT Next
CHECK_DEADLOCK FALSE
