------------------------------ MODULE GEN_Deco ------------------------------
(* Scenario generator for the invariance half of C08: "the hash is unchanged by comments, whitespace, debug mode and
   decorators".  A scenario is a small body - a sequence over N (an instruction that assembles to a single NOOP),
   O (a plain operation), P (a push), D (a decorator / comment), C (a control-flow block, so that a decorator can stand
   between two blocks with no operation to attach to) - placed in a wrapper that decides how the assembler
   joins it with its neighbours (top level, repeat body, inlined procedure, branch, loop body), optionally followed by
   a further operation.  Erase(body) removes the D elements; the prescription is
       hash(body in wrapper, any decorator kind, debug mode on or off) = hash(Erase(body) in the same wrapper, debug off).
   Bodies whose erasure is empty are emitted too (the decorator-only block); they are compared among themselves
   (every decorator kind and mode must give the same hash). *)
EXTENDS Naturals, Sequences, TLC, Json
CONSTANT MAXLEN
VARIABLES phase, sc
Elems == {"N", "O", "P", "D", "C"}      \* C : a control-flow block (no span of its own next to its neighbours)
Bodies == UNION {[1 .. n -> Elems] : n \in 1 .. MAXLEN}
Wrappers == {"top", "repeat", "exec", "branch", "loop", "call", "execloc", "callloc"}
\* a procedure with locals starts and ends with operations of its own (the frame prologue / epilogue, assembly/procedures.md):
\* a decorator at either end of such a body has an operation to attach to
Framed(w) == w \in {"execloc", "callloc"}
Tails == {"none", "O"}
Erase(b) == SelectSeq(b, LAMBDA e : e # "D")
HasD(b) == \E i \in 1 .. Len(b) : b[i] = "D"
\* a decorator is isolated when walking outwards over decorators reaches a control block or the end of the body on both sides
RECURSIVE Reach(_, _, _)
Reach(b, i, dir) == IF i < 1 \/ i > Len(b) THEN "end" ELSE IF b[i] = "D" THEN Reach(b, IF dir = "L" THEN i - 1 ELSE i + 1, dir) ELSE b[i]
Isolated(b) == \E i \in 1 .. Len(b) : b[i] = "D" /\ Reach(b, i, "L") \in {"end", "C"} /\ Reach(b, i, "R") \in {"end", "C"}
Cases == {[wrap |-> w, body |-> [i \in 1 .. Len(b) |-> b[i]], tail |-> t] : w \in Wrappers, b \in {x \in Bodies : HasD(x)}, t \in Tails}
Init == phase = "init" /\ sc \in Cases
Next == /\ phase = "init" /\ phase' = "done" /\ sc' = sc
        /\ PrintT(ToJson([tag |-> "deco", wrap |-> sc.wrap, body |-> sc.body, tail |-> sc.tail, erased |-> Erase(sc.body), isolated |-> Isolated(IF Framed(sc.wrap) THEN <<"O">> \o sc.body \o <<"O">> ELSE sc.body)]))
=============================================================================
