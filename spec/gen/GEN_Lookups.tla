---------------------------- MODULE GEN_Lookups ----------------------------
(* prints the contract of the auxiliary columns (Lookups.tla) for the harness-side comparison of terminal values *)
EXTENDS Naturals, Sequences, TLC, Json
HB == 2
G == 9
B == 8
INSTANCE Lookups
ASSUME PrintT(ToJson([tag |-> "aux", columns |-> AuxColumns, terminal |-> [i \in 1 .. Len(AuxColumns) |-> Terminal(AuxColumns[i])]]))
VARIABLE x
Init == x = 0
Next == x' = x
=============================================================================
