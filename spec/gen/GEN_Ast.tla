------------------------------ MODULE GEN_Ast ------------------------------
(***************************************************************************)
(* Abstract syntax trees for the serialisation round trips of C10           *)
(* (Wire.tla states the property: decode(encode(x)) = x and                 *)
(* compile(decode(encode(ast))) = compile(ast)).  The space is the product   *)
(* of: the kind of unit (program / library module), a window into the table *)
(* of instruction forms (every instruction x every immediate form, NInstr    *)
(* entries), a nesting shape of the body, and boundary values of every       *)
(* length-prefixed field of the encoding: doc comments, procedure names,     *)
(* import paths, number of locals, repeat counts, number of procedures.      *)
(* Every state is one scenario, printed for the harness.                     *)
(***************************************************************************)
EXTENDS Naturals, Sequences, TLC, Json
CONSTANTS NInstr, Window

Kinds == {"program", "module"}
DocLens == {0, 1, 300, 65000}              \* characters of the doc comment of the unit / of a procedure
NameLens == {1, 40, 255}                   \* procedure name length
PathLens == {0, 10, 255, 256, 700, 1023}   \* 0 = no import ; total length of an imported module's path
LocalCounts == {0, 1, 3, 65535}
RepeatCounts == {1, 2, 7}
Shapes == 1 .. 10
Windows == 0 .. ((NInstr - 1) \div Window)

\* body shapes over instruction slots (numbers index the window): nesting depth up to 3
I(k) == <<"i", k>>
Shape(s, rc) ==
  CASE s = 1 -> <<I(0), I(1), I(2), I(3), I(4), I(5), I(6), I(7)>>
    [] s = 2 -> <<I(0), <<"if", <<I(1), I(2)>>, <<I(3)>>>>, I(4), I(5), I(6), I(7)>>
    [] s = 3 -> <<<<"if", <<I(0)>>, <<>>>>, I(1), <<"while", <<I(2), I(3)>>>>, I(4), I(5), I(6), I(7)>>
    [] s = 4 -> <<<<"repeat", rc, <<I(0), I(1)>>>>, I(2), I(3), I(4), I(5), I(6), I(7)>>
    [] s = 5 -> <<<<"while", <<<<"if", <<I(0), <<"repeat", rc, <<I(1)>>>>>>, <<I(2)>>>>, I(3)>>>>, I(4), I(5), I(6), I(7)>>
    [] s = 6 -> <<I(0), <<"repeat", rc, <<<<"repeat", 2, <<I(1), I(2)>>>>>>>>, <<"if", <<<<"while", <<I(3)>>>>>>, <<I(4), I(5)>>>>, I(6), I(7)>>
    [] s = 7 -> <<<<"if", <<<<"if", <<<<"if", <<I(0)>>, <<I(1)>>>>>>, <<I(2)>>>>>>, <<I(3)>>>>, I(4), I(5), I(6), I(7)>>
    [] s = 8 -> <<I(0), I(1), I(2), I(3), <<"while", <<I(4), I(5), I(6), I(7)>>>>>>
    \* branches that are written but empty: `if.true ... else end` and `if.true else ... end`
    [] s = 9 -> <<I(0), <<"ifee", <<I(1), I(2)>>>>, I(3), <<"repeat", rc, <<<<"ifee", <<I(4)>>>>>>>>, I(5), I(6), I(7)>>
    [] s = 10 -> <<<<"ifet", <<I(0)>>>>, I(1), <<"while", <<<<"ifet", <<I(2), I(3)>>>>>>>>, I(4), I(5), I(6), I(7)>>

VARIABLES sc
\* the full product is far beyond what can be replayed; two slices cover every value of every dimension and all pairs
\* inside a slice: (A) every instruction window x every shape x kind with ordinary field lengths, (B) every combination
\* of the boundary lengths with one window and the flat shape
Mk(k, w, s, d, pd, n, p, l, rc, np, ex) ==
  [kind |-> k, window |-> w, shape |-> s, body |-> Shape(s, rc), docs |-> d, proc_docs |-> pd, name_len |-> n, path_len |-> p, locals |-> l,
   nprocs |-> np, reexport |-> ex /\ k = "module" /\ p > 0]
Init == \/ \E k \in Kinds, w \in Windows, s \in Shapes, rc \in RepeatCounts : sc = Mk(k, w, s, 1, 1, 40, 10, 3, rc, 3, TRUE)
        \/ \E k \in Kinds, d \in {0, 1, 65000}, pd \in {0, 1, 65000}, n \in NameLens, p \in PathLens, l \in LocalCounts, np \in {1, 3}, ex \in BOOLEAN :
              sc = Mk(k, 0, 1, d, pd, n, p, l, 1, np, ex)
Next == UNCHANGED sc
\* (C) bodies whose number of direct child nodes sits at the boundaries of the encodings of a node count (one byte, two
\* bytes, 15 bits, the maximum a body may hold), as the main body, a procedure body, or the body of a nested block
BodyCounts == {1, 127, 128, 255, 256, 32767, 32768, 40000, 65535}
BodyPlaces == {"main", "proc", "repeat", "if", "else", "while"}
ASSUME PrintT(ToJson([tag |-> "astbig", cases |-> {[kind |-> k, place |-> pl, count |-> c] : k \in Kinds, pl \in BodyPlaces, c \in BodyCounts}]))
Emit == PrintT(ToJson([tag |-> "ast"] @@ sc))
=============================================================================
