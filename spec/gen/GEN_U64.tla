------------------------------ MODULE GEN_U64 ------------------------------
(* Scenario generator for C16: every documented std::math::u64 procedure x all combinations of limb
   values from the boundary set (and all shift amounts 0..63), the u256 procedures on limb patterns;
   each with the result the contract (U64.tla) prescribes.  One behaviour = Init (choice) -> Step (emit). *)
EXTENDS Naturals, Sequences, FiniteSets, TLC, Json
CONSTANTS LEVEL, SHARD, NSHARDS
HB == 256
INSTANCE U64
VARIABLES phase, sc

LimbVals == IF LEVEL = 1 THEN {F0, F1, <<LB - 1, LB - 1, 0, 0>>}
            ELSE {F0, F1, <<LB - 1, LB - 1, 0, 0>>, <<0, LB \div 2, 0, 0>>, <<0, 1, 0, 0>>, <<51966, 47806, 0, 0>>}
Bin == {"overflowing_add", "wrapping_add", "overflowing_sub", "wrapping_sub", "overflowing_mul", "wrapping_mul",
        "div", "mod", "divmod", "lt", "gt", "lte", "gte", "eq", "neq", "min", "max", "and", "or", "xor"}
Un == {"eqz", "clz", "ctz", "clo", "cto"}
Sh == {"shl", "shr", "rotl", "rotr"}
ShVals == IF LEVEL = 1 THEN {<<F0, F1>>, <<<<LB - 1, LB - 1, 0, 0>>, <<LB - 1, LB - 1, 0, 0>>>>, <<<<51966, 47806, 0, 0>>, <<1, 32768, 0, 0>>>>}
          ELSE {<<h, l>> : h \in LimbVals, l \in LimbVals}
U256Pat == \* limb patterns for u256 operands (8 limbs, most significant first)
  LET all(v) == [i \in 1 .. 8 |-> v]
      mx == <<LB - 1, LB - 1, 0, 0>>
  IN {all(F0), all(F1), all(mx), [i \in 1 .. 8 |-> IF i = 8 THEN F1 ELSE F0], [i \in 1 .. 8 |-> IF i = 1 THEN mx ELSE F0],
      [i \in 1 .. 8 |-> IF i % 2 = 0 THEN mx ELSE F1], [i \in 1 .. 8 |-> <<(i * 7919) % LB, (i * 104729) % LB, 0, 0>>]}
Bin256 == {"add_unsafe", "sub_unsafe", "mul_unsafe", "and", "or", "xor", "eq_unsafe"}

Cases ==
  {[mod |-> "u64", proc |-> p, args |-> <<bh, bl, ah, al>>] : p \in Bin, bh \in LimbVals, bl \in LimbVals, ah \in LimbVals, al \in LimbVals}
  \cup {[mod |-> "u64", proc |-> p, args |-> <<h, l>>] : p \in Un, h \in LimbVals, l \in LimbVals}
  \cup {[mod |-> "u64", proc |-> p, args |-> <<Small(s), v[1], v[2]>>] : p \in Sh, s \in 0 .. 63, v \in ShVals}
  \cup {[mod |-> "u256", proc |-> p, args |-> b \o a] : p \in Bin256, a \in U256Pat, b \in U256Pat}
  \cup {[mod |-> "u256", proc |-> "iszero_unsafe", args |-> a] : a \in U256Pat}

Expect(c) == IF c.mod = "u256" THEN Call256(c.proc, c.args)
             ELSE IF c.proc \in Sh THEN Shift64(c.proc, c.args) ELSE Call64(c.proc, c.args)

\* cases are spread over shards by a cheap hash of the arguments
Hash(c) == LET RECURSIVE H(_)
               H(i) == IF i > Len(c.args) THEN 0 ELSE (c.args[i][1] + 3 * c.args[i][2] + 7 * i + 31 * H(i + 1)) % 9973
           IN H(1)
Init == phase = "init" /\ sc \in {c \in Cases : Hash(c) % NSHARDS = SHARD}
Next == /\ phase = "init" /\ phase' = "done" /\ sc' = sc
        /\ PrintT(ToJson([tag |-> "u64", mod |-> sc.mod, proc |-> sc.proc, args |-> sc.args, expect |-> Expect(sc)]))
=============================================================================
