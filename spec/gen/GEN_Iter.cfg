CONSTANTS T = 3  MaxLen = 7
INIT Init
NEXT Next
INVARIANTS InRange ReportedInRange Adjacent Emit
CHECK_DEADLOCK FALSE
