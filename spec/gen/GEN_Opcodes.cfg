
