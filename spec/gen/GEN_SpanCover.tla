--------------------------- MODULE GEN_SpanCover ---------------------------
(* Covering set of span patterns for C08 / C13: the batching rules of SpanBatch.tla form an automaton whose state is
   the shape of the batch under construction (which groups hold operations / an immediate / nothing, how many
   operations each holds, which group is current) together with the number of batches closed so far and the size of
   the previous batch.  TLC explores this automaton breadth-first with that shape as VIEW, so every reachable shape
   is visited once through a shortest operation sequence, and for every (shape, kind of next operation) the sequence
   is emitted.  The emitted set therefore exercises every transition of the batching rules - including batches closed
   with fewer than B groups, immediates moved to the next batch, groups closed at G - 1 operations - up to NB batches. *)
EXTENDS Naturals, Sequences, TLC, Json
CONSTANTS NB, FINE, FULL      \* FULL: emit the batching the specification assigns (C08) instead of the pattern only (C13); number of batches explored; FINE = 0: the view is what the rules depend on; 1: also which groups are immediates; 2: also per-group operation counts
HB == 256
G == 9
B == 8
INSTANCE SpanBatch
INSTANCE Opcodes
VARIABLES ops, bt, nb, prev     \* pattern, batch under construction, batches closed so far, groups of the last closed batch

ImmAt(i) == <<(i * 7919) % LB, (i * 104729) % LB, (i * 31) % LB, (i * 17) % (LB - 1)>>
PushAt(i) == [c |-> 100, imm |-> <<ImmAt(i)>>]
SpanCodes == LET t == SelectSeq(OpTable, LAMBDA e : e[1] \notin ControlOps) IN [i \in 1 .. Len(t) |-> t[i][2]]
PlainCodes == SelectSeq(SpanCodes, LAMBDA c : c # 100 /\ c # 0)
PlainAt(i) == [c |-> PlainCodes[1 + ((i * 5) % Len(PlainCodes))], imm |-> <<>>]
Scenario(os) ==
  LET bs == Batches(os) IN
  [tag |-> "span", cover |-> 1,
   pat |-> [i \in 1 .. Len(os) |-> IF HasImm(os[i]) THEN 1 ELSE 0],
   ops |-> [i \in 1 .. Len(os) |-> [c |-> os[i].c, imm |-> os[i].imm]],
   batches |-> [i \in 1 .. Len(bs) |-> [groups |-> GroupValues(bs[i]), counts |-> OpCounts(bs[i]), ng |-> NumGroups(bs[i]),
                                        ops |-> [j \in 1 .. Len(bs[i].ops) |-> bs[i].ops[j].c]]],
   gc |-> GroupCount(bs)]

Kinds(b) == [i \in 1 .. B |-> b.groups[i].kind]
Shape == CASE FINE = 2 -> <<nb, prev, bt.cur, bt.nxt, Kinds(bt), OpCounts(bt)>>
           [] FINE = 1 -> <<nb, prev, bt.cur, bt.nxt, CurLen(bt), Kinds(bt)>>
           [] OTHER -> <<nb, prev, bt.cur, bt.nxt, CurLen(bt)>>

Step(o) == /\ ops' = Append(ops, o)
           /\ IF Fits(bt, o) THEN bt' = Add(bt, o) /\ nb' = nb /\ prev' = prev
              ELSE bt' = Add(EmptyBatch, o) /\ nb' = nb + 1 /\ prev' = NumGroups(bt)
Init == ops = <<>> /\ bt = EmptyBatch /\ nb = 0 /\ prev = 0
Next == /\ nb < NB
        /\ \E k \in {"p", "o"} : Step(IF k = "p" THEN PushAt(Len(ops) + 1) ELSE PlainAt(Len(ops) + 1))
        /\ nb' < NB => PrintT(ToJson(IF FULL THEN Scenario(ops') ELSE [tag |-> "span", pat |-> [i \in 1 .. Len(ops') |-> IF HasImm(ops'[i]) THEN 1 ELSE 0]]))
=============================================================================
