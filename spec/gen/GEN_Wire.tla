------------------------------ MODULE GEN_Wire ------------------------------
(* Byte strings for the small containers: declared counts x element encodings (0, 1, p-1, p, 2^64-1) x truncation
   at every byte of the tail x trailing bytes; each with the outcome Wire!Decode prescribes.  The model's own
   properties (ReEncode, PrefixesRejected) are invariants of the generator. *)
EXTENDS Naturals, Sequences, TLC, Json
CONSTANTS CONTAINER, LEVEL
HB == 256
INSTANCE Wire
VARIABLES phase, sc
ElemVals == IF LEVEL = 1 THEN {F1, FNeg1, PLimbs} ELSE {F0, F1, FNeg1, PLimbs, <<LB - 1, LB - 1, LB - 1, LB - 1>>}
\* element lists for one section: 0, 1 or 2 items (per elements each, the varied element first)
Items(per) == {<<>>} \cup {<<e>> \o [i \in 1 .. per - 1 |-> F1] : e \in ElemVals}
              \cup {(<<e>> \o [i \in 1 .. per - 1 |-> F1]) \o (<<f>> \o [i \in 1 .. per - 1 |-> F0]) : e \in {F1, PLimbs}, f \in ElemVals}
Declared(n) == {n, n + 1, 17} \cup (IF n > 0 THEN {n - 1} ELSE {})
F == Fmt(CONTAINER)
SecBytes(sec, els, decl) == (IF sec.prefix = 4 THEN U32Bytes(decl) ELSE IF sec.prefix = 2 THEN U16Bytes(decl) ELSE <<>>)
                            \o Concat([i \in 1 .. Len(els) |-> ElemBytes(els[i])])
Strings ==
  IF Len(F) = 1
    THEN UNION {{SecBytes(F[1], els, d) : d \in Declared(Len(els) \div F[1].per)} : els \in Items(F[1].per)}
    ELSE UNION {UNION {{SecBytes(F[1], e1, IF F[1].prefix = 0 THEN 0 ELSE d1) \o SecBytes(F[2], e2, d2)
                          : d1 \in (IF F[1].prefix = 0 THEN {0} ELSE Declared(Len(e1) \div F[1].per)), d2 \in Declared(Len(e2) \div F[2].per)}
                       : e2 \in Items(F[2].per)}
                : e1 \in (IF F[1].prefix = 0 THEN {[i \in 1 .. 4 |-> F1], <<PLimbs, F1, F1, F1>>} ELSE Items(F[1].per))}
Cuts(b) == (IF LEVEL = 1 THEN {0, 1, 8} ELSE {0, 1, 2, 3, 7, 8, 9}) \cap (0 .. Len(b))
Init == phase = "init" /\ \E b \in Strings : \E c \in Cuts(b) : \E t \in {0, 1} : sc = SubSeq(b, 1, Len(b) - c) \o [i \in 1 .. t |-> 1]
Next == /\ phase = "init" /\ phase' = "done" /\ sc' = sc
        /\ \E d \in {Decode(F, sc)} :
             PrintT(ToJson([tag |-> "wire", type |-> CONTAINER, bytes |-> sc, ok |-> d.ok, used |-> IF d.ok THEN d.used ELSE 0]))
\* canonical-field-element verdicts for the integer constructors (values as limbs)
CtorVals == {F0, F1, <<LB - 1, LB - 1, 0, 0>>, <<0, 0, 1, 0>>, FNeg1, PLimbs, <<2, 0, LB - 1, LB - 1>>, <<0, 0, 0, LB - 1>>, <<LB - 1, LB - 1, LB - 1, LB - 1>>}
ASSUME PrintT(ToJson([tag |-> "canon", vals |-> [v \in CtorVals |-> NatLt(v, PLimbs)]]))
ModelReEncode == ReEncode(F, sc)
ModelPrefixes == PrefixesRejected(F, sc)
=============================================================================
