---------------------------- MODULE GEN_WirePath ----------------------------
(* Byte strings for the LibraryPath decoder (C19): every sequence of at most N tokens over the alphabet of path syntax -
   the special names, the delimiter and a lone colon, letters, a digit, '_', '#', a two-byte character, a byte that is
   never valid UTF-8 - with a declared length that is exact, one short (cutting the text) or one long, and components /
   paths at their length limits; each with the outcome Wire!DecodePath prescribes. *)
EXTENDS Naturals, Sequences, TLC, Json
CONSTANTS N
HB == 256
INSTANCE Wire
VARIABLES phase, sc
Tokens == {SysName, ExecName, <<58, 58>>, <<58>>, <<97>>, <<90, 98>>, <<95>>, <<55>>, <<35>>, <<195, 169>>, <<255>>}
TokSeqs == UNION {[1 .. n -> Tokens] : n \in 0 .. N}
Text(ts) == Concat([i \in 1 .. Len(ts) |-> ts[i]])
Rep(c, n) == [i \in 1 .. n |-> c]
Long == {Rep(97, 255), Rep(97, 256), Rep(97, 255) \o <<58, 58>> \o Rep(98, 255),
         SysName \o <<58, 58>> \o Rep(97, 255), SysName \o <<58, 58>> \o Rep(97, 256),
         Rep(97, 255) \o <<58, 58>> \o Rep(97, 255) \o <<58, 58>> \o Rep(97, 255) \o <<58, 58>> \o Rep(97, 252),     \* 1023 bytes
         Rep(97, 255) \o <<58, 58>> \o Rep(97, 255) \o <<58, 58>> \o Rep(97, 255) \o <<58, 58>> \o Rep(97, 253)}     \* 1024 bytes
\* a two-byte character placed around the length limits of a component (255) and of the path (1023)
Wide == {Rep(97, k) \o <<195, 169>> \o Rep(97, j) : k \in 1019 .. 1024, j \in 0 .. 2} \cup {Rep(97, k) \o <<195, 169>> \o Rep(98, j) : k \in 252 .. 256, j \in 0 .. 1}
Texts == {Text([i \in 1 .. Len(ts) |-> ts[i]]) : ts \in TokSeqs} \cup Long \cup Wide
Declared(n) == {n, n + 1} \cup (IF n > 0 THEN {n - 1} ELSE {})
Init == phase = "init" /\ \E t \in Texts : \E d \in Declared(Len(t)) : sc = U16Bytes(d) \o t
Next == /\ phase = "init" /\ phase' = "done" /\ sc' = sc
        /\ \E d \in {DecodePath(sc)} :
             PrintT(ToJson([tag |-> "wire", type |-> "LibraryPath", bytes |-> sc, ok |-> d.ok, used |-> IF d.ok THEN d.used ELSE 0]))
\* the model's own property: an accepted text re-encodes to the consumed prefix
ModelReEncode == LET d == DecodePath(sc) IN d.ok => DecodePath(SubSeq(sc, 1, d.used)) = d
=============================================================================
