------------------------------ MODULE GEN_Hints ------------------------------
(***************************************************************************)
(* Scenario generator for C09.  kind "count": u32clz/ctz/clo/cto/ilog2 x    *)
(* operand x hint (every value 0..65 and large values, or the honest host). *)
(* kind "ext2": ext2inv / ext2div x operand x candidate inverse.  kind      *)
(* "u64div": std::math::u64::{div,mod,divmod} x (a, b) x candidate (q, r)   *)
(* incl. every candidate with q*b + r = a modulo 2^64.  kind "adv": order   *)
(* of adv_push.n / adv_loadw / adv_pipe.  kind "merkle": abstract openings. *)
(* Each scenario carries the result the reference prescribes.               *)
(***************************************************************************)
EXTENDS Naturals, Sequences, FiniteSets, TLC, Json
CONSTANTS KIND, LEVEL, SHARD, NSHARDS
HB == 256
INSTANCE Hints
M == INSTANCE Masm
VARIABLES phase, sc

I0(op) == [op |-> op, p |-> 0, imm |-> <<>>, err |-> 0, form |-> "dec"]
VU == <<LB - 1, LB - 1, 0, 0>>
V31 == <<0, LB \div 2, 0, 0>>
VP == <<0, 0, 1, 0>>
St(stack) == [stack |-> M!Norm(stack), mem |-> <<>>, adv |-> <<>>]
Exp(r) == IF r.ok = "ok" THEN [ok |-> "ok", stack |-> r.st.stack] ELSE [ok |-> "fail"]

\* ---- count family
CountOps == {"u32clz", "u32ctz", "u32clo", "u32cto", "ilog2"}
\* thorough tier (LEVEL = 2): every power of two, its predecessor and its successor
P2F(k) == [i \in 1 .. 4 |-> IF i = (k \div 16) + 1 THEN 2 ^ (k % 16) ELSE 0]
P2M1(k) == [i \in 1 .. 4 |-> IF i < (k \div 16) + 1 THEN LB - 1 ELSE IF i = (k \div 16) + 1 THEN 2 ^ (k % 16) - 1 ELSE 0]
MoreArgs(maxbit) == IF LEVEL = 1 THEN {} ELSE {P2F(k) : k \in 0 .. maxbit} \cup {P2M1(k) : k \in 1 .. maxbit} \cup {[P2F(k) EXCEPT ![1] = @ + 1] : k \in 1 .. maxbit}
CountArgs(op) == IF op = "ilog2" THEN {F0, F1, F2, Small(3), V31, VU, VP, <<1, 0, 1, 0>>, FNeg1, <<0, 0, 0, 32768>>} \cup MoreArgs(63)
                 ELSE {F0, F1, F2, Small(6), <<0, 1, 0, 0>>, <<65535, 0, 0, 0>>, V31, <<65535, 32767, 0, 0>>, VU, <<65534, 65535, 0, 0>>, <<0, 65535, 0, 0>>} \cup MoreArgs(32)
HintVals == {Small(h) : h \in 0 .. 65} \cup {VU, VP, FNeg1, <<0, 0, 0, 1>>}
InjOf(op) == CASE op = "u32clz" -> "U32Clz" [] op = "u32ctz" -> "U32Ctz" [] op = "u32clo" -> "U32Clo" [] op = "u32cto" -> "U32Cto" [] op = "ilog2" -> "ILog2"
CountCases == UNION {{[kind |-> "count", op |-> op, arg |-> a, honest |-> TRUE, hint |-> <<>>] : a \in CountArgs(op)}
                       \cup {[kind |-> "count", op |-> op, arg |-> a, honest |-> FALSE, hint |-> <<h>>] : a \in CountArgs(op), h \in HintVals} : op \in CountOps}

\* ---- ext2
E2Args == {<<F1, F0>>, <<F0, F1>>, <<F2, Small(3)>>, <<FNeg1, FNeg1>>, <<VP, VU>>, <<F0, F0>>, <<<<4660, 22136, 36882, 43981>>, <<7, 0, 0, 1>>>>}
          \cup (IF LEVEL = 1 THEN {} ELSE {<<FNeg1, F0>>, <<F0, FNeg1>>, <<F1, F1>>, <<F2, FNeg1>>, <<VU, VP>>, <<<<1, 0, 65535, 65535>>, <<0, 0, 65535, 65535>>>>, <<Small(3), F2>>})
E2Hints(a) == LET h == IF a = M!E2Zero THEN <<F0, F0>> ELSE M!E2Inv(a) IN
              {<<FAdd(h[1], F1), h[2]>>, <<h[1], FAdd(h[2], F1)>>, <<h[2], h[1]>>, <<F0, F0>>, <<F1, F0>>, a, <<FNeg(h[1]), FNeg(h[2])>>, h}
E2Cases == {[kind |-> "ext2", op |-> op, a |-> a, b |-> b, honest |-> TRUE, hint |-> <<>>] : op \in {"ext2inv", "ext2div"}, a \in E2Args, b \in {<<F2, F1>>, <<F0, F0>>}}
           \cup UNION {{[kind |-> "ext2", op |-> op, a |-> a, b |-> <<F2, F1>>, honest |-> FALSE, hint |-> h] : op \in {"ext2inv", "ext2div"}, h \in E2Hints(a)} : a \in E2Args}

\* ---- u64 division: a, b as 4-limb naturals; candidate (q', r') with q' * b + r' = a (mod 2^64) and others
N64(hi, lo) == <<lo % LB, lo \div LB, hi % LB, hi \div LB>>       \* from two small integers (each < 2^31)... limbs directly below
DivA == {<<7, 0, 0, 0>>, <<0, 0, 0, 0>>, <<65535, 65535, 65535, 65535>>, <<1, 0, 1, 0>>, <<0, 0, 0, 32768>>, <<4660, 22136, 36882, 43981>>}
        \cup (IF LEVEL = 1 THEN {} ELSE {<<65535, 65535, 0, 0>>, <<0, 0, 1, 0>>, <<65534, 65535, 65535, 65535>>, <<0, 0, 65535, 65535>>, <<1, 0, 0, 32768>>, <<43981, 4660, 1, 0>>})
DivB == {<<1, 0, 0, 0>>, <<3, 0, 0, 0>>, <<65535, 65535, 0, 0>>, <<0, 0, 1, 0>>, <<0, 0, 256, 0>>, <<0, 0, 0, 1>>, <<0, 0, 0, 32768>>, <<65535, 65535, 65535, 65535>>, <<1, 0, 1, 0>>}
        \cup (IF LEVEL = 1 THEN {} ELSE {<<2, 0, 0, 0>>, <<65535, 0, 0, 0>>, <<0, 1, 0, 0>>, <<65535, 65535, 1, 0>>, <<0, 0, 65535, 65535>>, <<7, 0, 0, 32768>>, <<65535, 65535, 65535, 32767>>})
One64 == <<1, 0, 0, 0>>
QDelta == {NPow2(j, 4) : j \in {0, 1, 16, 31, 32, 33, 40, 48, 56, 63}}
Cand(a, b) ==
  LET qr == NDivMod(a, b)  q == qr[1]  r == qr[2]
      qs == {q} \cup {NTrunc(NAdd(q, d), 4) : d \in QDelta} \cup {NSub(q, One64)[1]}
      fit(q2) == NSub(a, NTrunc(NMul(q2, b), 4))[1]           \* r' with q2 * b + r' = a (mod 2^64)
  IN {<<q2, fit(q2)>> : q2 \in qs} \cup {<<q, NTrunc(NAdd(r, b), 4)>>, <<q, NZero(4)>>, <<NZero(4), a>>, <<r, q>>}
DivCases == {[kind |-> "u64div", op |-> op, a |-> a, b |-> b, honest |-> TRUE, hint |-> <<>>] : op \in {"div", "mod", "divmod"}, a \in DivA, b \in DivB \cup {NZero(4)}}
            \cup UNION {{[kind |-> "u64div", op |-> op, a |-> ab[1], b |-> ab[2], honest |-> FALSE, hint |-> h] : op \in {"div", "mod", "divmod"}, h \in Cand(ab[1], ab[2])} : ab \in DivA \X DivB}

\* ---- order of values popped from the advice stack
Tape == [i \in 1 .. 20 |-> <<100 + i, i, 0, 0>>]
AdvProgs == {<<[I0("adv_push") EXCEPT !.p = n]>> : n \in 1 .. 16}
            \cup {<<I0("adv_loadw")>>, <<I0("adv_loadw"), I0("adv_loadw")>>, <<[I0("adv_push") EXCEPT !.p = 3], I0("adv_loadw")>>}
            \cup {<<I0("adv_pipe"), I0("padw"), [I0("mem_loadw") EXCEPT !.imm = <<a>>], I0("padw"), [I0("mem_loadw") EXCEPT !.imm = <<FAdd(a, F1)>>]>> : a \in {Small(0), Small(7), <<65533, 65535, 0, 0>>}}
            \cup {<<I0("adv_pipe"), I0("adv_pipe"), I0("padw"), [I0("mem_loadw") EXCEPT !.imm = <<Small(9)>>]>>}
AdvCases == {[kind |-> "adv", prog |-> pr, tapelen |-> n] : pr \in AdvProgs, n \in {20, 7, 3}}
RECURSIVE RunSeq(_, _, _)
RunSeq(st, pr, i) == IF i > Len(pr) THEN [ok |-> "ok", st |-> st]
                     ELSE LET r == M!Apply(st, pr[i]) IN IF r.ok = "ok" THEN RunSeq(r.st, pr, i + 1) ELSE r
AdvInit(pr) == [i \in 1 .. 14 |-> IF i = 13 THEN (IF Len(pr) >= 3 /\ pr[3].op = "mem_loadw" THEN pr[3].imm[1] ELSE Small(9)) ELSE Small(50 + i)]

\* ---- Merkle openings on abstract trees (hash = injective constructor): which host answers are accepted
\* tree depth D, leaves 1 .. 2^D ; op on node (d, i); host answers with node value of (nd, ni) and the path given by `lie`
Pow2(n) == IF n = 0 THEN 1 ELSE IF n = 1 THEN 2 ELSE IF n = 2 THEN 4 ELSE 8
Leaves(D) == [k \in 1 .. Pow2(D) |-> k]
LiePath(D, lie) ==
  LET hp == PathOf(Leaves(D), D, lie.d, lie.i) IN
  CASE lie.kind = "path_of" -> hp
    [] lie.kind = "flip" -> [hp EXCEPT ![1 + (lie.level % Len(hp))] = <<"flipped", @>>]
    [] lie.kind = "truncate" -> SubSeq(hp, 1, Len(hp) - 1)
    [] lie.kind = "extend" -> Append(hp, hp[1])
    [] lie.kind = "reverse" -> [k \in 1 .. Len(hp) |-> hp[Len(hp) + 1 - k]]
    [] lie.kind = "empty" -> <<>>
Lies(D, d, i) ==
  {[kind |-> k, d |-> d, i |-> i, level |-> l] : k \in {"flip"}, l \in 0 .. d - 1}
  \cup {[kind |-> k, d |-> d, i |-> i, level |-> 0] : k \in {"truncate", "extend", "reverse", "empty"}}
  \cup UNION {{[kind |-> "path_of", d |-> d2, i |-> i2, level |-> 0] : i2 \in {i, (i + 1) % Pow2(d2), i \div 2} \cap (0 .. Pow2(d2) - 1)} : d2 \in 1 .. D}
MerkleCases ==
  UNION {UNION {
     {[kind |-> "merkle", op |-> op, D |-> D, d |-> d, i |-> i, honest |-> TRUE, lie |-> [kind |-> "none", d |-> d, i |-> i, level |-> 0], node |-> <<d, i>>, claim |-> <<d, i>>]
        : op \in {"mtree_get", "mtree_verify", "mtree_set"}}
     \* honest host, but the program claims another node's value (mtree_verify only)
     \cup {[kind |-> "merkle", op |-> "mtree_verify", D |-> D, d |-> d, i |-> i, honest |-> TRUE, lie |-> [kind |-> "none", d |-> d, i |-> i, level |-> 0], node |-> <<d, i>>, claim |-> <<d, (i + 1) % Pow2(d)>>]}
     \* dishonest paths; for mtree_get the host may also substitute the node it returns
     \cup {[kind |-> "merkle", op |-> op, D |-> D, d |-> d, i |-> i, honest |-> FALSE, lie |-> l, node |-> <<d, i>>, claim |-> <<d, i>>]
        : op \in {"mtree_get", "mtree_verify", "mtree_set"}, l \in Lies(D, d, i)}
     \cup {[kind |-> "merkle", op |-> "mtree_get", D |-> D, d |-> d, i |-> i, honest |-> FALSE, lie |-> l, node |-> <<l.d, l.i>>, claim |-> <<d, i>>]
        : l \in {x \in Lies(D, d, i) : x.kind = "path_of"}}
     : i \in 0 .. Pow2(d) - 1} : D \in 1 .. 3, d \in 1 .. 3} 
MerkleOK(c) == c.d <= c.D
\* outcome by the abstract model: the value the VM works with is the node the host returned (get) / the claimed node (verify, set)
MerkleExpect(c) ==
  LET lv == Leaves(c.D)
      root == NodeTerm(lv, c.D, 0, 0)
      v == IF c.op = "mtree_get" THEN NodeTerm(lv, c.D, c.node[1], c.node[2]) ELSE NodeTerm(lv, c.D, c.claim[1], c.claim[2])
      p == IF c.lie.kind = "none" THEN PathOf(lv, c.D, c.d, c.i) ELSE LiePath(c.D, c.lie)
  IN IF Opens(v, c.d, c.i, root, p) /\ v = NodeTerm(lv, c.D, c.d, c.i) THEN "ok" ELSE "fail"

Cases == IF KIND = "merkle" THEN {c \in MerkleCases : MerkleOK(c)} ELSE IF KIND = "adv" THEN AdvCases ELSE IF KIND = "count" THEN CountCases ELSE IF KIND = "ext2" THEN E2Cases ELSE DivCases

U64Arg(n) == <<<<n[3], n[4], 0, 0>>, <<n[1], n[2], 0, 0>>>>          \* [hi, lo]
Scenario(c) ==
  IF c.kind = "merkle"
    THEN [tag |-> "hint", kind |-> "merkle", op |-> c.op, D |-> c.D, d |-> c.d, i |-> c.i, honest |-> c.honest, lie |-> c.lie,
          node |-> c.node, claim |-> c.claim, expect |-> [ok |-> MerkleExpect(c)]]
  ELSE IF c.kind = "adv"
    THEN LET init == AdvInit(c.prog)
             tape == SubSeq(Tape, 1, c.tapelen)
         IN [tag |-> "hint", kind |-> "adv", prog |-> c.prog, stdlib |-> FALSE, init |-> init, honest |-> TRUE, inj |-> "", lie |-> <<>>, adv |-> tape,
             expect |-> Exp(RunSeq([stack |-> M!Norm(init), mem |-> <<>>, adv |-> tape], c.prog, 1))]
  ELSE IF c.kind = "count"
    THEN [tag |-> "hint", kind |-> c.kind, prog |-> <<I0(c.op)>>, stdlib |-> FALSE, init |-> <<c.arg>>, honest |-> c.honest,
          inj |-> InjOf(c.op), lie |-> c.hint, expect |-> Exp(M!Apply(St(<<c.arg>>), I0(c.op)))]
  ELSE IF c.kind = "ext2"
    THEN LET init == IF c.op = "ext2inv" THEN <<c.a[2], c.a[1]>> ELSE <<c.a[2], c.a[1], c.b[2], c.b[1]>>
         IN [tag |-> "hint", kind |-> c.kind, prog |-> <<I0(c.op)>>, stdlib |-> FALSE, init |-> init, honest |-> c.honest,
             inj |-> "Ext2Inv", lie |-> c.hint, expect |-> Exp(M!Apply(St(init), I0(c.op)))]
  ELSE LET init == U64Arg(c.b) \o U64Arg(c.a)
           r == Call64(c.op, init)
           \* advice stack order of the U64Div injector: [q_lo, q_hi, r_lo, r_hi]
           lie == IF c.honest THEN <<>> ELSE <<<<c.hint[1][1], c.hint[1][2], 0, 0>>, <<c.hint[1][3], c.hint[1][4], 0, 0>>,
                                                 <<c.hint[2][1], c.hint[2][2], 0, 0>>, <<c.hint[2][3], c.hint[2][4], 0, 0>>>>
       IN [tag |-> "hint", kind |-> c.kind, prog |-> <<[I0("exec") EXCEPT !.form = "u64::" \o c.op]>>, stdlib |-> TRUE, init |-> init, honest |-> c.honest,
           inj |-> "U64Div", lie |-> lie,
           expect |-> IF r.ok = "ok" THEN [ok |-> "ok", stack |-> M!Norm(r.out)] ELSE [ok |-> "fail"]]

Hash(c) == IF c.kind = "merkle" THEN (c.D + 3 * c.d + 7 * c.i + c.lie.d + c.lie.i + c.lie.level) % 997 ELSE IF c.kind = "adv" THEN (Len(c.prog) + c.prog[1].p + c.tapelen) % 997 ELSE IF c.kind = "count" THEN (c.arg[1] + 7 * c.arg[2] + (IF c.hint = <<>> THEN 3 ELSE c.hint[1][1])) % 997
           ELSE IF c.kind = "ext2" THEN (c.a[1][1] + 3 * c.a[2][1] + (IF c.hint = <<>> THEN 5 ELSE c.hint[1][1] + c.hint[2][2])) % 997
           ELSE (c.a[1] + 3 * c.b[3] + 5 * c.b[1] + (IF c.hint = <<>> THEN 5 ELSE c.hint[1][1] + c.hint[1][4] + c.hint[2][2])) % 997
Init == phase = "init" /\ sc \in {c \in Cases : Hash(c) % NSHARDS = SHARD}
Next == /\ phase = "init" /\ phase' = "done" /\ sc' = sc
        /\ PrintT(ToJson(Scenario(sc)))
=============================================================================
