---------------------------- MODULE GEN_Opcodes ----------------------------
EXTENDS Naturals, Sequences, TLC, Json, Opcodes
ASSUME PrintT(ToJson([tag |-> "opcodes",
   ops |-> [i \in 1 .. Len(OpTable) |-> [name |-> OpTable[i][1], code |-> OpTable[i][2],
                                         imm |-> OpTable[i][1] \in ImmOpNames, control |-> OpTable[i][1] \in ControlOps]]]))
=============================================================================
