------------------------------ MODULE GEN_Iter ------------------------------
(* every Next/Back word up to length MaxLen, with the rows the cursor model reports *)
EXTENDS StepIter, TLC, Json
Emit == Len(word) >= 1 => PrintT(ToJson([tag |-> "iter", word |-> word, rows |-> reported]))
=============================================================================
