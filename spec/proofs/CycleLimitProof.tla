-------------------------- MODULE CycleLimitProof --------------------------
(***************************************************************************)
(* Unbounded proof (TLAPS) that the cycle-limit model keeps its safety      *)
(* properties for every program length and every limit, not only for the   *)
(* small sets TLC enumerates: IndInv is inductive and implies               *)
(* NeverPassesLimit and Exact.                                             *)
(***************************************************************************)
EXTENDS CycleLimit, TLAPS

ASSUME Assumptions == NeedSet \subseteq Nat /\ MaxSet \subseteq Nat /\ Infinite \in Nat

TypeOK == need \in Nat /\ max \in Nat /\ clk \in Nat /\ status \in {"run", "halted", "cycle_limit"}
IndInv == /\ TypeOK
          /\ clk <= max
          /\ (need # Infinite => clk <= need)
          /\ (status = "halted" => need # Infinite /\ clk = need)
          /\ (status = "cycle_limit" => clk + 1 > max /\ (need = Infinite \/ clk < need))

LEMMA InitOK == Init => IndInv
  BY Assumptions DEF Init, IndInv, TypeOK

LEMMA StepOK == IndInv /\ [Next]_vars => IndInv'
  <1> SUFFICES ASSUME IndInv, [Next]_vars PROVE IndInv'
    OBVIOUS
  <1>1. CASE Step
    BY <1>1 DEF Step, IndInv, TypeOK
  <1>2. CASE Halt
    BY <1>2 DEF Halt, IndInv, TypeOK
  <1>3. CASE UNCHANGED vars
    BY <1>3 DEF vars, IndInv, TypeOK
  <1> QED
    BY <1>1, <1>2, <1>3 DEF Next

LEMMA Implies == IndInv => NeverPassesLimit /\ Exact
  BY DEF IndInv, TypeOK, NeverPassesLimit, Exact

THEOREM Safety == Init /\ [][Next]_vars => [](NeverPassesLimit /\ Exact)
  <1>1. Init /\ [][Next]_vars => []IndInv
    BY InitOK, StepOK, PTL
  <1> QED
    BY <1>1, Implies, PTL
=============================================================================
