------------------------------ MODULE MasmFlow ------------------------------
(***************************************************************************)
(* Structured control flow and procedure invocation of Miden assembly,     *)
(* written from docs/src/user_docs/assembly/flow_control.md and            *)
(* code_organization.md.                                                   *)
(*                                                                         *)
(* A body is a sequence of nodes; a node is one of                         *)
(*   [k |-> "ins",    ins |-> instruction record (Masm)]                   *)
(*   [k |-> "if",     t |-> body, e |-> body]     if.true .. else .. end   *)
(*   [k |-> "while",  b |-> body]                 while.true .. end        *)
(*   [k |-> "repeat", n |-> Nat, b |-> body]      repeat.n .. end          *)
(*   [k |-> "exec",   p |-> procedure index]      exec.<proc>              *)
(* Procedures: a sequence of [locals |-> Nat, body |-> body].              *)
(* State: Masm state extended with `loc` (the locals of the frame being    *)
(* executed: function index -> word; every exec gets a fresh one).         *)
(* Results are as in Masm (ok / fail / undef), plus "diverge" when the     *)
(* fuel bounding while-loops runs out (such scenarios are never judged).   *)
(***************************************************************************)
EXTENDS Masm

\* instruction step including procedure locals
ApplyL(st, ins) ==
  CASE ins.op = "loc_store" ->
         LET w == IF ins.p \in DOMAIN st.loc THEN st.loc[ins.p] ELSE ZeroWord
         IN [ok |-> "ok", st |-> [st EXCEPT !.stack = Norm(Rest(st.stack, 1)),
                                           !.loc = [i \in (DOMAIN st.loc) \cup {ins.p} |->
                                                      IF i = ins.p THEN <<At(st.stack, 0), w[2], w[3], w[4]>> ELSE st.loc[i]]]]
    [] ins.op = "loc_storew" ->
         [ok |-> "ok", st |-> [st EXCEPT !.loc = [i \in (DOMAIN st.loc) \cup {ins.p} |->
                                 IF i = ins.p THEN <<At(st.stack, 3), At(st.stack, 2), At(st.stack, 1), At(st.stack, 0)>> ELSE st.loc[i]]]]
    \* reading a local before writing it is "garbage" (io_operations.md): undefined
    [] ins.op = "loc_load" -> IF ins.p \notin DOMAIN st.loc THEN Undef
                              ELSE [ok |-> "ok", st |-> [st EXCEPT !.stack = <<st.loc[ins.p][1]>> \o st.stack]]
    [] ins.op = "loc_loadw" -> IF ins.p \notin DOMAIN st.loc THEN Undef
                               ELSE LET w == st.loc[ins.p] IN
                                    [ok |-> "ok", st |-> [st EXCEPT !.stack = <<w[4], w[3], w[2], w[1]>> \o Rest(st.stack, 4)]]
    [] OTHER -> LET r == Apply([stack |-> st.stack, mem |-> st.mem, adv |-> st.adv], ins)
                IN IF r.ok = "ok" THEN [ok |-> "ok", st |-> [st EXCEPT !.stack = r.st.stack, !.mem = r.st.mem, !.adv = r.st.adv]]
                   ELSE r

RECURSIVE RunBody(_, _, _, _, _), RunNode(_, _, _, _), RunWhile(_, _, _, _), RunRepeat(_, _, _, _, _)

\* pops the condition; result [ok, st, c] or failure
PopCond(st) ==
  LET c == At(st.stack, 0) IN
  IF ~IsBin(c) THEN Fail("NotBinary", 0)
  ELSE [ok |-> "ok", st |-> [st EXCEPT !.stack = Norm(Rest(st.stack, 1))], c |-> c]

RunBody(procs, body, i, st, fuel) ==
  IF i > Len(body) THEN [ok |-> "ok", st |-> st]
  ELSE LET r == RunNode(procs, body[i], st, fuel)
       IN IF r.ok = "ok" THEN RunBody(procs, body, i + 1, r.st, fuel) ELSE r

RunNode(procs, nd, st, fuel) ==
  CASE nd.k = "ins" -> ApplyL(st, nd.ins)
    [] nd.k = "if" -> LET p == PopCond(st) IN
                      IF p.ok # "ok" THEN p
                      ELSE IF p.c = F1 THEN RunBody(procs, nd.t, 1, p.st, fuel) ELSE RunBody(procs, nd.e, 1, p.st, fuel)
    [] nd.k = "while" -> RunWhile(procs, nd.b, st, fuel)
    [] nd.k = "repeat" -> RunRepeat(procs, nd.b, nd.n, st, fuel)
    [] nd.k = "exec" ->      \* the body in place, with its own (fresh) locals frame
         LET r == RunBody(procs, procs[nd.p].body, 1, [st EXCEPT !.loc = <<>>], fuel)
         IN IF r.ok = "ok" THEN [ok |-> "ok", st |-> [r.st EXCEPT !.loc = st.loc]] ELSE r

\* pop; if 1 run the body and test again; if 0 leave; otherwise fail
RunWhile(procs, b, st, fuel) ==
  LET p == PopCond(st) IN
  IF p.ok # "ok" THEN p
  ELSE IF p.c = F0 THEN [ok |-> "ok", st |-> p.st]
  ELSE IF fuel = 0 THEN [ok |-> "diverge"]
  ELSE LET r == RunBody(procs, b, 1, p.st, fuel - 1)
       IN IF r.ok = "ok" THEN RunWhile(procs, b, r.st, fuel - 1) ELSE r

RunRepeat(procs, b, n, st, fuel) ==
  IF n = 0 THEN [ok |-> "ok", st |-> st]
  ELSE LET r == RunBody(procs, b, 1, st, fuel) IN IF r.ok = "ok" THEN RunRepeat(procs, b, n - 1, r.st, fuel) ELSE r

Run(procs, main, st, fuel) == RunBody(procs, main, 1, st, fuel)

\* ---- laws (checked by MC_Flow on the specification itself) ----
\* repeat.n body  ==  n textual copies
RECURSIVE Copies(_, _)
Copies(b, n) == IF n = 0 THEN <<>> ELSE b \o Copies(b, n - 1)
\* exec.f == the body pasted (with a fresh frame, so only for procedures that do not touch locals)
=============================================================================
