---------------------------- MODULE AirEnforced ----------------------------
(***************************************************************************)
(* Which cells of a row pair the constraint system must pin down directly   *)
(* (C04), derived from the operation semantics of MidenVM.tla rather than   *)
(* listed by hand:                                                          *)
(*   a cell of the next row (stack positions s0..s15, depth b0, overflow    *)
(*   address b1, fmp) is *determined* by an operation in a depth regime if  *)
(*   its value is the same for all hidden states (stack below position 15,  *)
(*   overflow addresses below the top row, memory, advice / hasher results) *)
(*   - i.e. it is a function of the current row alone.  Every determined    *)
(*   cell must be enforced by a transition constraint, except the ones the  *)
(*   documentation routes through a bus (NotDirect).                        *)
(* Helper registers (docs/src/design/stack/u32_ops.md, field_ops.md): the   *)
(* limb relations below determine the helper limbs uniquely (checked in the *)
(* mini field), so a changed limb must violate a constraint.                *)
(* Control-flow rows are listed from docs/src/design/decoder/main.md and    *)
(* stack/op_constraints.md.                                                 *)
(***************************************************************************)
EXTENDS MidenVM, FiniteSets

SpanOps == {"NOOP", "ASSERT", "FMPADD", "FMPUPDATE", "SDEPTH", "CALLER", "CLK", "ADD", "NEG", "MUL", "INV", "INCR", "AND", "OR", "NOT", "EQ", "EQZ",
            "EXPACC", "EXT2MUL", "U32SPLIT", "U32ADD", "U32ADD3", "U32SUB", "U32MUL", "U32MADD", "U32DIV", "U32AND", "U32XOR", "U32ASSERT2",
            "PAD", "DROP", "DUP0", "DUP1", "DUP2", "DUP3", "DUP4", "DUP5", "DUP6", "DUP7", "DUP9", "DUP11", "DUP13", "DUP15",
            "SWAP", "SWAPW", "SWAPW2", "SWAPW3", "SWAPDW", "MOVUP2", "MOVUP3", "MOVUP4", "MOVUP5", "MOVUP6", "MOVUP7", "MOVUP8",
            "MOVDN2", "MOVDN3", "MOVDN4", "MOVDN5", "MOVDN6", "MOVDN7", "MOVDN8", "CSWAP", "CSWAPW", "PUSH", "ADVPOP", "ADVPOPW",
            "MLOADW", "MLOAD", "MSTOREW", "MSTORE", "MSTREAM", "PIPE", "HPERM", "MPVERIFY", "MRUPDATE"}

Cells == {"s0", "s1", "s2", "s3", "s4", "s5", "s6", "s7", "s8", "s9", "s10", "s11", "s12", "s13", "s14", "s15", "b0", "b1", "fmp"}
CellName(i) == CASE i = 0 -> "s0" [] i = 1 -> "s1" [] i = 2 -> "s2" [] i = 3 -> "s3" [] i = 4 -> "s4" [] i = 5 -> "s5" [] i = 6 -> "s6" [] i = 7 -> "s7"
                 [] i = 8 -> "s8" [] i = 9 -> "s9" [] i = 10 -> "s10" [] i = 11 -> "s11" [] i = 12 -> "s12" [] i = 13 -> "s13" [] i = 14 -> "s14" [] i = 15 -> "s15"
CellVal(v, c) == CASE c = "b0" -> Small(Len(v.stack)) [] c = "b1" -> B1(v) [] c = "fmp" -> v.fmp
                   [] OTHER -> LET i == CHOOSE j \in 0 .. 15 : CellName(j) = c IN v.stack[i + 1]

\* visible part of the machine (one row) and hidden completions of it
Regimes == {"d16", "d17", "deep"}
Top(k) == CASE k = 1 -> <<1, 0, 2, 3, 4, 5, 6, 7, 8, 9, 10, 11, 12, 13, 14, 15>>
            [] k = 2 -> <<1, 1, 5, 4, 7, 6, 9, 8, 11, 10, 13, 12, 15, 14, 3, 2>>
            [] k = 3 -> <<1, 3, 2, 1, 2, 7, 7, 6, 5, 4, 3, 2, 1, 0, 9, 8>>
TopF(k) == [i \in 1 .. 16 |-> Small(Top(k)[i])]
HiddenDeep(regime, j) == CASE regime = "d16" -> <<>>
                           [] regime = "d17" -> <<Small(3 + j)>>
                           [] regime = "deep" -> <<Small(3 + j), Small(9 - j)>>
\* overflow addresses: the top row's address is visible (column b1), the ones below are hidden
HiddenOvf(regime, j) == CASE regime = "d16" -> <<>>
                          [] regime = "d17" -> <<Small(2)>>
                          [] regime = "deep" -> <<Small(j), Small(2)>>
HiddenMem(j) == [k \in {<<0, Small(a)>> : a \in 0 .. 3} |-> <<Small(j), Small(j + 1), Small(2 * j), Small(3 * j + 1)>>]
HiddenEnv(j) == [next |-> [i \in 1 .. 16 |-> Small((i * (j + 2)) % 16)]]
Machine(k, regime, j) ==
  [clk |-> 5, ctx |-> 0, fmp |-> FmpMin, insys |-> 1, fh |-> <<Small(7), Small(8), Small(9), Small(10)>>,
   stack |-> TopF(k) \o HiddenDeep(regime, j), ovf |-> HiddenOvf(regime, j), mem |-> HiddenMem(j), hrows |-> 0, cs |-> <<>>,
   todo |-> [do |-> "cont"], lasth |-> Zero8]
OpRec(op) == [o |-> op, c |-> 0, imm |-> IF op = "PUSH" THEN <<Small(6)>> ELSE <<>>]

Outcome(op, k, regime, j) == ApplyOp(Machine(k, regime, j), OpRec(op), HiddenEnv(j))
RightShifting(op) == \E k \in 1 .. 3 : LET a == Outcome(op, k, "d16", 1) IN a.ok = "ok" /\ Len(a.vm.stack) > 16
\* cells that are a function of the current row but are enforced through a bus, not by a transition constraint
\* (stack/main.md constrains b1 only when the stack shifts right: b1' = clk; when it shifts left the new b1 comes out of the
\* overflow table; for operations that do not shift no constraint on b1 is documented)
NotDirect(op, regime) ==
  (IF op \in {"U32AND", "U32XOR"} THEN {"s0"} ELSE {})                 \* bitwise chiplet bus
  \cup (IF op = "PUSH" THEN {"s0"} ELSE {})                             \* the immediate value comes through the op group table
  \cup (IF ~RightShifting(op) THEN {"b1"} ELSE {})
  \cup (IF op # "FMPUPDATE" THEN {"fmp"} ELSE {})                       \* the documentation constrains fmp for FMPUPDATE only
  \cup (IF op = "CALLER" THEN Cells ELSE {})                            \* no constraints are documented for CALLER (system_ops.md has no section)

Determined(op, regime) ==
  {c \in Cells : \A k \in 1 .. 3 : \A j1, j2 \in 1 .. 3 :
      LET a == Outcome(op, k, regime, j1)  b == Outcome(op, k, regime, j2) IN
      (a.ok = "ok" /\ b.ok = "ok") => CellVal(a.vm, c) = CellVal(b.vm, c)}
\* vacuity guard: the operation must succeed on at least one visible state
Exercised(op, regime) == \E k \in 1 .. 3 : Outcome(op, k, regime, 1).ok = "ok"
LeftShifting(op, regime) == \E k \in 1 .. 3 : LET a == Outcome(op, k, "deep", 1) IN a.ok = "ok" /\ Len(a.vm.stack) < 18
\* the clock advances on every row (design/main.md); the depth helper hb = 1 / (b0 - 16) is used by rows that shift left
Enforced(op, regime) == (Determined(op, regime) \ NotDirect(op, regime)) \cup {"clk"}
                        \cup (IF regime # "d16" /\ LeftShifting(op, regime) THEN {"hb"} ELSE {})

\* operands the operation pins down: positions of the CURRENT row for which every other small value makes the operation
\* fail (field_ops.md: NOT / AND / OR "ensure that the value in s0 (and s1) is binary"; stack_ops.md: CSWAP / CSWAPW "enforce
\* that the value in s0 is binary"; system_ops.md: ASSERT "s0 = 1").  No next row is valid for such a current row, so the
\* constraint system must reject the pair whatever the next row holds: cells "c0", "c1", "c2".
WrongOperands == {Small(2), Small(3), Small(5)}
Pinned(op) ==
  {i \in 0 .. 2 : \A k \in 1 .. 3 : \A v \in WrongOperands :
      LET m == Machine(k, "d16", 1) IN
      ApplyOp([m EXCEPT !.stack[i + 1] = v], OpRec(op), HiddenEnv(1)).ok = "fail"}
PinnedCells(op) == {CASE i = 0 -> "c0" [] i = 1 -> "c1" [] i = 2 -> "c2" : i \in Pinned(op)}

\* ------------------------------------------------------------------------
\* helper registers of the current row (h0 .. of docs = decoder user-op helper columns)
\* limb relations of u32_ops.md, with L = 2^16 ; each returns TRUE iff <<h0,h1,h2,h3>> (all < L) are the operation's limbs
L == LB
LimbVal(h0, h1) == h1 * L + h0
HelperRel(op, a, b, c, r0, r1, h) ==            \* a = s0, b = s1, c = s2 (naturals), r0 = s0', r1 = s1' ; h : 4 naturals < L
  CASE op = "U32SPLIT" -> a = ((h[4] * L + h[3]) * L + h[2]) * L + h[1]
    [] op = "U32ASSERT2" -> r0 = LimbVal(h[3], h[4]) /\ r1 = LimbVal(h[1], h[2])
    [] op = "U32ADD" -> a + b = (h[3] * L + h[2]) * L + h[1] /\ h[4] = 0
    [] op = "U32ADD3" -> a + b + c = (h[3] * L + h[2]) * L + h[1] /\ h[4] = 0
    [] op = "U32SUB" -> r1 = LimbVal(h[1], h[2]) /\ h[3] = 0 /\ h[4] = 0
    [] op = "U32MUL" -> a * b = ((h[4] * L + h[3]) * L + h[2]) * L + h[1]
    [] op = "U32MADD" -> a * b + c = ((h[4] * L + h[3]) * L + h[2]) * L + h[1]
    [] op = "U32DIV" -> b - r1 = LimbVal(h[1], h[2]) /\ a - r0 - 1 = LimbVal(h[4], h[3])
U32HelperOps == {"U32SPLIT", "U32ASSERT2", "U32ADD", "U32ADD3", "U32SUB", "U32MUL", "U32MADD", "U32DIV"}
\* helper cells that a transition constraint must tie to the operands / results
\* (u32_ops.md: U32ADD / U32ADD3 "set h3 to 0" and U32SUB "sets h2, h3 to 0" without a constraint on those registers)
HelperCells(op) == IF op \in {"U32ADD", "U32ADD3"} THEN {"h0", "h1", "h2"}
                   ELSE IF op = "U32SUB" THEN {"h0", "h1"}
                   ELSE IF op \in U32HelperOps THEN {"h0", "h1", "h2", "h3"}
                   ELSE IF op = "EXPACC" THEN {"h0"}
                   ELSE IF op = "EQ" THEN {"h0?s0#s1"}             \* inverse of the difference: determined when the operands differ
                   ELSE IF op = "EQZ" THEN {"h0?s0#0"}
                   ELSE {}

\* ------------------------------------------------------------------------
\* control-flow rows: the stack part of their effect
CtlRows == {"JOIN", "SPLIT", "LOOP", "REPEAT", "SPAN", "RESPAN", "DYN", "CALL", "SYSCALL", "END", "END:loop", "END:call", "HALT"}
AllS == {CellName(i) : i \in 0 .. 15}
CtlEnforced(row, regime) ==
  {"clk"} \cup
  CASE row \in {"JOIN", "SPAN", "RESPAN", "DYN", "HALT", "END"} -> AllS \cup {"b0"}                       \* "stack remains unchanged"
    [] row \in {"SPLIT", "LOOP", "REPEAT", "END:loop"} ->                                                    \* "top stack element is dropped"
         {CellName(i) : i \in 0 .. 14} \cup {"b0"} \cup (IF regime = "d16" THEN {"s15"} ELSE {"hb"})
    [] row \in {"CALL", "SYSCALL"} -> AllS \cup {"b0"}                                                        \* unchanged; depth reset to 16
    [] row = "END:call" -> AllS                                                                               \* depth / b1 restored through the block stack table

\* ------------------------------------------------------------------------
\* chiplets and the range checker (docs/src/design/chiplets/{hasher,bitwise,memory}.md, range.md): cells of the next row
\* that the chiplet's own transition constraints tie to the current row / to the other cells of the next row
ChipEnforced ==
  [hasher |-> [round |-> {"st0", "st1", "st2", "st3", "st4", "st5", "st6", "st7", "st8", "st9", "st10", "st11"},   \* one RPO round per row
               boundary |-> {}],                                                                                        \* (next computation: selectors decide)
   bitwise |-> [inner |-> {"a", "b", "abit0", "abit1", "abit2", "abit3", "bbit0", "bbit1", "bbit2", "bbit3", "zp", "z"}, \* a' = 16 a + bits', z' = 16 zp' + op(bits'), zp' = z
                boundary |-> {"a", "b", "abit0", "abit1", "abit2", "abit3", "bbit0", "bbit1", "bbit2", "bbit3", "zp", "z"}], \* first row of a cycle: a' = bits', zp' = 0
   \* memory: the delta limbs d0, d1 and the inverse t are functions of (ctx, addr, clk) of both rows; a read of an address
   \* accessed before returns the old word, a read of a new address (same context or a new context) returns zeros
   \* (the inverse t' is free when neither the context nor the address changes: n0 = n1 = 0 for any t');
   \* the selector s1' is a function of the row pair: 1 exactly for a read of the same (context, address), 0 otherwise
   \* (memory.md: "s1 is always set to 1 during read operations when the context and address did not change and to 0 in
   \* all other cases")
   memory |-> [writesame |-> {"d0", "d1", "sel1"}, writenewaddr |-> {"d0", "d1", "dinv", "sel1"}, writenewctx |-> {"d0", "d1", "dinv", "sel1"},
               readsame |-> {"d0", "d1", "v0", "v1", "v2", "v3", "sel1"},
               readnewaddr |-> {"d0", "d1", "dinv", "v0", "v1", "v2", "v3", "sel1"},
               readnewctx |-> {"d0", "d1", "dinv", "v0", "v1", "v2", "v3", "sel1"}],
   range |-> [step |-> {"v"}]]                                                                                          \* v' - v is 0 or a power of three up to 3^7
=============================================================================
