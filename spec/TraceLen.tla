------------------------------ MODULE TraceLen ------------------------------
(* Padded trace length (C03): a power of two that accommodates the executed cycles followed by at least one HALT row
   (decoder/main.md: the decoder trace ends in HALT rows carrying the program hash), the range-checker table and all
   chiplet rows, plus one random row; at least MinLen; independent of any capacity hint. *)
EXTENDS Naturals
CONSTANT MinLen
RECURSIVE Pow2AtLeast(_, _)
Pow2AtLeast(n, p) == IF p >= n THEN p ELSE Pow2AtLeast(n, 2 * p)
Max3(a, b, c) == IF a >= b /\ a >= c THEN a ELSE IF b >= c THEN b ELSE c
Needed(main, range, chiplets) == Max3(main + 1, range, chiplets) + 1
\* the smallest admissible length (recorded for information; minimality is not part of the property)
Minimal(main, range, chiplets) == Pow2AtLeast(Needed(main, range, chiplets), MinLen)
IsPow2(n) == n >= 1 /\ Pow2AtLeast(n, 1) = n
Admissible(len, main, range, chiplets) == IsPow2(len) /\ len >= MinLen /\ len >= Needed(main, range, chiplets)
=============================================================================
