-------------------------------- MODULE Nat --------------------------------
(***************************************************************************)
(* Natural numbers of arbitrary width as little-endian sequences of limbs  *)
(* in base LB (Felt!LB).  Used for the 64-bit and 256-bit integer          *)
(* procedures of the standard library (C16): a u64 is 4 limbs, a u256 is   *)
(* 16 limbs.  All intermediate integers stay below 2^31.                   *)
(***************************************************************************)
EXTENDS U32

NZero(n) == [i \in 1 .. n |-> 0]
NPad(a, n) == [i \in 1 .. n |-> IF i <= Len(a) THEN a[i] ELSE 0]
NTrunc(a, n) == SubSeq(a, 1, n)

\* a + b (same length n) -> n + 1 limbs
RECURSIVE NAddFrom(_, _, _, _)
NAddFrom(a, b, i, c) == IF i > Len(a) THEN <<c>>
                        ELSE LET s == a[i] + b[i] + c IN <<s % LB>> \o NAddFrom(a, b, i + 1, s \div LB)
NAdd(a, b) == NAddFrom(a, b, 1, 0)

\* a - b mod LB^n -> <<difference (n limbs), borrow>>
RECURSIVE NSubFrom(_, _, _, _)
NSubFrom(a, b, i, br) == IF i > Len(a) THEN <<br>>
                         ELSE LET d == a[i] - b[i] - br + LB IN <<d % LB>> \o NSubFrom(a, b, i + 1, 1 - (d \div LB))
NSub(a, b) == LET r == NSubFrom(a, b, 1, 0) IN <<SubSeq(r, 1, Len(a)), r[Len(a) + 1]>>

\* comparison (same length)
RECURSIVE NLtFrom(_, _, _)
NLtFrom(a, b, i) == IF i = 0 THEN FALSE ELSE IF a[i] # b[i] THEN a[i] < b[i] ELSE NLtFrom(a, b, i - 1)
NLt(a, b) == NLtFrom(a, b, Len(a))
NLeq(a, b) == a = b \/ NLt(a, b)

\* half-limbs (base HB), little-endian
NHalves(a) == [k \in 1 .. 2 * Len(a) |-> IF k % 2 = 1 THEN a[(k + 1) \div 2] % HB ELSE a[k \div 2] \div HB]
NFromHalves(h) == [i \in 1 .. Len(h) \div 2 |-> h[2 * i - 1] + HB * h[2 * i]]

\* full product: Len(a) + Len(b) limbs   (Len(a), Len(b) <= 16 keeps every partial sum < 2^31 at HB = 256)
NMul(a, b) ==
  LET x == NHalves(a)  y == NHalves(b)  nx == Len(x)  ny == Len(y)
      Coef(k) == LET RECURSIVE Acc(_)
                     Acc(i) == IF i > nx \/ i > k + 1 THEN 0
                               ELSE (IF k - i + 2 >= 1 /\ k - i + 2 <= ny THEN x[i] * y[k - i + 2] ELSE 0) + Acc(i + 1)
                 IN Acc(1)
      RECURSIVE Dig(_, _)
      Dig(k, carry) == IF k = nx + ny - 1 THEN <<carry % HB>>
                       ELSE LET v == Coef(k) + carry IN <<v % HB>> \o Dig(k + 1, v \div HB)
  IN NFromHalves(Dig(0, 0))

NBit(a, i) == (a[1 + (i \div LimbBits)] \div IntPow2(i % LimbBits)) % 2
NPow2(i, n) == [k \in 1 .. n |-> IF k - 1 = i \div LimbBits THEN IntPow2(i % LimbBits) ELSE 0]
NBits(a) == Len(a) * LimbBits

\* long division: <<quotient, remainder>> (each Len(a) limbs), b # 0, Len(a) = Len(b)
RECURSIVE NDivStep(_, _, _, _, _)
NDivStep(a, b1, i, rem, q) ==      \* rem, b1 have Len(a) + 1 limbs
  IF i < 0 THEN <<q, NTrunc(rem, Len(a))>>
  ELSE LET d == NTrunc(NAdd(rem, rem), Len(rem))
           r2 == IF NBit(a, i) = 1 THEN [d EXCEPT ![1] = @ + 1] ELSE d
       IN IF NLeq(b1, r2)
            THEN NDivStep(a, b1, i - 1, NSub(r2, b1)[1], [q EXCEPT ![1 + (i \div LimbBits)] = @ + IntPow2(i % LimbBits)])
            ELSE NDivStep(a, b1, i - 1, r2, q)
NDivMod(a, b) == NDivStep(a, NPad(b, Len(a) + 1), NBits(a) - 1, NZero(Len(a) + 1), NZero(Len(a)))

NAnd(a, b) == [i \in 1 .. Len(a) |-> a[i] & b[i]]
NOr(a, b) == [i \in 1 .. Len(a) |-> a[i] | b[i]]
NXor(a, b) == [i \in 1 .. Len(a) |-> a[i] ^^ b[i]]

\* shifts / rotations by s bits, 0 <= s < NBits(a)
NShl(a, s) == NTrunc(NMul(a, NPow2(s, Len(a))), Len(a))
NShr(a, s) == IF s = 0 THEN a ELSE SubSeq(NMul(a, NPow2(NBits(a) - s, Len(a))), Len(a) + 1, 2 * Len(a))
NRotl(a, s) == LET t == NMul(a, NPow2(s, Len(a))) IN [i \in 1 .. Len(a) |-> t[i] + t[i + Len(a)]]
NRotr(a, s) == IF s = 0 THEN a ELSE NRotl(a, NBits(a) - s)

RECURSIVE NLead(_, _, _)
NLead(a, i, v) == IF i < 0 \/ NBit(a, i) # v THEN 0 ELSE 1 + NLead(a, i - 1, v)
RECURSIVE NTrail(_, _, _)
NTrail(a, i, v) == IF i = NBits(a) \/ NBit(a, i) # v THEN 0 ELSE 1 + NTrail(a, i + 1, v)
NClz(a) == NLead(a, NBits(a) - 1, 0)
NClo(a) == NLead(a, NBits(a) - 1, 1)
NCtz(a) == NTrail(a, 0, 0)
NCto(a) == NTrail(a, 0, 1)

\* value as a TLC integer (only when it fits: mini field)
RECURSIVE NToNat(_, _)
NToNat(a, i) == IF i > Len(a) THEN 0 ELSE a[i] + LB * NToNat(a, i + 1)
=============================================================================
