------------------------------- MODULE Felt -------------------------------
(***************************************************************************)
(* Field arithmetic of Miden VM over limbs.                                *)
(*                                                                         *)
(* A field element is a tuple of four limbs in base LB = HB*HB,            *)
(* little-endian.  The modulus is P = LB^4 - LB^2 + 1:                     *)
(*   HB = 256 : LB = 2^16, P = 2^64 - 2^32 + 1  (the VM's field)           *)
(*   HB = 2   : LB = 4,    P = 241             (mini-Goldilocks)           *)
(* The limbs are the VM's own 16-bit range-check limbs; a "u32" is an      *)
(* element whose limbs 3 and 4 are zero.  All intermediate integers stay   *)
(* below 2^31 (TLC integers are 32-bit): products are formed on half-limbs *)
(* (base HB).                                                              *)
(***************************************************************************)
EXTENDS Naturals, Sequences

CONSTANT HB                      \* half-limb base (2 or 256)

LB == HB * HB                    \* limb base

Limb == 0 .. LB - 1

F0 == <<0, 0, 0, 0>>
F1 == <<1, 0, 0, 0>>
F2 == <<2, 0, 0, 0>>
PLimbs == <<1, 0, LB - 1, LB - 1>>          \* P itself (not a field element)
FNeg1 == <<0, 0, LB - 1, LB - 1>>           \* P - 1
PM2Limbs == <<LB - 1, LB - 1, LB - 2, LB - 1>>  \* P - 2

\* lexicographic comparison on 4 limbs (as natural numbers)
NatLt(a, b) ==
  \/ a[4] < b[4]
  \/ a[4] = b[4] /\ a[3] < b[3]
  \/ a[4] = b[4] /\ a[3] = b[3] /\ a[2] < b[2]
  \/ a[4] = b[4] /\ a[3] = b[3] /\ a[2] = b[2] /\ a[1] < b[1]
NatLeq(a, b) == a = b \/ NatLt(a, b)

IsFelt(a) == /\ a \in Seq(Limb) /\ Len(a) = 4 /\ NatLt(a, PLimbs)
IsU32(a) == a[3] = 0 /\ a[4] = 0
IsU16(a) == a[2] = 0 /\ a[3] = 0 /\ a[4] = 0
IsBin(a) == a = F0 \/ a = F1

Small(n) == <<n % LB, (n \div LB) % LB, ((n \div LB) \div LB) % LB, 0>>   \* n < 2^31

\* ---- raw natural-number helpers on 4 limbs (results have 5 limbs / borrow flag) ----
AddRaw(a, b) ==
  LET s0 == a[1] + b[1]
      s1 == a[2] + b[2] + (s0 \div LB)
      s2 == a[3] + b[3] + (s1 \div LB)
      s3 == a[4] + b[4] + (s2 \div LB)
  IN <<s0 % LB, s1 % LB, s2 % LB, s3 % LB, s3 \div LB>>

\* a - b on 4 limbs, assuming a >= b as natural numbers
SubRaw(a, b) ==
  LET d0 == a[1] - b[1] + LB
      b0 == 1 - (d0 \div LB)
      d1 == a[2] - b[2] - b0 + LB
      b1 == 1 - (d1 \div LB)
      d2 == a[3] - b[3] - b1 + LB
      b2 == 1 - (d2 \div LB)
      d3 == a[4] - b[4] - b2 + LB
  IN <<d0 % LB, d1 % LB, d2 % LB, d3 % LB>>

\* reduce a natural number < 2*P given as 5 limbs (top limb 0 or 1)
Reduce5(s) ==
  LET lo == <<s[1], s[2], s[3], s[4]>>
  IN IF s[5] = 0
       THEN IF NatLt(lo, PLimbs) THEN lo ELSE SubRaw(lo, PLimbs)
       \* s = LB^4 + lo ; s - P = lo + LB^2 - 1
       ELSE LET t == AddRaw(lo, <<LB - 1, LB - 1, 0, 0>>) IN <<t[1], t[2], t[3], t[4]>>

\* canonical form of any 4-limb natural number (< LB^4 < 2P)
Canon(a) == IF NatLt(a, PLimbs) THEN a ELSE SubRaw(a, PLimbs)

FAdd(a, b) == Reduce5(AddRaw(a, b))
FNeg(a) == IF a = F0 THEN F0 ELSE SubRaw(PLimbs, a)
FSub(a, b) == IF NatLeq(b, a) THEN SubRaw(a, b) ELSE SubRaw(PLimbs, SubRaw(b, a))

\* ---- multiplication through half-limbs ----
Halves(a) == <<a[1] % HB, a[1] \div HB, a[2] % HB, a[2] \div HB,
               a[3] % HB, a[3] \div HB, a[4] % HB, a[4] \div HB>>

\* full integer product of two 4-limb numbers as 8 limbs
MulRaw(a, b) ==
  LET x == Halves(a)
      y == Halves(b)
      c(k) == \* coefficient k (0-based) of the half-limb convolution
        LET lo == IF k > 7 THEN k - 7 ELSE 0
            hi == IF k > 7 THEN 7 ELSE k
            RECURSIVE Acc(_)
            Acc(i) == IF i > hi THEN 0 ELSE x[i + 1] * y[k - i + 1] + Acc(i + 1)
        IN Acc(lo)
      \* carry-normalise in base HB : digits d0..d15
      RECURSIVE Dig(_, _)
      Dig(k, carry) ==
        IF k = 15 THEN <<carry % HB>>
        ELSE LET v == c(k) + carry IN <<v % HB>> \o Dig(k + 1, v \div HB)
      d == Dig(0, 0)
  IN [i \in 1 .. 8 |-> d[2 * i - 1] + HB * d[2 * i]]

\* reduction of a 128-bit (8-limb) number: 2^64 = LB^4 == LB^2 - 1, LB^6 == -1
Reduce8(t) ==
  LET lo == Canon(<<t[1], t[2], t[3], t[4]>>)
      a1 == FAdd(lo, <<0, 0, t[5], t[6]>>)
      a2 == FSub(a1, <<t[5], t[6], 0, 0>>)
  IN FSub(a2, <<t[7], t[8], 0, 0>>)

FMul(a, b) == Reduce8(MulRaw(a, b))
FSq(a) == FMul(a, a)

IsInv(a, b) == FMul(a, b) = F1

\* exponentiation by a natural-number exponent given as limbs (little-endian), square-and-multiply
RECURSIVE PowBits(_, _, _)
PowBits(base, e, nbits) == \* e : small natural, nbits: number of bits to process (low first)
  IF nbits = 0 THEN F1
  ELSE LET r == PowBits(FSq(base), e \div 2, nbits - 1)
       IN IF e % 2 = 1 THEN FMul(base, r) ELSE r

RECURSIVE SqN(_, _)
SqN(a, n) == IF n = 0 THEN a ELSE SqN(FSq(a), n - 1)

\* number of bits in a limb
RECURSIVE Log2(_)
Log2(n) == IF n <= 1 THEN 0 ELSE 1 + Log2(n \div 2)
LimbBits == Log2(LB)

\* a ^ e where e is given as a 4-limb natural number
FPowLimbs(a, e) ==
  LET p1 == PowBits(a, e[1], LimbBits)
      a2 == SqN(a, LimbBits)
      p2 == PowBits(a2, e[2], LimbBits)
      a3 == SqN(a2, LimbBits)
      p3 == PowBits(a3, e[3], LimbBits)
      a4 == SqN(a3, LimbBits)
      p4 == PowBits(a4, e[4], LimbBits)
  IN FMul(FMul(p1, p2), FMul(p3, p4))

FInv(a) == FPowLimbs(a, PM2Limbs)        \* a # 0
FDiv(a, b) == FMul(a, FInv(b))

\* 2^k as a field element, 0 <= k < 4*LimbBits
RECURSIVE IntPow2(_)
IntPow2(k) == IF k = 0 THEN 1 ELSE 2 * IntPow2(k - 1)
Pow2F(k) == Canon([i \in 1 .. 4 |-> IF (i - 1) = k \div LimbBits THEN IntPow2(k % LimbBits) ELSE 0])

\* only meaningful when the value fits a TLC integer (always at HB = 2)
ToNat(a) == a[1] + LB * (a[2] + LB * (a[3] + LB * a[4]))
FromNat(n) == <<n % LB, (n \div LB) % LB, (n \div (LB * LB)) % LB, (n \div (LB * LB * LB)) % LB>>

=============================================================================
