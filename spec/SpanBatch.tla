----------------------------- MODULE SpanBatch -----------------------------
(***************************************************************************)
(* Batching of a span's operation sequence into operation groups and       *)
(* batches (docs/src/design/programs.md "Span block", decoder/main.md).    *)
(*                                                                         *)
(* An operation is a record [c |-> opcode, imm |-> <<>> or <<felt>>].      *)
(*  - a group holds at most G operations or one immediate value;           *)
(*  - a batch holds at most B groups;                                      *)
(*  - the immediate of an operation goes to the next available group of    *)
(*    the same batch; if there is none, operation and immediate move to    *)
(*    the next batch;                                                      *)
(*  - an operation carrying an immediate is never the last (G-th) one in   *)
(*    its group.                                                           *)
(***************************************************************************)
EXTENDS Naturals, Sequences, Felt

CONSTANTS G, B        \* 9 and 8 in the VM

HasImm(op) == op.imm # <<>>

EmptyGroup == [kind |-> "empty", ops |-> <<>>, imm |-> F0]
EmptyBatch == [groups |-> [i \in 1 .. B |-> EmptyGroup], cur |-> 1, nxt |-> 2, ops |-> <<>>]

CurLen(bt) == Len(bt.groups[bt.cur].ops)

\* can the operation be added to the batch under construction?
Fits(bt, op) ==
  IF HasImm(op)
    THEN IF CurLen(bt) < G - 1 THEN bt.nxt <= B ELSE bt.nxt + 1 <= B
    ELSE CurLen(bt) < G \/ bt.nxt <= B

WithOp(g, op) == [kind |-> "ops", ops |-> Append(g.ops, op), imm |-> F0]
ImmGroup(v) == [kind |-> "imm", ops |-> <<>>, imm |-> v]

Add(bt, op) ==
  LET stay == IF HasImm(op) THEN CurLen(bt) < G - 1 ELSE CurLen(bt) < G
      cur2 == IF stay THEN bt.cur ELSE bt.nxt
      nxt1 == IF stay THEN bt.nxt ELSE bt.nxt + 1
      g1 == [bt.groups EXCEPT ![cur2] = WithOp(@, op)]
      \* a group left behind with no operation at all can only be the first one of a batch; it cannot happen
      g2 == IF HasImm(op) THEN [g1 EXCEPT ![nxt1] = ImmGroup(op.imm[1])] ELSE g1
  IN [groups |-> g2, cur |-> cur2, nxt |-> IF HasImm(op) THEN nxt1 + 1 ELSE nxt1, ops |-> Append(bt.ops, op)]

RECURSIVE BatchesFrom(_, _, _)
BatchesFrom(ops, i, bt) ==
  IF i > Len(ops) THEN <<bt>>
  ELSE IF Fits(bt, ops[i]) THEN BatchesFrom(ops, i + 1, Add(bt, ops[i]))
       ELSE <<bt>> \o BatchesFrom(ops, i + 1, Add(EmptyBatch, ops[i]))

\* the batches of a non-empty operation sequence
Batches(ops) == BatchesFrom(ops, 1, EmptyBatch)

NumGroups(bt) == bt.nxt - 1
OpCounts(bt) == [i \in 1 .. B |-> Len(bt.groups[i].ops)]

RECURSIVE NextPow2(_)
NextPow2(n) == IF n <= 1 THEN 1 ELSE 2 * NextPow2((n + 1) \div 2)

\* total number of op groups of the span as seen by the decoder (group_count at SPAN)
GroupCount(bs) == (Len(bs) - 1) * B + NextPow2(NumGroups(bs[Len(bs)]))

\* value of a group as a field element: opcodes concatenated, 7 bits each, first operation lowest
RECURSIVE OpsValue(_, _)
OpsValue(ops, i) == IF i > Len(ops) THEN F0
                    ELSE FAdd(FMul(Small(ops[i].c), Pow2F(7 * (i - 1))), OpsValue(ops, i + 1))
GroupValue(g) == IF g.kind = "imm" THEN g.imm ELSE OpsValue(g.ops, 1)
GroupValues(bt) == [i \in 1 .. B |-> GroupValue(bt.groups[i])]

\* ------------------------------------------------------------------------
\* Decoding the way the VM consumes a batch: start with group 1; an operation with an immediate
\* takes the next unconsumed group as its immediate; when a group is exhausted continue with the
\* next unconsumed group.  Result: the operations in execution order (without padding NOOPs).
RECURSIVE DecodeFrom(_, _, _, _)
DecodeFrom(bt, gi, oi, nxt) ==
  IF gi > B \/ gi > NumGroups(bt) THEN <<>>
  ELSE LET g == bt.groups[gi] IN
    IF oi > Len(g.ops) THEN DecodeFrom(bt, nxt, 1, nxt + 1)
    ELSE LET op == g.ops[oi] IN
      IF HasImm(op)
        THEN <<[c |-> op.c, imm |-> <<GroupValue(bt.groups[nxt])>>]>> \o DecodeFrom(bt, gi, oi + 1, nxt + 1)
        ELSE <<[c |-> op.c, imm |-> <<>>]>> \o DecodeFrom(bt, gi, oi + 1, nxt)
Decode(bt) == DecodeFrom(bt, 1, 1, 2)

RECURSIVE DecodeAll(_, _)
DecodeAll(bs, i) == IF i > Len(bs) THEN <<>> ELSE Decode(bs[i]) \o DecodeAll(bs, i + 1)

\* ------------------------------------------------------------------------
\* Properties of a batching result (checked for every operation sequence by MC_SpanBatch)
GroupCap(bs) == \A i \in 1 .. Len(bs) : \A j \in 1 .. B : Len(bs[i].groups[j].ops) <= G
BatchCap(bs) == \A i \in 1 .. Len(bs) : NumGroups(bs[i]) <= B /\ NumGroups(bs[i]) >= 1
ImmNotLast(bs) == \A i \in 1 .. Len(bs) : \A j \in 1 .. B : \A k \in 1 .. Len(bs[i].groups[j].ops) :
                    HasImm(bs[i].groups[j].ops[k]) => k <= G - 1
\* number of immediate groups = number of operations with immediates, per batch, and every group
\* beyond NumGroups is empty
ImmCount(bs) == \A i \in 1 .. Len(bs) :
  LET nImmOps == Len(SelectSeq(bs[i].ops, HasImm))
      immGroups == {j \in 1 .. B : bs[i].groups[j].kind = "imm"}
  IN /\ \A j \in immGroups : j <= NumGroups(bs[i]) /\ j >= 2
     /\ nImmOps = Len(SelectSeq([j \in 1 .. B |-> bs[i].groups[j]], LAMBDA g : g.kind = "imm"))
     /\ \A j \in 1 .. B : j > NumGroups(bs[i]) => bs[i].groups[j].kind = "empty"
DecodeRoundTrip(ops, bs) == DecodeAll(bs, 1) = ops
NoEmptyBatch(bs) == \A i \in 1 .. Len(bs) : Len(bs[i].ops) >= 1
\* a batch boundary is placed only where the next operation did not fit
Greedy(ops, bs) ==
  \A i \in 1 .. Len(bs) - 1 : ~Fits(bs[i], bs[i + 1].ops[1])
=============================================================================
