-------------------------------- MODULE Masm --------------------------------
(***************************************************************************)
(* Instruction-level semantics of Miden assembly, written from the         *)
(* instruction reference (docs/src/user_docs/assembly/*.md).               *)
(*                                                                         *)
(* Machine state  st = [stack, mem, adv]                                   *)
(*   stack : sequence of field elements, top first, length >= 16           *)
(*   mem   : function  address (field element) -> word, defined on the     *)
(*           written addresses only (everything else reads as zeros)       *)
(*   adv   : advice stack (sequence, next value first)                     *)
(* An instruction is a record                                              *)
(*   [op : STRING, p : Nat (index / count parameter), imm : Seq(felt)      *)
(*    (value immediates), err : Nat (error code)]                          *)
(* Apply(st, ins) is  [ok |-> "ok", st |-> st']                            *)
(*               or   [ok |-> "fail", kind |-> k, code |-> n]  (fails)     *)
(*               or   [ok |-> "undef"]   (the reference says "undefined")  *)
(***************************************************************************)
EXTENDS U32

MinDepth == 16
ZeroWord == <<F0, F0, F0, F0>>

Zeros(n) == [i \in 1 .. n |-> F0]
Norm(s) == IF Len(s) < MinDepth THEN s \o Zeros(MinDepth - Len(s)) ELSE s
At(s, i) == s[i + 1]                                   \* 0-based stack position
DropN(s, n) == Norm(SubSeq(s, n + 1, Len(s)))
Rest(s, n) == SubSeq(s, n + 1, Len(s))                 \* without normalisation
Take(s, n) == SubSeq(s, 1, n)
WordAt(s, k) == SubSeq(s, 4 * k + 1, 4 * k + 4)        \* k-th word (0-based) as it lies on the stack

Ok(st) == [ok |-> "ok", st |-> st]
Fail(k, c) == [ok |-> "fail", kind |-> k, code |-> c]
Undef == [ok |-> "undef"]

WithStack(st, s) == [st EXCEPT !.stack = Norm(s)]

\* replace the top n items by the sequence r
Repl(st, n, r) == Ok(WithStack(st, r \o Rest(st.stack, n)))

MemRead(mem, a) == IF a \in DOMAIN mem THEN mem[a] ELSE ZeroWord
MemWrite(mem, a, w) == [x \in (DOMAIN mem) \cup {a} |-> IF x = a THEN w ELSE mem[x]]

\* ---- quadratic extension  F[x] / (x^2 - x + 2), elements <<a0, a1>> ----
E2Add(a, b) == <<FAdd(a[1], b[1]), FAdd(a[2], b[2])>>
E2Sub(a, b) == <<FSub(a[1], b[1]), FSub(a[2], b[2])>>
E2Neg(a) == <<FNeg(a[1]), FNeg(a[2])>>
E2Mul(a, b) ==
  LET a0b0 == FMul(a[1], b[1])
      a1b1 == FMul(a[2], b[2])
  IN <<FSub(a0b0, FAdd(a1b1, a1b1)),
       FSub(FMul(FAdd(a[1], a[2]), FAdd(b[1], b[2])), a0b0)>>
E2Inv(a) ==       \* a # 0 : conj(a) / norm(a),  conj = <<a0 + a1, -a1>>, norm = a0^2 + a0 a1 + 2 a1^2
  LET n == FAdd(FAdd(FSq(a[1]), FMul(a[1], a[2])), FAdd(FSq(a[2]), FSq(a[2])))
      ni == FInv(n)
  IN <<FMul(FAdd(a[1], a[2]), ni), FMul(FNeg(a[2]), ni)>>
E2Zero == <<F0, F0>>

MaxPow2Exp == 4 * LimbBits - 1         \* 63

IsSmall(a) == a[2] = 0 /\ a[3] = 0 /\ a[4] = 0       \* fits one limb

\* ------------------------------------------------------------------------
\* binary u32 instruction helper: operands [b, a, ...]; undefined when an operand is not a u32
U32Bin(st, f(_, _)) ==
  LET s == st.stack  b == At(s, 0)  a == At(s, 1)
  IN IF ~IsU32(a) \/ ~IsU32(b) THEN Undef ELSE Repl(st, 2, f(a, b))

\* checked version (fails on non-u32 operands)
U32BinChecked(st, f(_, _)) ==
  LET s == st.stack  b == At(s, 0)  a == At(s, 1)
  IN IF ~IsU32(a) \/ ~IsU32(b) THEN Fail("NotU32", 0) ELSE Repl(st, 2, f(a, b))

\* shift amount operand: undefined if > 31
ShiftBin(st, f(_, _)) ==
  LET s == st.stack  b == At(s, 0)  a == At(s, 1)
  IN IF ~IsU32(a) \/ ~IsSmall(b) \/ b[1] >= U32Bits THEN Undef ELSE Repl(st, 2, <<f(a, b[1])>>)

RECURSIVE ApplyBase(_, _)
ApplyBase(st, ins) ==
  LET s == st.stack
      op == ins.op
      a0 == At(s, 0)  a1 == At(s, 1)  a2 == At(s, 2)  a3 == At(s, 3)
  IN
  CASE op = "nop" -> Ok(st)
  \* ---------------- assertions ----------------
    [] op = "assert" -> IF a0 = F1 THEN Repl(st, 1, <<>>) ELSE Fail("FailedAssertion", ins.err)
    [] op = "assertz" -> IF a0 = F0 THEN Repl(st, 1, <<>>) ELSE Fail("FailedAssertion", ins.err)
    [] op = "assert_eq" -> IF a0 = a1 THEN Repl(st, 2, <<>>) ELSE Fail("FailedAssertion", ins.err)
    [] op = "assert_eqw" -> IF WordAt(s, 0) = WordAt(s, 1) THEN Repl(st, 8, <<>>) ELSE Fail("FailedAssertion", ins.err)
  \* ---------------- field arithmetic ([b, a, ...]) ----------------
    [] op = "add" -> Repl(st, 2, <<FAdd(a1, a0)>>)
    [] op = "sub" -> Repl(st, 2, <<FSub(a1, a0)>>)
    [] op = "mul" -> Repl(st, 2, <<FMul(a1, a0)>>)
    [] op = "div" -> IF a0 = F0 THEN Fail("DivideByZero", 0) ELSE Repl(st, 2, <<FMul(a1, FInv(a0))>>)
    [] op = "neg" -> Repl(st, 1, <<FNeg(a0)>>)
    [] op = "inv" -> IF a0 = F0 THEN Fail("DivideByZero", 0) ELSE Repl(st, 1, <<FInv(a0)>>)
    [] op = "pow2" -> IF ~IsSmall(a0) \/ a0[1] > MaxPow2Exp THEN Fail("any", 0) ELSE Repl(st, 1, <<Pow2F(a0[1])>>)
    [] op = "exp" -> Repl(st, 2, <<FPowLimbs(a1, a0)>>)
    [] op = "ilog2" -> IF a0 = F0 THEN Fail("LogArgumentZero", 0) ELSE Repl(st, 1, <<ILog2(a0)>>)
    [] op = "not" -> IF ~IsBin(a0) THEN Fail("NotBinary", 0) ELSE Repl(st, 1, <<FSub(F1, a0)>>)
    [] op = "and" -> IF ~IsBin(a0) \/ ~IsBin(a1) THEN Fail("NotBinary", 0) ELSE Repl(st, 2, <<FMul(a0, a1)>>)
    [] op = "or" -> IF ~IsBin(a0) \/ ~IsBin(a1) THEN Fail("NotBinary", 0)
                    ELSE Repl(st, 2, <<FSub(FAdd(a0, a1), FMul(a0, a1))>>)
    [] op = "xor" -> IF ~IsBin(a0) \/ ~IsBin(a1) THEN Fail("NotBinary", 0)
                     ELSE Repl(st, 2, <<FSub(FAdd(a0, a1), FMul(F2, FMul(a0, a1)))>>)
  \* ---------------- comparisons ----------------
    [] op = "eq" -> Repl(st, 2, <<Bool(a0 = a1)>>)
    [] op = "neq" -> Repl(st, 2, <<Bool(a0 # a1)>>)
    [] op = "lt" -> Repl(st, 2, <<Bool(NatLt(a1, a0))>>)
    [] op = "lte" -> Repl(st, 2, <<Bool(NatLeq(a1, a0))>>)
    [] op = "gt" -> Repl(st, 2, <<Bool(NatLt(a0, a1))>>)
    [] op = "gte" -> Repl(st, 2, <<Bool(NatLeq(a0, a1))>>)
    [] op = "is_odd" -> Repl(st, 1, <<Bool(a0[1] % 2 = 1)>>)
    [] op = "eqw" -> Repl(st, 0, <<Bool(WordAt(s, 0) = WordAt(s, 1))>>)
  \* ---------------- extension field ([b1, b0, a1, a0, ...]) ----------------
    [] op = "ext2add" -> LET c == E2Add(<<a3, a2>>, <<a1, a0>>) IN Repl(st, 4, <<c[2], c[1]>>)
    [] op = "ext2sub" -> LET c == E2Sub(<<a3, a2>>, <<a1, a0>>) IN Repl(st, 4, <<c[2], c[1]>>)
    [] op = "ext2mul" -> LET c == E2Mul(<<a3, a2>>, <<a1, a0>>) IN Repl(st, 4, <<c[2], c[1]>>)
    [] op = "ext2neg" -> LET c == E2Neg(<<a1, a0>>) IN Repl(st, 2, <<c[2], c[1]>>)
    [] op = "ext2inv" -> IF <<a1, a0>> = E2Zero THEN Fail("DivideByZero", 0)
                         ELSE LET c == E2Inv(<<a1, a0>>) IN Repl(st, 2, <<c[2], c[1]>>)
    [] op = "ext2div" -> IF <<a1, a0>> = E2Zero THEN Fail("DivideByZero", 0)
                         ELSE LET c == E2Mul(<<a3, a2>>, E2Inv(<<a1, a0>>)) IN Repl(st, 4, <<c[2], c[1]>>)
  \* ---------------- u32 conversions and tests ----------------
    [] op = "u32test" -> Repl(st, 0, <<Bool(IsU32(a0))>>)
    [] op = "u32testw" -> Repl(st, 0, <<Bool(IsU32(a0) /\ IsU32(a1) /\ IsU32(a2) /\ IsU32(a3))>>)
    [] op = "u32assert" -> IF IsU32(a0) THEN Ok(st) ELSE Fail("NotU32", ins.err)
    [] op = "u32assert2" -> IF IsU32(a0) /\ IsU32(a1) THEN Ok(st) ELSE Fail("NotU32", ins.err)
    [] op = "u32assertw" -> IF IsU32(a0) /\ IsU32(a1) /\ IsU32(a2) /\ IsU32(a3) THEN Ok(st) ELSE Fail("NotU32", ins.err)
    [] op = "u32cast" -> Repl(st, 1, <<Lo32(a0)>>)
    [] op = "u32split" -> Repl(st, 1, <<Hi32(a0), Lo32(a0)>>)
  \* ---------------- u32 arithmetic ----------------
    [] op = "u32overflowing_add" -> U32Bin(st, LAMBDA a, b : LET r == U32AddPair(a, b) IN <<r[2], r[1]>>)
    [] op = "u32wrapping_add" -> U32Bin(st, LAMBDA a, b : <<U32AddPair(a, b)[1]>>)
    [] op = "u32overflowing_add3" ->
         IF ~IsU32(a0) \/ ~IsU32(a1) \/ ~IsU32(a2) THEN Undef
         ELSE LET r == U32Add3Pair(a2, a1, a0) IN Repl(st, 3, <<r[2], r[1]>>)
    [] op = "u32wrapping_add3" ->
         IF ~IsU32(a0) \/ ~IsU32(a1) \/ ~IsU32(a2) THEN Undef
         ELSE Repl(st, 3, <<U32Add3Pair(a2, a1, a0)[1]>>)
    [] op = "u32overflowing_sub" -> U32Bin(st, LAMBDA a, b : LET r == U32SubPair(a, b) IN <<r[2], r[1]>>)
    [] op = "u32wrapping_sub" -> U32Bin(st, LAMBDA a, b : <<U32SubPair(a, b)[1]>>)
    [] op = "u32overflowing_mul" -> U32Bin(st, LAMBDA a, b : LET r == U32MulPair(a, b) IN <<r[2], r[1]>>)
    [] op = "u32wrapping_mul" -> U32Bin(st, LAMBDA a, b : <<U32MulPair(a, b)[1]>>)
    \* [b, a, c, ...] -> a * b + c
    [] op = "u32overflowing_madd" ->
         IF ~IsU32(a0) \/ ~IsU32(a1) \/ ~IsU32(a2) THEN Undef
         ELSE LET r == U32MaddPair(a1, a0, a2) IN Repl(st, 3, <<r[2], r[1]>>)
    [] op = "u32wrapping_madd" ->
         IF ~IsU32(a0) \/ ~IsU32(a1) \/ ~IsU32(a2) THEN Undef
         ELSE Repl(st, 3, <<U32MaddPair(a1, a0, a2)[1]>>)
    [] op = "u32div" -> IF ~IsU32(a0) \/ ~IsU32(a1) THEN Undef ELSE IF a0 = F0 THEN Fail("DivideByZero", 0)
                        ELSE Repl(st, 2, <<U32DivMod(a1, a0)[1]>>)
    [] op = "u32mod" -> IF ~IsU32(a0) \/ ~IsU32(a1) THEN Undef ELSE IF a0 = F0 THEN Fail("DivideByZero", 0)
                        ELSE Repl(st, 2, <<U32DivMod(a1, a0)[2]>>)
    [] op = "u32divmod" -> IF ~IsU32(a0) \/ ~IsU32(a1) THEN Undef ELSE IF a0 = F0 THEN Fail("DivideByZero", 0)
                           ELSE LET r == U32DivMod(a1, a0) IN Repl(st, 2, <<r[2], r[1]>>)
  \* ---------------- u32 bitwise ----------------
    [] op = "u32and" -> U32BinChecked(st, LAMBDA a, b : <<U32And(a, b)>>)
    [] op = "u32or" -> U32BinChecked(st, LAMBDA a, b : <<U32Or(a, b)>>)
    [] op = "u32xor" -> U32BinChecked(st, LAMBDA a, b : <<U32Xor(a, b)>>)
    [] op = "u32not" -> IF ~IsU32(a0) THEN Fail("NotU32", 0) ELSE Repl(st, 1, <<U32Not(a0)>>)
    [] op = "u32shl" -> ShiftBin(st, U32Shl)
    [] op = "u32shr" -> ShiftBin(st, U32Shr)
    [] op = "u32rotl" -> ShiftBin(st, U32Rotl)
    [] op = "u32rotr" -> ShiftBin(st, U32Rotr)
    [] op = "u32popcnt" -> IF ~IsU32(a0) THEN Undef ELSE Repl(st, 1, <<U32Popcnt(a0)>>)
    [] op = "u32clz" -> IF ~IsU32(a0) THEN Undef ELSE Repl(st, 1, <<U32Clz(a0)>>)
    [] op = "u32ctz" -> IF ~IsU32(a0) THEN Undef ELSE Repl(st, 1, <<U32Ctz(a0)>>)
    [] op = "u32clo" -> IF ~IsU32(a0) THEN Undef ELSE Repl(st, 1, <<U32Clo(a0)>>)
    [] op = "u32cto" -> IF ~IsU32(a0) THEN Undef ELSE Repl(st, 1, <<U32Cto(a0)>>)
  \* ---------------- u32 comparisons ([b, a, ...]) ----------------
    [] op = "u32lt" -> U32Bin(st, LAMBDA a, b : <<Bool(NatLt(a, b))>>)
    [] op = "u32lte" -> U32Bin(st, LAMBDA a, b : <<Bool(NatLeq(a, b))>>)
    [] op = "u32gt" -> U32Bin(st, LAMBDA a, b : <<Bool(NatLt(b, a))>>)
    [] op = "u32gte" -> U32Bin(st, LAMBDA a, b : <<Bool(NatLeq(b, a))>>)
    [] op = "u32min" -> U32Bin(st, LAMBDA a, b : <<IF NatLt(a, b) THEN a ELSE b>>)
    [] op = "u32max" -> U32Bin(st, LAMBDA a, b : <<IF NatLt(b, a) THEN a ELSE b>>)
  \* ---------------- stack manipulation ----------------
    [] op = "drop" -> Repl(st, 1, <<>>)
    [] op = "dropw" -> Repl(st, 4, <<>>)
    [] op = "padw" -> Repl(st, 0, ZeroWord)
    [] op = "dup" -> Repl(st, 0, <<At(s, ins.p)>>)
    [] op = "dupw" -> Repl(st, 0, WordAt(s, ins.p))
    [] op = "swap" -> Ok(WithStack(st, [s EXCEPT ![1] = At(s, ins.p), ![ins.p + 1] = a0]))
    [] op = "swapw" -> Ok(WithStack(st, [i \in 1 .. Len(s) |->
                          IF i <= 4 THEN s[i + 4 * ins.p]
                          ELSE IF i > 4 * ins.p /\ i <= 4 * ins.p + 4 THEN s[i - 4 * ins.p] ELSE s[i]]))
    [] op = "swapdw" -> Ok(WithStack(st, [i \in 1 .. Len(s) |->
                          IF i <= 8 THEN s[i + 8] ELSE IF i <= 16 THEN s[i - 8] ELSE s[i]]))
    [] op = "movup" -> Ok(WithStack(st, <<At(s, ins.p)>> \o Take(s, ins.p) \o Rest(s, ins.p + 1)))
    [] op = "movdn" -> Ok(WithStack(st, SubSeq(s, 2, ins.p + 1) \o <<a0>> \o Rest(s, ins.p + 1)))
    [] op = "movupw" -> Ok(WithStack(st, WordAt(s, ins.p) \o Take(s, 4 * ins.p) \o Rest(s, 4 * ins.p + 4)))
    [] op = "movdnw" -> Ok(WithStack(st, SubSeq(s, 5, 4 * ins.p + 4) \o WordAt(s, 0) \o Rest(s, 4 * ins.p + 4)))
    \* [c, b, a, ...]
    [] op = "cswap" -> IF ~IsBin(a0) THEN Fail("NotBinary", 0)
                       ELSE Repl(st, 3, IF a0 = F0 THEN <<a1, a2>> ELSE <<a2, a1>>)
    [] op = "cswapw" -> IF ~IsBin(a0) THEN Fail("NotBinary", 0)
                        ELSE LET wb == SubSeq(s, 2, 5)  wa == SubSeq(s, 6, 9)
                             IN Repl(st, 9, IF a0 = F0 THEN wb \o wa ELSE wa \o wb)
    [] op = "cdrop" -> IF ~IsBin(a0) THEN Fail("NotBinary", 0)
                       ELSE Repl(st, 3, IF a0 = F0 THEN <<a2>> ELSE <<a1>>)
    [] op = "cdropw" -> IF ~IsBin(a0) THEN Fail("NotBinary", 0)
                        ELSE LET wb == SubSeq(s, 2, 5)  wa == SubSeq(s, 6, 9)
                             IN Repl(st, 9, IF a0 = F0 THEN wa ELSE wb)
  \* ---------------- constants / environment ----------------
    \* push.a.b.c : a pushed first, so the last value ends on top
    [] op = "push" -> Repl(st, 0, [i \in 1 .. Len(ins.imm) |-> ins.imm[Len(ins.imm) + 1 - i]])
    [] op = "sdepth" -> Repl(st, 0, <<Small(Len(s))>>)
  \* ---------------- advice stack ----------------
    [] op = "adv_push" -> IF Len(st.adv) < ins.p THEN Fail("AdviceStackReadFailed", 0)
                          ELSE Ok([WithStack(st, [i \in 1 .. ins.p |-> st.adv[ins.p + 1 - i]] \o s)
                                   EXCEPT !.adv = Rest(st.adv, ins.p)])
    \* the word popped from the advice stack keeps its order: first popped value deepest
    [] op = "adv_loadw" -> IF Len(st.adv) < 4 THEN Fail("AdviceStackReadFailed", 0)
                           ELSE Ok([WithStack(st, <<st.adv[4], st.adv[3], st.adv[2], st.adv[1]>> \o Rest(s, 4))
                                    EXCEPT !.adv = Rest(st.adv, 4)])
  \* ---------------- memory (absolute addresses) ----------------
    [] op = "mem_load" -> IF ~IsU32(a0) THEN Fail("MemoryAddressOutOfBounds", 0)
                          ELSE Repl(st, 1, <<MemRead(st.mem, a0)[1]>>)
    \* a word in memory w = <<w0,w1,w2,w3>> lies on the stack with w3 on top
    [] op = "mem_loadw" -> IF ~IsU32(a0) THEN Fail("MemoryAddressOutOfBounds", 0)
                           ELSE LET w == MemRead(st.mem, a0) IN Repl(st, 5, <<w[4], w[3], w[2], w[1]>>)
    [] op = "mem_store" -> IF ~IsU32(a0) THEN Fail("MemoryAddressOutOfBounds", 0)
                           ELSE LET w == MemRead(st.mem, a0)
                                IN Ok([WithStack(st, Rest(s, 2)) EXCEPT !.mem = MemWrite(st.mem, a0, <<a1, w[2], w[3], w[4]>>)])
    [] op = "mem_storew" -> IF ~IsU32(a0) THEN Fail("MemoryAddressOutOfBounds", 0)
                            ELSE Ok([WithStack(st, Rest(s, 1)) EXCEPT !.mem = MemWrite(st.mem, a0, <<At(s, 4), At(s, 3), At(s, 2), At(s, 1)>>)])
    \* two-word transfers: [C, B, A, a, ...] -> [E, D, A, a + 2, ...]; the word for address a lands in positions 4..7
    \* (D), the word for a + 1 in positions 0..3 (E); design/stack/io_ops.md MSTREAM / PIPE.  Both addresses must be < 2^32.
    [] op = "mem_stream" ->
         LET a == At(s, 12) IN
         IF ~IsU32(a) \/ ~IsU32(FAdd(a, F1)) THEN Fail("MemoryAddressOutOfBounds", 0)
         ELSE LET d == MemRead(st.mem, a)  e == MemRead(st.mem, FAdd(a, F1))
              IN Ok(WithStack(st, <<e[4], e[3], e[2], e[1], d[4], d[3], d[2], d[1]>> \o SubSeq(s, 9, 12) \o <<FAdd(a, F2)>> \o Rest(s, 13)))
    [] op = "adv_pipe" ->
         LET a == At(s, 12) IN
         \* (when both the address is out of range and the advice stack is too short, which failure is reported is not prescribed)
         IF Len(st.adv) < 8 /\ (~IsU32(a) \/ ~IsU32(FAdd(a, F1))) THEN Fail("any", 0)
         ELSE IF Len(st.adv) < 8 THEN Fail("AdviceStackReadFailed", 0)
         ELSE IF ~IsU32(a) \/ ~IsU32(FAdd(a, F1)) THEN Fail("MemoryAddressOutOfBounds", 0)
         ELSE LET d == SubSeq(st.adv, 1, 4)  e == SubSeq(st.adv, 5, 8)
              IN Ok([WithStack(st, <<e[4], e[3], e[2], e[1], d[4], d[3], d[2], d[1]>> \o SubSeq(s, 9, 12) \o <<FAdd(a, F2)>> \o Rest(s, 13))
                     EXCEPT !.adv = Rest(st.adv, 8),
                            !.mem = MemWrite(MemWrite(st.mem, a, d), FAdd(a, F1), e)])
    [] OTHER -> [ok |-> "unknown"]

\* immediate forms: "the operand with the specified name is not present on the stack"
ImmOps == {"add", "sub", "mul", "div", "eq", "neq", "exp",
           "u32overflowing_add", "u32wrapping_add", "u32overflowing_sub", "u32wrapping_sub",
           "u32overflowing_mul", "u32wrapping_mul", "u32div", "u32mod", "u32divmod",
           "u32shl", "u32shr", "u32rotl", "u32rotr",
           "mem_load", "mem_loadw", "mem_store", "mem_storew"}

Apply(st, ins) ==
  IF ins.op \in ImmOps /\ Len(ins.imm) = 1
    THEN ApplyBase([st EXCEPT !.stack = <<ins.imm[1]>> \o st.stack], ins)
    ELSE ApplyBase(st, ins)

=============================================================================
