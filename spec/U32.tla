-------------------------------- MODULE U32 --------------------------------
(***************************************************************************)
(* 32-bit unsigned integer functions on field elements whose limbs 3 and 4 *)
(* are zero ("u32" = two limbs; at HB = 2 a "u32" has 4 bits).             *)
(* Written from docs/src/user_docs/assembly/u32_operations.md and          *)
(* docs/src/design/stack/u32_ops.md.                                       *)
(***************************************************************************)
EXTENDS Felt, Bitwise

U32Bits == 2 * LimbBits                   \* 32 (4 at HB = 2)
Phi == <<0, 0, 1, 0>>                     \* 2^32 as a field element
U32Max == <<LB - 1, LB - 1, 0, 0>>

Lo32(a) == <<a[1], a[2], 0, 0>>           \* a mod 2^32   (a any field element, as an integer)
Hi32(a) == <<a[3], a[4], 0, 0>>           \* floor(a / 2^32)

Bool(b) == IF b THEN F1 ELSE F0

\* ---- arithmetic: results <<lo, hi/carry/borrow>> ----
U32AddPair(a, b) == LET s == AddRaw(a, b) IN <<Lo32(s), <<s[3], 0, 0, 0>>>>
U32Add3Pair(a, b, c) ==
  LET s == AddRaw(a, b)
      t == AddRaw(<<s[1], s[2], s[3], s[4]>>, c)
  IN <<Lo32(t), <<t[3], 0, 0, 0>>>>
U32SubPair(a, b) ==
  IF NatLeq(b, a) THEN <<SubRaw(a, b), F0>>
  ELSE LET s == AddRaw(a, Phi) IN <<Lo32(SubRaw(<<s[1], s[2], s[3], s[4]>>, b)), F1>>
U32MulPair(a, b) == LET t == MulRaw(a, b) IN <<<<t[1], t[2], 0, 0>>, <<t[3], t[4], 0, 0>>>>
U32MaddPair(a, b, c) ==      \* a * b + c
  LET t == MulRaw(a, b)
      s == AddRaw(<<t[1], t[2], t[3], t[4]>>, c)
  IN <<Lo32(s), Hi32(s)>>

BitOf(a, i) == (a[1 + (i \div LimbBits)] \div IntPow2(i % LimbBits)) % 2
Pow2Limbs(i) == [k \in 1 .. 4 |-> IF k - 1 = i \div LimbBits THEN IntPow2(i % LimbBits) ELSE 0]   \* 2^i as a natural number
Dbl(a) == LET s == AddRaw(a, a) IN <<s[1], s[2], s[3], s[4]>>

\* long division of naturals < 2^nbits (nbits <= 3 * LimbBits so that the doubled remainder fits 4 limbs)
RECURSIVE DivStep(_, _, _, _, _)
DivStep(a, b, i, rem, q) ==
  IF i < 0 THEN <<q, rem>>
  ELSE LET r1 == Dbl(rem)
           r2 == IF BitOf(a, i) = 1 THEN <<r1[1] + 1, r1[2], r1[3], r1[4]>> ELSE r1   \* low bit is free after doubling
       IN IF NatLeq(b, r2)
            THEN LET qs == AddRaw(q, Pow2Limbs(i)) IN DivStep(a, b, i - 1, SubRaw(r2, b), <<qs[1], qs[2], qs[3], qs[4]>>)
            ELSE DivStep(a, b, i - 1, r2, q)
U32DivMod(a, b) == DivStep(a, b, U32Bits - 1, F0, F0)       \* <<quotient, remainder>>, b # 0

\* ---- bitwise ----
U32And(a, b) == <<a[1] & b[1], a[2] & b[2], 0, 0>>
U32Or(a, b) == <<a[1] | b[1], a[2] | b[2], 0, 0>>
U32Xor(a, b) == <<a[1] ^^ b[1], a[2] ^^ b[2], 0, 0>>
U32Not(a) == <<LB - 1 - a[1], LB - 1 - a[2], 0, 0>>

\* shifts / rotations, 0 <= n < U32Bits
U32Shl(a, n) == LET t == MulRaw(a, Pow2Limbs(n)) IN <<t[1], t[2], 0, 0>>
U32Shr(a, n) == IF n = 0 THEN a ELSE LET t == MulRaw(a, Pow2Limbs(U32Bits - n)) IN <<t[3], t[4], 0, 0>>
U32Rotl(a, n) == LET t == MulRaw(a, Pow2Limbs(n)) IN <<t[1] + t[3], t[2] + t[4], 0, 0>>   \* disjoint bits: no carry
U32Rotr(a, n) == IF n = 0 THEN a ELSE U32Rotl(a, U32Bits - n)

RECURSIVE CountBits(_, _)
CountBits(a, i) == IF i = U32Bits THEN 0 ELSE BitOf(a, i) + CountBits(a, i + 1)
U32Popcnt(a) == Small(CountBits(a, 0))

RECURSIVE LeadRun(_, _, _)      \* number of consecutive bits equal to v starting at bit i going down
LeadRun(a, i, v) == IF i < 0 \/ BitOf(a, i) # v THEN 0 ELSE 1 + LeadRun(a, i - 1, v)
RECURSIVE TrailRun(_, _, _)
TrailRun(a, i, v) == IF i = U32Bits \/ BitOf(a, i) # v THEN 0 ELSE 1 + TrailRun(a, i + 1, v)
U32Clz(a) == Small(LeadRun(a, U32Bits - 1, 0))
U32Clo(a) == Small(LeadRun(a, U32Bits - 1, 1))
U32Ctz(a) == Small(TrailRun(a, 0, 0))
U32Cto(a) == Small(TrailRun(a, 0, 1))

\* floor(log2(a)) for a field element a # 0 (all four limbs)
RECURSIVE TopBit(_, _)
TopBit(a, i) == IF BitOf(a, i) = 1 THEN i ELSE TopBit(a, i - 1)
ILog2(a) == Small(TopBit(a, 4 * LimbBits - 1))

=============================================================================
