-------------------------------- MODULE U64 --------------------------------
(***************************************************************************)
(* Contracts of std::math::u64 and std::math::u256 (C16), written from     *)
(* docs/src/user_docs/stdlib/math/u64.md and the doc comments of           *)
(* stdlib/asm/math/u256.masm.  A u64 lies on the stack as [hi, lo, ...]    *)
(* (each a u32 field element); as a natural number it is the 4-limb        *)
(* sequence lo[1], lo[2], hi[1], hi[2].  A u256 lies as [x7, ..., x0].     *)
(* Call(proc, args) = [ok |-> "ok", out |-> results on top of the stack]   *)
(*                  | [ok |-> "fail"]                                      *)
(* where args are the stack operands top first.                            *)
(***************************************************************************)
EXTENDS Nat

U(hi, lo) == <<lo[1], lo[2], hi[1], hi[2]>>          \* natural number of a u64 given as two u32 felts
Hi(n) == <<n[3], n[4], 0, 0>>
Lo(n) == <<n[1], n[2], 0, 0>>
OutU64(n) == <<Hi(n), Lo(n)>>                        \* [c_hi, c_lo]
B2F(b) == IF b THEN F1 ELSE F0
Res(out) == [ok |-> "ok", out |-> out]
Failed == [ok |-> "fail"]

\* binary procedures: args = <<b_hi, b_lo, a_hi, a_lo>>
Call64(p, args) ==
  LET b == U(args[1], args[2])
      a == IF Len(args) >= 4 THEN U(args[3], args[4]) ELSE NZero(4)
  IN
  CASE p = "overflowing_add" -> LET s == NAdd(a, b) IN Res(<<Small(s[5])>> \o OutU64(s))
    [] p = "wrapping_add" -> Res(OutU64(NAdd(a, b)))
    [] p = "overflowing_sub" -> LET d == NSub(a, b) IN Res(<<Small(d[2])>> \o OutU64(d[1]))
    [] p = "wrapping_sub" -> Res(OutU64(NSub(a, b)[1]))
    [] p = "overflowing_mul" -> LET m == NMul(a, b) IN
         Res(<<<<m[7], m[8], 0, 0>>, <<m[5], m[6], 0, 0>>, <<m[3], m[4], 0, 0>>, <<m[1], m[2], 0, 0>>>>)
    [] p = "wrapping_mul" -> Res(OutU64(NMul(a, b)))
    [] p = "div" -> IF b = NZero(4) THEN Failed ELSE Res(OutU64(NDivMod(a, b)[1]))
    [] p = "mod" -> IF b = NZero(4) THEN Failed ELSE Res(OutU64(NDivMod(a, b)[2]))
    [] p = "divmod" -> IF b = NZero(4) THEN Failed ELSE LET r == NDivMod(a, b) IN Res(OutU64(r[2]) \o OutU64(r[1]))
    [] p = "lt" -> Res(<<B2F(NLt(a, b))>>)
    [] p = "gt" -> Res(<<B2F(NLt(b, a))>>)
    [] p = "lte" -> Res(<<B2F(NLeq(a, b))>>)
    [] p = "gte" -> Res(<<B2F(NLeq(b, a))>>)
    [] p = "eq" -> Res(<<B2F(a = b)>>)
    [] p = "neq" -> Res(<<B2F(a # b)>>)
    [] p = "min" -> Res(OutU64(IF NLt(a, b) THEN a ELSE b))
    [] p = "max" -> Res(OutU64(IF NLt(b, a) THEN a ELSE b))
    [] p = "and" -> Res(OutU64(NAnd(a, b)))
    [] p = "or" -> Res(OutU64(NOr(a, b)))
    [] p = "xor" -> Res(OutU64(NXor(a, b)))
    \* unary: args = <<a_hi, a_lo>> (b holds the operand)
    [] p = "eqz" -> Res(<<B2F(b = NZero(4))>>)
    [] p = "clz" -> Res(<<Small(NClz(b))>>)
    [] p = "ctz" -> Res(<<Small(NCtz(b))>>)
    [] p = "clo" -> Res(<<Small(NClo(b))>>)
    [] p = "cto" -> Res(<<Small(NCto(b))>>)

\* shifts: args = <<s, a_hi, a_lo>> with s a small felt in [0, 64)
Shift64(p, args) ==
  LET s == args[1][1]
      a == U(args[2], args[3])
  IN CASE p = "shl" -> Res(OutU64(NShl(a, s)))
       [] p = "shr" -> Res(OutU64(NShr(a, s)))
       [] p = "rotl" -> Res(OutU64(NRotl(a, s)))
       [] p = "rotr" -> Res(OutU64(NRotr(a, s)))

\* ---- u256: args = <<b7 .. b0, a7 .. a0>> (felts, u32 each) ----
N256(x) == [i \in 1 .. 16 |-> x[8 - ((i - 1) \div 2)][1 + ((i - 1) % 2)]]      \* x = <<x7 .. x0>>
Out256(n) == [i \in 1 .. 8 |-> <<n[2 * (8 - i) + 1], n[2 * (8 - i) + 2], 0, 0>>]   \* [c7 .. c0]
Call256(p, args) ==
  LET b == N256(SubSeq(args, 1, 8))
      a == IF Len(args) >= 16 THEN N256(SubSeq(args, 9, 16)) ELSE NZero(16)
  IN CASE p = "add_unsafe" -> Res(Out256(NAdd(a, b)))
       [] p = "sub_unsafe" -> Res(Out256(NSub(a, b)[1]))
       [] p = "mul_unsafe" -> Res(Out256(NMul(a, b)))
       [] p = "and" -> Res(Out256(NAnd(a, b)))
       [] p = "or" -> Res(Out256(NOr(a, b)))
       [] p = "xor" -> Res(Out256(NXor(a, b)))
       [] p = "eq_unsafe" -> Res(<<B2F(a = b)>>)
       [] p = "iszero_unsafe" -> Res(<<B2F(b = NZero(16))>>)
=============================================================================
