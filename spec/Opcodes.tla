------------------------------ MODULE Opcodes ------------------------------
(* Opcode table of docs/src/design/stack/op_constraints.md (a constant of the specification). *)
EXTENDS Naturals, Sequences

OpTable == <<
  <<"NOOP", 0>>, <<"EQZ", 1>>, <<"NEG", 2>>, <<"INV", 3>>, <<"INCR", 4>>, <<"NOT", 5>>, <<"FMPADD", 6>>,
  <<"MLOAD", 7>>, <<"SWAP", 8>>, <<"CALLER", 9>>, <<"MOVUP2", 10>>, <<"MOVDN2", 11>>, <<"MOVUP3", 12>>,
  <<"MOVDN3", 13>>, <<"ADVPOPW", 14>>, <<"EXPACC", 15>>, <<"MOVUP4", 16>>, <<"MOVDN4", 17>>,
  <<"MOVUP5", 18>>, <<"MOVDN5", 19>>, <<"MOVUP6", 20>>, <<"MOVDN6", 21>>, <<"MOVUP7", 22>>,
  <<"MOVDN7", 23>>, <<"SWAPW", 24>>, <<"EXT2MUL", 25>>, <<"MOVUP8", 26>>, <<"MOVDN8", 27>>,
  <<"SWAPW2", 28>>, <<"SWAPW3", 29>>, <<"SWAPDW", 30>>,
  <<"ASSERT", 32>>, <<"EQ", 33>>, <<"ADD", 34>>, <<"MUL", 35>>, <<"AND", 36>>, <<"OR", 37>>,
  <<"U32AND", 38>>, <<"U32XOR", 39>>, <<"FRIE2F4", 40>>, <<"DROP", 41>>, <<"CSWAP", 42>>,
  <<"CSWAPW", 43>>, <<"MLOADW", 44>>, <<"MSTORE", 45>>, <<"MSTOREW", 46>>, <<"FMPUPDATE", 47>>,
  <<"PAD", 48>>, <<"DUP0", 49>>, <<"DUP1", 50>>, <<"DUP2", 51>>, <<"DUP3", 52>>, <<"DUP4", 53>>,
  <<"DUP5", 54>>, <<"DUP6", 55>>, <<"DUP7", 56>>, <<"DUP9", 57>>, <<"DUP11", 58>>, <<"DUP13", 59>>,
  <<"DUP15", 60>>, <<"ADVPOP", 61>>, <<"SDEPTH", 62>>, <<"CLK", 63>>,
  <<"U32ADD", 64>>, <<"U32SUB", 66>>, <<"U32MUL", 68>>, <<"U32DIV", 70>>, <<"U32SPLIT", 72>>,
  <<"U32ASSERT2", 74>>, <<"U32ADD3", 76>>, <<"U32MADD", 78>>,
  <<"HPERM", 80>>, <<"MPVERIFY", 81>>, <<"PIPE", 82>>, <<"MSTREAM", 83>>, <<"SPLIT", 84>>,
  <<"LOOP", 85>>, <<"SPAN", 86>>, <<"JOIN", 87>>, <<"DYN", 88>>, <<"RCOMBBASE", 89>>,
  <<"MRUPDATE", 96>>, <<"PUSH", 100>>, <<"SYSCALL", 104>>, <<"CALL", 108>>, <<"END", 112>>,
  <<"REPEAT", 116>>, <<"RESPAN", 120>>, <<"HALT", 124>>
>>

OpNames == {OpTable[i][1] : i \in 1 .. Len(OpTable)}
OpCode(name) == LET i == CHOOSE i \in 1 .. Len(OpTable) : OpTable[i][1] = name IN OpTable[i][2]

\* operations that may not appear inside a span (control flow "system" operations)
ControlOps == {"SPLIT", "LOOP", "SPAN", "JOIN", "DYN", "SYSCALL", "CALL", "END", "REPEAT", "RESPAN", "HALT"}
\* the only operation carrying an immediate value
ImmOpNames == {"PUSH"}
SpanOpNames == OpNames \ ControlOps

\* hash domains of control blocks = opcode of the operation starting the block (programs.md)
DomainOf(kind) == CASE kind = "join" -> OpCode("JOIN") [] kind = "split" -> OpCode("SPLIT")
                    [] kind = "loop" -> OpCode("LOOP") [] kind = "call" -> OpCode("CALL")
                    [] kind = "syscall" -> OpCode("SYSCALL") [] kind = "dyn" -> OpCode("DYN")
                    [] kind = "span" -> 0
=============================================================================
