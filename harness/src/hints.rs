//! C09: executions under a dishonest host that substitutes prover-supplied hints.
use crate::exec::*;
use crate::util::*;
use processor::{
    crypto::{MerklePath, MerkleStore, MerkleTree, RpoDigest},
    AdviceExtractor, AdviceInjector, AdviceInputs, AdviceProvider, AdviceSource, DefaultHost, ExecutionError, Host,
    HostResponse, MemAdviceProvider, ProcessState,
};
use serde_json::{json, Value};
use vm_core::{Felt, Word};

fn injector_name(i: &AdviceInjector) -> String {
    let d = format!("{i:?}");
    d.chars().take_while(|c| c.is_alphanumeric()).collect()
}

/// A host that answers selected requests with scenario-supplied data instead of the honest answer.
pub struct LyingHost {
    inner: DefaultHost<MemAdviceProvider>,
    /// injector name -> values to leave on the advice stack (first = popped first)
    lie_inj: Option<(String, Vec<Felt>)>,
    /// Merkle path to return for GetMerklePath / UpdateMerkleNode
    lie_path: Option<Vec<Word>>,
    pub lies_told: usize,
}

impl Host for LyingHost {
    fn get_advice<S: ProcessState>(&mut self, process: &S, extractor: AdviceExtractor) -> Result<HostResponse, ExecutionError> {
        if let (AdviceExtractor::GetMerklePath, Some(p)) = (&extractor, &self.lie_path) {
            self.lies_told += 1;
            let path: Vec<RpoDigest> = p.iter().map(|w| RpoDigest::from(*w)).collect();
            return Ok(HostResponse::MerklePath(MerklePath::new(path)));
        }
        self.inner.get_advice(process, extractor)
    }

    fn set_advice<S: ProcessState>(&mut self, process: &S, injector: AdviceInjector) -> Result<HostResponse, ExecutionError> {
        if let Some((name, vals)) = &self.lie_inj {
            if *name == injector_name(&injector) {
                self.lies_told += 1;
                for v in vals.iter().rev() {
                    self.inner.advice_provider_mut().push_stack(AdviceSource::Value(*v))?;
                }
                return Ok(HostResponse::None);
            }
        }
        if let (AdviceInjector::UpdateMerkleNode, Some(p)) = (&injector, &self.lie_path) {
            // perform the honest update (so that the store knows the new tree) but answer with the lie
            let _ = self.inner.set_advice(process, injector)?;
            self.lies_told += 1;
            let path: Vec<RpoDigest> = p.iter().map(|w| RpoDigest::from(*w)).collect();
            return Ok(HostResponse::MerklePath(MerklePath::new(path)));
        }
        self.inner.set_advice(process, injector)
    }
}

fn word_of(v: &Value) -> Word {
    let f = json_to_felts(v);
    [f[0], f[1], f[2], f[3]]
}

/// scenario: {src, stdlib?, inputs, adv, lie: {inj, values}? , tree: {leaves:[W..]}?, stack_tail?: "root"...,
///            merkle_lie: {kind, ...}?}
/// For Merkle scenarios the harness builds the tree from `leaves` (power-of-two many words), appends the operands the
/// scenario asks for (`mk_inputs`: list of tokens "root" | "newroot" | ["depth"] | ["index"] | ["node", d, i] | ["word", W])
/// to the inputs, and derives lie paths from the real tree.
pub fn run_hints(inp: &str, outp: &str) {
    let mut out = Out::new(outp);
    for sc in read_ndjson(inp) {
        let mut sc = sc.clone();
        let mut advice = AdviceInputs::default().with_stack(json_to_felts(&sc["adv"]));
        let mut lie_path: Option<Vec<Word>> = None;
        let mut extra = json!({});
        if sc["tree"].is_object() {
            let leaves: Vec<Word> = sc["tree"]["leaves"].as_array().unwrap().iter().map(word_of).collect();
            let tree = MerkleTree::new(leaves.clone()).expect("tree");
            let store = MerkleStore::from(&tree);
            let root: Word = tree.root().into();
            let depth = tree.depth() as u64;
            // operands
            let mut ins: Vec<Value> = vec![];
            for tok in sc["mk_inputs"].as_array().unwrap() {
                match tok {
                    Value::String(s) if s == "root" => {
                        // a word lies on the stack with element 3 on top
                        for k in (0..4).rev() {
                            ins.push(felt_to_limbs(root[k]));
                        }
                    }
                    Value::Array(a) if a[0] == "felt" => ins.push(u64_to_limbs(a[1].as_u64().unwrap())),
                    Value::Array(a) if a[0] == "node" => {
                        let d = a[1].as_u64().unwrap() as u8;
                        let i = a[2].as_u64().unwrap();
                        let n: Word = store
                            .get_node(tree.root(), processor::crypto::NodeIndex::new(d, i).unwrap())
                            .expect("node")
                            .into();
                        for k in (0..4).rev() {
                            ins.push(felt_to_limbs(n[k]));
                        }
                    }
                    Value::Array(a) if a[0] == "word" => {
                        let w = word_of(&a[1]);
                        for k in (0..4).rev() {
                            ins.push(felt_to_limbs(w[k]));
                        }
                    }
                    _ => panic!("bad mk_inputs token"),
                }
            }
            sc["inputs"] = Value::Array(ins);
            // lie
            let ml = &sc["merkle_lie"];
            if ml.is_object() {
                let d = ml["depth"].as_u64().unwrap_or(depth) as u8;
                let i = ml["index"].as_u64().unwrap_or(0);
                let honest: Vec<Word> = store
                    .get_path(tree.root(), processor::crypto::NodeIndex::new(d, i).unwrap())
                    .expect("path")
                    .path
                    .nodes()
                    .iter()
                    .map(|x| (*x).into())
                    .collect();
                let mut p = honest.clone();
                match ml["kind"].as_str().unwrap() {
                    "path_of" => {}
                    "flip" => {
                        let l = ml["level"].as_u64().unwrap() as usize % p.len().max(1);
                        p[l][0] = p[l][0] + Felt::new(1);
                    }
                    "truncate" => {
                        p.pop();
                    }
                    "extend" => {
                        p.push(p[0]);
                    }
                    "reverse" => p.reverse(),
                    "empty" => p.clear(),
                    other => panic!("lie kind {other}"),
                }
                lie_path = Some(p);
            }
            // substitute the node value the host returns (MerkleNodeToStack)
            if let Some(ln) = sc["lie_node"].as_array() {
                let n: Word = store
                    .get_node(tree.root(), processor::crypto::NodeIndex::new(ln[0].as_u64().unwrap() as u8, ln[1].as_u64().unwrap()).unwrap())
                    .expect("node")
                    .into();
                sc["lie"] = json!({"inj": "MerkleNodeToStack", "values": word_to_json(&n)});
            }
            let mut ex = json!({"root": word_to_json(&root), "depth": depth});
            if let Some(q) = sc["query"].as_array() {
                let idx = processor::crypto::NodeIndex::new(q[0].as_u64().unwrap() as u8, q[1].as_u64().unwrap()).unwrap();
                let n: Word = store.get_node(tree.root(), idx).expect("node").into();
                ex["node"] = word_to_json(&n);
                if sc["set_value"].is_array() {
                    let mut st2 = store.clone();
                    let rp = st2.set_node(tree.root(), idx, word_of(&sc["set_value"]).into()).expect("set_node");
                    let nr: Word = rp.root.into();
                    ex["new_root"] = word_to_json(&nr);
                }
            }
            advice = advice.with_merkle_store(store);
            extra = ex;
        }
        let lie_inj = if sc["lie"].is_object() {
            Some((sc["lie"]["inj"].as_str().unwrap().to_string(), json_to_felts(&sc["lie"]["values"])))
        } else {
            None
        };
        let c = compile(&sc);
        let program = match c.program {
            Some(p) => p,
            None => {
                out.line(&c.outcome);
                continue;
            }
        };
        let inputs = stack_inputs(&sc);
        let opts = exec_options(&sc);
        let mut host = LyingHost { inner: DefaultHost::new(MemAdviceProvider::from(advice)), lie_inj, lie_path, lies_told: 0 };
        let r = catch(|| processor::execute(&program, inputs, &mut host, opts));
        let lies = host.lies_told;
        let line = match r {
            Ok(Ok(trace)) => {
                let stack: Vec<Value> = trace.stack_outputs().stack().iter().map(|x| u64_to_limbs(*x)).collect();
                json!({"outcome": "ok", "stack": stack, "lies": lies, "extra": extra})
            }
            Ok(Err(e)) => json!({"outcome": "err", "err": err_json(&e), "lies": lies, "extra": extra}),
            Err(m) => json!({"outcome": "panic", "msg": m, "lies": lies, "extra": extra}),
        };
        out.line(&line);
    }
    out.flush();
}
