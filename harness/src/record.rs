//! record-vm: per-row recording of real executions for trace validation against MidenVM.tla
//! (C03 C07 C13; shared by C01 C12 C14).
use crate::exec::*;
use crate::util::*;
use miden_air::trace::{
    decoder::{
        ADDR_COL_IDX, GROUP_COUNT_COL_IDX, HASHER_STATE_OFFSET, IN_SPAN_COL_IDX, OP_BATCH_FLAGS_OFFSET, OP_BITS_OFFSET,
        OP_INDEX_COL_IDX,
    },
    CLK_COL_IDX, CTX_COL_IDX, DECODER_TRACE_OFFSET, FMP_COL_IDX, FN_HASH_OFFSET, IN_SYSCALL_COL_IDX, STACK_TRACE_OFFSET,
};
use processor::{DefaultHost, ExecutionTrace, MemAdviceProvider, Program};
use serde_json::{json, Value};
use std::collections::BTreeMap;
use vm_core::{code_blocks::CodeBlock, crypto::hash::Rpo256, Felt, Operation, StarkField};
use winter_prover::Trace;

fn digest_json(d: vm_core::chiplets::hasher::Digest) -> Value {
    let h: [Felt; 4] = d.into();
    felts_to_json(&h)
}

/// MAST node as JSON; call targets are collected into `procs` (hex digest -> node).
pub fn node_json(b: &CodeBlock, program: &Program, procs: &mut BTreeMap<String, Value>) -> Value {
    match b {
        CodeBlock::Join(j) => json!({"k": "join", "h": digest_json(b.hash()),
            "c": [node_json(j.first(), program, procs), node_json(j.second(), program, procs)]}),
        CodeBlock::Split(s) => json!({"k": "split", "h": digest_json(b.hash()),
            "c": [node_json(s.on_true(), program, procs), node_json(s.on_false(), program, procs)]}),
        CodeBlock::Loop(l) => json!({"k": "loop", "h": digest_json(b.hash()), "c": [node_json(l.body(), program, procs)]}),
        CodeBlock::Call(c) => {
            add_proc(c.fn_hash(), program, procs);
            json!({"k": if c.is_syscall() {"syscall"} else {"call"}, "h": digest_json(b.hash()), "f": digest_json(c.fn_hash()),
                   "isdyn": c.fn_hash() == vm_core::code_blocks::Dyn::dyn_hash()})
        }
        CodeBlock::Dyn(_) => json!({"k": "dyn", "h": digest_json(b.hash())}),
        CodeBlock::Span(s) => {
            let mut ops = vec![];
            // procref / dynamic call targets: four consecutive pushes that form the root of a known code block
            let mut pushed: Vec<Felt> = vec![];
            for batch in s.op_batches() {
                for op in batch.ops() {
                    if let Operation::Push(v) = op {
                        pushed.push(*v);
                        if pushed.len() >= 4 {
                            let n = pushed.len();
                            let d = vm_core::chiplets::hasher::Digest::new([pushed[n - 4], pushed[n - 3], pushed[n - 2], pushed[n - 1]]);
                            if program.cb_table().has(d) {
                                add_proc(d, program, procs);
                            }
                        }
                    } else if !matches!(op, Operation::Noop) {
                        pushed.clear();
                    }
                    ops.push(match op {
                        Operation::Push(v) => json!({"o": "PUSH", "c": op.op_code(), "imm": [felt_to_limbs(*v)]}),
                        Operation::Assert(code) => json!({"o": "ASSERT", "c": op.op_code(), "imm": [], "err": code}),
                        Operation::U32assert2(code) => json!({"o": "U32ASSERT2", "c": op.op_code(), "imm": [], "err": code.as_int()}),
                        other => json!({"o": op_name(other), "c": other.op_code(), "imm": []}),
                    });
                }
            }
            json!({"k": "span", "h": digest_json(b.hash()), "ops": ops})
        }
        CodeBlock::Proxy(_) => json!({"k": "proxy", "h": digest_json(b.hash())}),
    }
}

fn hexkey(d: vm_core::chiplets::hasher::Digest) -> String {
    let h: [Felt; 4] = d.into();
    h.iter().map(|f| format!("{:016x}", f.as_int())).collect()
}

fn add_proc(h: vm_core::chiplets::hasher::Digest, program: &Program, procs: &mut BTreeMap<String, Value>) {
    let key = hexkey(h);
    if procs.contains_key(&key) {
        return;
    }
    if let Some(body) = program.cb_table().get(h) {
        procs.insert(key.clone(), Value::Null);
        let n = node_json(body, program, procs);
        procs.insert(key, json!({"h": digest_json(h), "node": n}));
    }
}

fn op_from_bits(m: &winter_prover::matrix::ColMatrix<Felt>, t: usize) -> u8 {
    let mut c = 0u8;
    for i in 0..7 {
        c |= (m.get_column(DECODER_TRACE_OFFSET + OP_BITS_OFFSET + i)[t].as_int() as u8) << i;
    }
    c
}

/// One row of the main trace as an event.
pub fn row_event(trace: &ExecutionTrace, t: usize) -> Value {
    let m = trace.main_segment();
    let g = |c: usize| m.get_column(c)[t];
    let code = op_from_bits(m, t);
    let name = all_ops().into_iter().find(|(_, o)| o.op_code() == code).map(|(n, _)| n).unwrap_or("UNKNOWN");
    let fh: Vec<Felt> = (0..4).map(|i| g(FN_HASH_OFFSET + i)).collect();
    let hs: Vec<Felt> = (0..8).map(|i| g(DECODER_TRACE_OFFSET + HASHER_STATE_OFFSET + i)).collect();
    let top: Vec<Felt> = (0..16).map(|i| g(STACK_TRACE_OFFSET + i)).collect();
    let mut ev = json!({
        "e": "row", "t": t, "op": name, "clk": g(CLK_COL_IDX).as_int(), "fmp": felt_to_limbs(g(FMP_COL_IDX)),
        "ctx": g(CTX_COL_IDX).as_int(), "insys": g(IN_SYSCALL_COL_IDX).as_int(), "fh": felts_to_json(&fh),
        "addr": g(DECODER_TRACE_OFFSET + ADDR_COL_IDX).as_int(), "h": felts_to_json(&hs),
        "sp": g(DECODER_TRACE_OFFSET + IN_SPAN_COL_IDX).as_int(), "gc": g(DECODER_TRACE_OFFSET + GROUP_COUNT_COL_IDX).as_int(),
        "ox": g(DECODER_TRACE_OFFSET + OP_INDEX_COL_IDX).as_int(),
        "bf": [g(DECODER_TRACE_OFFSET + OP_BATCH_FLAGS_OFFSET).as_int(), g(DECODER_TRACE_OFFSET + OP_BATCH_FLAGS_OFFSET + 1).as_int(),
               g(DECODER_TRACE_OFFSET + OP_BATCH_FLAGS_OFFSET + 2).as_int()],
        "s": felts_to_json(&top), "b0": g(STACK_TRACE_OFFSET + 16).as_int(), "b1": felt_to_limbs(g(STACK_TRACE_OFFSET + 17)),
    });
    if name == "HPERM" {
        // result of the permutation computed with the primitive (stack holds the state reversed: s0 = state[11])
        let mut st = [vm_core::ZERO; 12];
        for i in 0..12 {
            st[11 - i] = top[i];
        }
        Rpo256::apply_permutation(&mut st);
        let out: Vec<Felt> = (0..12).map(|i| st[11 - i]).collect();
        ev["perm"] = felts_to_json(&out);
    }
    ev
}

/// scenario -> events (preamble, rows, trailer); rows 0 ..= cycles + 1 (one HALT row after the last operation)
pub fn record_one(sc: &Value, out: &mut Out, id: usize) {
    let c = compile(sc);
    let program = match c.program {
        Some(p) => p,
        None => {
            out.line(&json!({"e": "pre", "id": id, "outcome": c.outcome}));
            return;
        }
    };
    let mut procs = BTreeMap::new();
    let root = node_json(program.root(), &program, &mut procs);
    let opts = exec_options(sc);
    let r = catch(|| {
        let host = DefaultHost::new(MemAdviceProvider::from(advice_inputs(sc)));
        processor::execute(&program, stack_inputs(sc), host, opts)
    });
    let kernel: Vec<Value> = program.kernel().proc_hashes().iter().map(|d| digest_json(*d)).collect();
    // addresses of the initial overflow rows (inputs beyond 16): "negative" clocks, deepest first
    let nin = sc["inputs"].as_array().map(|a| a.len()).unwrap_or(0);
    let nov = nin.saturating_sub(16);
    let init_ovf: Vec<Value> = (0..nov).map(|i| u64_to_limbs(Felt::MODULUS - nov as u64 + i as u64)).collect();
    let mut pre = json!({"e": "pre", "id": id, "src": sc["src"], "mast": root, "kernel": kernel, "init_ovf": init_ovf,
                         "inputs": sc["inputs"], "hash": digest_json(program.hash()),
                         "dynhash": digest_json(vm_core::code_blocks::Dyn::dyn_hash())});
    match r {
        Ok(Ok(trace)) => {
            // dynamically called targets: look at DYN rows
            let n = trace.trace_len_summary().main_trace_len();
            let m = trace.main_segment();
            for t in 0..n {
                if op_from_bits(m, t) == Operation::Dyn.op_code() {
                    let w: Vec<Felt> = (0..4).map(|i| m.get_column(STACK_TRACE_OFFSET + 3 - i)[t]).collect();
                    let d = vm_core::chiplets::hasher::Digest::new([w[0], w[1], w[2], w[3]]);
                    add_proc(d, &program, &mut procs);
                }
            }
            pre["procs"] = Value::Array(procs.values().filter(|v| !v.is_null()).cloned().collect());
            out.line(&pre);
            let last = (n + 1).min(trace.get_trace_len() - 2);
            for t in 0..=last {
                out.line(&row_event(&trace, t));
            }
            let o = trace.stack_outputs();
            let mut chip = chiplet_rows(&trace);
            if sc["chiprows"].as_bool().unwrap_or(false) {
                chip["full"] = chiplet_full(&trace);
            }
            out.line(&json!({"e": "end", "outcome": "ok", "cycles": n, "trace_len": trace.get_trace_len(), "chip": chip,
                "out_stack": o.stack().iter().map(|x| u64_to_limbs(*x)).collect::<Vec<_>>(),
                "out_addrs": o.overflow_addrs().iter().map(|x| u64_to_limbs(*x)).collect::<Vec<_>>(),
                "lens": {"main": n, "range": trace.trace_len_summary().range_trace_len(), "chiplets": trace.trace_len_summary().chiplets_trace_len().trace_len()}}));
        }
        Ok(Err(e)) => {
            pre["procs"] = Value::Array(procs.values().filter(|v| !v.is_null()).cloned().collect());
            out.line(&pre);
            out.line(&json!({"e": "end", "outcome": "err", "err": err_json(&e)}));
        }
        Err(msg) => {
            pre["procs"] = Value::Array(vec![]);
            out.line(&pre);
            out.line(&json!({"e": "end", "outcome": "panic", "msg": msg}));
        }
    }
}

/// responses side of the lookups (C12): memory rows, bitwise results, range table, hasher row count, kernel ROM rows
pub fn chiplet_rows(trace: &ExecutionTrace) -> Value {
    use miden_air::trace::chiplets::{
        BITWISE_A_COL_IDX, BITWISE_B_COL_IDX, BITWISE_OUTPUT_COL_IDX, BITWISE_SELECTOR_COL_IDX, MEMORY_ADDR_COL_IDX, MEMORY_CLK_COL_IDX, MEMORY_CTX_COL_IDX,
        MEMORY_D0_COL_IDX, MEMORY_D1_COL_IDX, MEMORY_SELECTORS_COL_IDX, MEMORY_V_COL_RANGE,
    };
    use miden_air::trace::{range::{M_COL_IDX, V_COL_IDX}, CHIPLETS_OFFSET};
    let m = trace.main_segment();
    let total = trace.get_trace_len() - 1;
    let g = |c: usize, t: usize| m.get_column(c)[t];
    let (mut mem, mut memd, mut bw, mut hasher_rows, mut kernel) = (vec![], vec![], vec![], 0usize, vec![]);
    for t in 0..total {
        let s = |i: usize| g(CHIPLETS_OFFSET + i, t);
        if s(0) == vm_core::ZERO {
            hasher_rows += 1;
        } else if s(1) == vm_core::ZERO {
            if t % 8 == 7 {
                bw.push(json!([g(BITWISE_SELECTOR_COL_IDX, t).as_int(), felt_to_limbs(g(BITWISE_A_COL_IDX, t)), felt_to_limbs(g(BITWISE_B_COL_IDX, t)),
                               felt_to_limbs(g(BITWISE_OUTPUT_COL_IDX, t))]));
            }
        } else if s(2) == vm_core::ZERO {
            let w: Vec<Felt> = MEMORY_V_COL_RANGE.map(|c| g(c, t)).collect();
            mem.push(json!([g(MEMORY_CTX_COL_IDX, t).as_int(), felt_to_limbs(g(MEMORY_ADDR_COL_IDX, t)), g(MEMORY_CLK_COL_IDX, t).as_int(),
                            g(MEMORY_SELECTORS_COL_IDX, t).as_int(), felts_to_json(&w)]));
            memd.push(g(MEMORY_D0_COL_IDX, t).as_int());
            memd.push(g(MEMORY_D1_COL_IDX, t).as_int());
        } else if s(3) == vm_core::ZERO {
            let r: Vec<Felt> = (0..4).map(|i| g(CHIPLETS_OFFSET + 6 + i, t)).collect();
            kernel.push(json!([g(CHIPLETS_OFFSET + 4, t).as_int(), felts_to_json(&r)]));
        }
    }
    // range table: (value, multiplicity) of rows with a non-zero multiplicity
    let mut range = vec![];
    for t in 0..total {
        let mult = g(M_COL_IDX, t).as_int();
        if mult != 0 {
            range.push(json!([g(V_COL_IDX, t).as_int(), mult]));
        }
    }
    json!({"mem": mem, "memd": memd, "bw": bw, "hasher_rows": hasher_rows, "kernel": kernel, "range": range})
}

/// every row of the chiplets segment, by component (Chiplets.tla predicts them from the requests the specification
/// issued); `rounds`: for every 8-row hasher cycle the seven round outputs the RPO primitive computes from the state
/// recorded in the cycle's first row (the permutation is uninterpreted in the specification and bound by this table)
pub fn chiplet_full(trace: &ExecutionTrace) -> Value {
    use miden_air::trace::chiplets::{
        BITWISE_A_COL_IDX, BITWISE_A_COL_RANGE, BITWISE_B_COL_IDX, BITWISE_B_COL_RANGE, BITWISE_OUTPUT_COL_IDX, BITWISE_PREV_OUTPUT_COL_IDX,
        BITWISE_SELECTOR_COL_IDX, HASHER_NODE_INDEX_COL_IDX, HASHER_SELECTOR_COL_RANGE, HASHER_STATE_COL_RANGE, MEMORY_ADDR_COL_IDX,
        MEMORY_CLK_COL_IDX, MEMORY_CTX_COL_IDX, MEMORY_D0_COL_IDX, MEMORY_D1_COL_IDX, MEMORY_D_INV_COL_IDX, MEMORY_SELECTORS_COL_IDX, MEMORY_V_COL_RANGE,
    };
    use miden_air::trace::{CHIPLETS_OFFSET, CHIPLETS_WIDTH};
    let m = trace.main_segment();
    let total = trace.get_trace_len() - 1;
    let g = |c: usize, t: usize| m.get_column(c)[t];
    let (mut hasher, mut rounds, mut bw, mut mem, mut kern) = (vec![], vec![], vec![], vec![], vec![]);
    let (mut pad, mut pad_zero, mut order_ok, mut stage) = (0usize, true, true, 0usize);
    for t in 0..total {
        let s = |i: usize| g(CHIPLETS_OFFSET + i, t);
        let kind = if s(0) == vm_core::ZERO { 0 } else if s(1) == vm_core::ZERO { 1 } else if s(2) == vm_core::ZERO { 2 } else if s(3) == vm_core::ZERO { 3 } else { 4 };
        if kind < stage {
            order_ok = false;
        }
        stage = kind;
        // selector columns must be exactly 0 / 1
        for i in 0..(kind + 1).min(4) {
            if s(i) != vm_core::ZERO && s(i) != vm_core::ONE {
                order_ok = false;
            }
        }
        match kind {
            0 => {
                let sel: Vec<u64> = HASHER_SELECTOR_COL_RANGE.map(|c| g(c, t).as_int()).collect();
                let st: Vec<Felt> = HASHER_STATE_COL_RANGE.map(|c| g(c, t)).collect();
                if hasher.len() % 8 == 0 {
                    let mut x = [vm_core::ZERO; 12];
                    x.copy_from_slice(&st);
                    let mut rs = vec![];
                    for r in 0..7 {
                        Rpo256::apply_round(&mut x, r);
                        rs.push(felts_to_json(&x));
                    }
                    rounds.push(Value::Array(rs));
                }
                hasher.push(json!([sel, felts_to_json(&st), felt_to_limbs(g(HASHER_NODE_INDEX_COL_IDX, t))]));
            }
            1 => {
                let ab: Vec<u64> = BITWISE_A_COL_RANGE.map(|c| g(c, t).as_int()).collect();
                let bb: Vec<u64> = BITWISE_B_COL_RANGE.map(|c| g(c, t).as_int()).collect();
                bw.push(json!([g(BITWISE_SELECTOR_COL_IDX, t).as_int(), felt_to_limbs(g(BITWISE_A_COL_IDX, t)), felt_to_limbs(g(BITWISE_B_COL_IDX, t)), ab, bb,
                               felt_to_limbs(g(BITWISE_PREV_OUTPUT_COL_IDX, t)), felt_to_limbs(g(BITWISE_OUTPUT_COL_IDX, t))]));
                for c in (BITWISE_OUTPUT_COL_IDX + 1)..(CHIPLETS_OFFSET + CHIPLETS_WIDTH) {
                    if g(c, t) != vm_core::ZERO {
                        pad_zero = false;
                    }
                }
            }
            2 => {
                let w: Vec<Felt> = MEMORY_V_COL_RANGE.map(|c| g(c, t)).collect();
                mem.push(json!([g(MEMORY_SELECTORS_COL_IDX, t).as_int(), g(MEMORY_SELECTORS_COL_IDX + 1, t).as_int(), g(MEMORY_CTX_COL_IDX, t).as_int(),
                                felt_to_limbs(g(MEMORY_ADDR_COL_IDX, t)), g(MEMORY_CLK_COL_IDX, t).as_int(), felts_to_json(&w),
                                g(MEMORY_D0_COL_IDX, t).as_int(), g(MEMORY_D1_COL_IDX, t).as_int(), felt_to_limbs(g(MEMORY_D_INV_COL_IDX, t))]));
                for c in (MEMORY_D_INV_COL_IDX + 1)..(CHIPLETS_OFFSET + CHIPLETS_WIDTH) {
                    if g(c, t) != vm_core::ZERO {
                        pad_zero = false;
                    }
                }
            }
            3 => {
                let r: Vec<Felt> = (0..4).map(|i| g(CHIPLETS_OFFSET + 6 + i, t)).collect();
                kern.push(json!([g(CHIPLETS_OFFSET + 4, t).as_int(), g(CHIPLETS_OFFSET + 5, t).as_int(), felts_to_json(&r)]));
                for c in (CHIPLETS_OFFSET + 10)..(CHIPLETS_OFFSET + CHIPLETS_WIDTH) {
                    if g(c, t) != vm_core::ZERO {
                        pad_zero = false;
                    }
                }
            }
            _ => {
                pad += 1;
                for c in (CHIPLETS_OFFSET + 4)..(CHIPLETS_OFFSET + CHIPLETS_WIDTH) {
                    if g(c, t) != vm_core::ZERO {
                        pad_zero = false;
                    }
                }
            }
        }
    }
    json!({"hasher": hasher, "rounds": rounds, "bw": bw, "mem": mem, "kern": kern, "pad": pad, "pad_zero": pad_zero, "order_ok": order_ok})
}

pub fn record_vm(inp: &str, outp: &str) {
    let mut out = Out::new(outp);
    for (i, sc) in read_ndjson(inp).iter().enumerate() {
        record_one(sc, &mut out, i);
    }
    out.flush();
}
