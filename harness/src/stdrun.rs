//! std-run (C18): runs programs that call standard-library procedures and reports the final stack, selected memory
//! words, and reference values computed with the native data structures (Merkle mountain range, sparse Merkle tree,
//! RPO hash of element sequences).
use crate::exec::err_json;
use crate::util::*;
use assembly::Assembler;
use processor::{
    crypto::{MerkleStore, RpoDigest},
    AdviceInputs, ContextId, DefaultHost, ExecutionOptions, MemAdviceProvider, Process, ProcessState, StackInputs,
};
use serde_json::{json, Value};
use vm_core::{
    crypto::{hash::Rpo256, merkle::{Mmr, MmrPeaks, Smt}},
    Felt, Word,
};

fn word(v: &Value) -> Word {
    let a: Vec<Felt> = v.as_array().unwrap().iter().map(|x| Felt::new(x.as_str().map(|s| s.parse::<u64>().unwrap()).or(x.as_u64()).unwrap())).collect();
    [a[0], a[1], a[2], a[3]]
}

fn word_json(w: &Word) -> Value {
    json!(w.iter().map(|f| f.as_int().to_string()).collect::<Vec<_>>())
}

pub fn run_one(sc: &Value) -> Value {
    let src = sc["src"].as_str().unwrap();
    let program = match catch(|| {
        Assembler::default().with_library(&stdlib::StdLibrary::default()).map_err(|e| format!("{e:?}")).and_then(|a| a.compile(src).map_err(|e| format!("{e:?}")))
    }) {
        Ok(Ok(p)) => p,
        Ok(Err(m)) => return json!({"outcome": "asm_err", "msg": m.chars().take(300).collect::<String>()}),
        Err(m) => return json!({"outcome": "asm_panic", "msg": m}),
    };
    let u = |v: &Value| v.as_str().map(|s| s.parse::<u64>().unwrap()).or(v.as_u64()).unwrap();
    let mut inputs: Vec<u64> = sc["inputs"].as_array().map(|a| a.iter().map(u).collect()).unwrap_or_default();
    inputs.reverse();
    let adv: Vec<u64> = sc["adv_stack"].as_array().map(|a| a.iter().map(u).collect()).unwrap_or_default();
    let mut advice = AdviceInputs::default().with_stack_values(adv).unwrap();
    let mut native = json!({});
    // Merkle mountain range built from leaves: its nodes go to the Merkle store
    if let Some(leaves) = sc["mmr_leaves"].as_array() {
        let mut mmr = Mmr::new();
        for l in leaves {
            mmr.add(RpoDigest::from(word(l)));
        }
        let acc = mmr.peaks(mmr.forest()).unwrap();
        native["mmr"] = json!({"num_leaves": acc.num_leaves(), "peaks": acc.peaks().iter().map(|d| word_json(&Word::from(*d))).collect::<Vec<_>>(),
                                "hash_peaks": word_json(&acc.hash_peaks())});
        advice = advice.with_merkle_store(MerkleStore::from(&mmr));
    }
    // an accumulator given directly by its leaf count and peaks
    if sc["mmr_peaks"].is_object() {
        let nl = u(&sc["mmr_peaks"]["num_leaves"]) as usize;
        let peaks: Vec<RpoDigest> = sc["mmr_peaks"]["peaks"].as_array().unwrap().iter().map(|w| RpoDigest::from(word(w))).collect();
        match catch(|| MmrPeaks::new(nl, peaks).map(|p| p.hash_peaks())) {
            Ok(Ok(h)) => native["mmr_peaks"] = json!({"hash_peaks": word_json(&Word::from(h))}),
            Ok(Err(e)) => native["mmr_peaks_err"] = json!(format!("{e:?}")),
            Err(m) => native["mmr_peaks_err"] = json!(m),
        }
    }
    // sparse Merkle tree: entries before the program runs, and the operations the program performs (for the final root)
    if let Some(entries) = sc["smt"].as_array() {
        let mut smt = Smt::new();
        for e in entries {
            smt.insert(RpoDigest::from(word(&e[0])), word(&e[1]));
        }
        let mut store: MerkleStore = MerkleStore::from(&smt);
        let mut map: Vec<(RpoDigest, Vec<Felt>)> = smt.leaves().map(|(_, leaf)| (leaf.hash(), leaf.to_elements())).collect();
        let root0 = smt.root();
        let mut olds = vec![];
        for op in sc["smt_ops"].as_array().unwrap_or(&vec![]) {
            if op[0] == "set" {
                olds.push(word_json(&smt.insert(RpoDigest::from(word(&op[1])), word(&op[2]))));
                // intermediate trees are needed by later operations of the same program
                let st2: MerkleStore = MerkleStore::from(&smt);
                store.extend(st2.inner_nodes());
                map.extend(smt.leaves().map(|(_, leaf)| (leaf.hash(), leaf.to_elements())));
            } else {
                olds.push(word_json(&smt.get_value(&RpoDigest::from(word(&op[1])))));
            }
        }
        native["smt"] = json!({"root0": word_json(&Word::from(root0)), "root": word_json(&Word::from(smt.root())), "results": olds});
        // a dishonest advice map: every leaf hash is answered with the preimage of another leaf
        if sc["smt_forge"].as_bool().unwrap_or(false) {
            let mut keys: Vec<RpoDigest> = vec![];
            for (k, _) in map.iter() {
                if !keys.contains(k) {
                    keys.push(*k);
                }
            }
            if keys.len() >= 2 {
                let vals: Vec<Vec<Felt>> = keys.iter().map(|k| map.iter().find(|(k2, _)| k2 == k).unwrap().1.clone()).collect();
                map = keys.iter().enumerate().map(|(i, k)| (*k, vals[(i + 1) % vals.len()].clone())).collect();
                native["smt_forged_leaves"] = json!(keys.len());
            }
        }
        advice = advice.with_merkle_store(store).with_map(map);
    }
    // sponge absorption from a given hasher state (capacity first): rate overwritten by each block of 8 elements
    if let Some(ab) = sc.get("absorb") {
        let init: Vec<Felt> = ab["init"].as_array().unwrap().iter().map(|x| Felt::new(u(x))).collect();
        let els: Vec<Felt> = ab["elems"].as_array().unwrap().iter().map(|x| Felt::new(u(x))).collect();
        let mut state = [vm_core::ZERO; 12];
        state.copy_from_slice(&init[..12]);
        for blk in els.chunks(8) {
            state[4..12].copy_from_slice(blk);
            Rpo256::apply_permutation(&mut state);
        }
        native["absorb"] = json!(state.iter().map(|f| f.as_int().to_string()).collect::<Vec<_>>());
    }
    if let Some(h) = sc["hash_elems"].as_array() {
        let els: Vec<Felt> = h.iter().map(|x| Felt::new(u(x))).collect();
        native["hash"] = word_json(&Word::from(Rpo256::hash_elements(&els)));
    }
    let stack_inputs = match StackInputs::try_from_values(inputs) {
        Ok(s) => s,
        Err(e) => return json!({"outcome": "input_err", "msg": format!("{e:?}")}),
    };
    let dump: Vec<u32> = sc["mem_dump"].as_array().map(|a| a.iter().map(|x| u(x) as u32).collect()).unwrap_or_default();
    let r = catch(|| {
        let host = DefaultHost::new(MemAdviceProvider::from(advice));
        let mut process = Process::new(program.kernel().clone(), stack_inputs, host, ExecutionOptions::default());
        let res = process.execute(&program);
        let mem: Vec<Value> = dump.iter().map(|a| match process.get_mem_value(ContextId::root(), *a) {
            Some(w) => word_json(&w),
            None => Value::Null,
        }).collect();
        (res, mem)
    });
    match r {
        Ok((Ok(outs), mem)) => json!({"outcome": "ok", "stack": outs.stack().iter().map(|x| x.to_string()).collect::<Vec<_>>(), "mem": mem, "native": native}),
        Ok((Err(e), mem)) => json!({"outcome": "err", "err": err_json(&e), "mem": mem, "native": native}),
        Err(m) => json!({"outcome": "panic", "msg": m, "native": native}),
    }
}

pub fn std_run(inp: &str, outp: &str) {
    let mut out = Out::new(outp);
    for sc in read_ndjson(inp) {
        out.line(&run_one(&sc));
    }
    out.flush();
}
