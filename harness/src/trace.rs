//! Execution-trace recording: determinism across configurations (C14), step-iterator walks (C14),
//! row projections.
use crate::exec::*;
use crate::util::*;
use processor::{DefaultHost, ExecutionTrace, MemAdviceProvider, VmState};
use serde_json::{json, Value};
use vm_core::{chiplets::hasher, Felt};
use winter_prover::Trace;

/// RPO digest over all main-trace columns for rows [0, len - 1) (the last row is random).
pub fn trace_digest(trace: &ExecutionTrace) -> Value {
    let m = trace.main_segment();
    let n = m.num_rows() - ExecutionTrace::NUM_RAND_ROWS;
    let mut elems: Vec<Felt> = Vec::with_capacity(n * m.num_cols());
    for c in 0..m.num_cols() {
        elems.extend_from_slice(&m.get_column(c)[..n]);
    }
    let h: [Felt; 4] = hasher::hash_elements(&elems).into();
    felts_to_json(&h)
}

/// Projection of main-trace row t on the columns the step iterator reports: clk, fmp, ctx, stack top, depth.
pub fn row_projection(trace: &ExecutionTrace, t: usize) -> Value {
    use miden_air::trace::{CLK_COL_IDX, CTX_COL_IDX, FMP_COL_IDX, STACK_TRACE_OFFSET};
    let m = trace.main_segment();
    let top: Vec<Felt> = (0..16).map(|i| m.get_column(STACK_TRACE_OFFSET + i)[t]).collect();
    json!({"clk": m.get_column(CLK_COL_IDX)[t].as_int(), "fmp": m.get_column(FMP_COL_IDX)[t].as_int(),
           "ctx": m.get_column(CTX_COL_IDX)[t].as_int(), "top": felts_to_json(&top),
           "depth": m.get_column(STACK_TRACE_OFFSET + 16)[t].as_int()})
}

fn state_json(s: &VmState) -> Value {
    let mem: Vec<Value> = s.memory.iter().map(|(a, w)| json!([a, word_to_json(w)])).collect();
    json!({"clk": s.clk, "ctx": u32::from(s.ctx), "fmp": s.fmp.as_int(), "stack": felts_to_json(&s.stack), "mem": mem,
           "op": s.op.map(|o| op_name(&o)), "asmop": s.asmop.as_ref().map(|a| json!([a.op(), a.cycle_idx(), a.num_cycles()]))})
}

/// One scenario, many configurations: {src, inputs, adv, configs:[{expected_cycles, tracing, debug, via}]}
pub fn determinism(inp: &str, outp: &str) {
    let mut out = Out::new(outp);
    for sc in read_ndjson(inp) {
        let mut results = vec![];
        for cfg in sc["configs"].as_array().unwrap() {
            let mut s2 = sc.clone();
            s2["debug"] = cfg["debug"].clone();
            s2["expected_cycles"] = cfg["expected_cycles"].clone();
            s2["tracing"] = cfg["tracing"].clone();
            let c = compile(&s2);
            let program = match c.program {
                Some(p) => p,
                None => {
                    results.push(c.outcome);
                    continue;
                }
            };
            let h: [Felt; 4] = program.hash().into();
            let via = cfg["via"].as_str().unwrap_or("execute");
            let r = if via == "execute" {
                let opts = exec_options(&s2);
                match catch(|| {
                    let host = DefaultHost::new(MemAdviceProvider::from(advice_inputs(&s2)));
                    processor::execute(&program, stack_inputs(&s2), host, opts)
                }) {
                    Ok(Ok(trace)) => {
                        let o = trace.stack_outputs();
                        let rows: Vec<Value> = if cfg["rows"].as_bool().unwrap_or(false) {
                            (0..=trace.trace_len_summary().main_trace_len()).map(|t| row_projection(&trace, t)).collect()
                        } else {
                            vec![]
                        };
                        json!({"outcome": "ok", "hash": felts_to_json(&h), "digest": trace_digest(&trace),
                               "cycles": trace.trace_len_summary().main_trace_len(), "trace_len": trace.get_trace_len(),
                               "out_stack": o.stack().iter().map(|x| u64_to_limbs(*x)).collect::<Vec<_>>(),
                               "out_addrs": o.overflow_addrs().to_vec(), "rows": rows,
                               "memrows": if cfg["rows"].as_bool().unwrap_or(false) { crate::record::chiplet_rows(&trace)["mem"].clone() } else { Value::Null }})
                    }
                    Ok(Err(e)) => json!({"outcome": "err", "err": err_json(&e), "hash": felts_to_json(&h)}),
                    Err(m) => json!({"outcome": "panic", "msg": m}),
                }
            } else {
                // step iterator, forward pass
                match catch(|| {
                    let host = DefaultHost::new(MemAdviceProvider::from(advice_inputs(&s2)));
                    let it = processor::execute_iter(&program, stack_inputs(&s2), host);
                    let mut states = vec![];
                    let mut err = Value::Null;
                    for st in it {
                        match st {
                            Ok(s) => states.push(state_json(&s)),
                            Err(e) => err = err_json(&e),
                        }
                    }
                    (states, err)
                }) {
                    Ok((states, err)) => json!({"outcome": if err.is_null() {"ok"} else {"err"}, "err": err,
                                                "hash": felts_to_json(&h), "states": states}),
                    Err(m) => json!({"outcome": "panic", "msg": m}),
                }
            };
            results.push(r);
        }
        out.line(&json!({"results": results}));
    }
    out.flush();
}

/// Step-iterator walks: {src, inputs, adv, walks:["NNBN", ...]} -> per walk the list of returned items.
pub fn iter_walk(inp: &str, outp: &str) {
    let mut out = Out::new(outp);
    for sc in read_ndjson(inp) {
        let mut s2 = sc.clone();
        s2["debug"] = json!(true);
        let c = compile(&s2);
        let program = match c.program {
            Some(p) => p,
            None => {
                out.line(&c.outcome);
                continue;
            }
        };
        let mut walks = vec![];
        for w in sc["walks"].as_array().unwrap() {
            let word = w.as_str().unwrap().to_string();
            let r = catch(|| {
                let host = DefaultHost::new(MemAdviceProvider::from(advice_inputs(&s2)));
                let mut it = processor::execute_iter(&program, stack_inputs(&s2), host);
                let mut items = vec![];
                for ch in word.chars() {
                    let item = if ch == 'N' {
                        match it.next() {
                            None => json!({"r": "none"}),
                            Some(Ok(s)) => json!({"r": "state", "s": state_json(&s)}),
                            Some(Err(e)) => json!({"r": "err", "e": err_json(&e)}),
                        }
                    } else {
                        match it.back() {
                            None => json!({"r": "none"}),
                            Some(s) => json!({"r": "state", "s": state_json(&s)}),
                        }
                    };
                    items.push(item);
                }
                items
            });
            walks.push(match r {
                Ok(items) => json!({"word": word, "items": items}),
                Err(m) => json!({"word": word, "panic": m}),
            });
        }
        out.line(&json!({"outcome": "ok", "walks": walks}));
    }
    out.flush();
}
