//! Assembling and executing programs on the real assembler / processor, with panics captured.
use crate::util::*;
use assembly::Assembler;
use processor::{
    AdviceInputs, DefaultHost, ExecutionError, ExecutionOptions, MemAdviceProvider, Program, StackInputs,
};
use serde_json::{json, Value};
use vm_core::Felt;

pub fn err_json(e: &ExecutionError) -> Value {
    use ExecutionError::*;
    match e {
        FailedAssertion { err_code, .. } => json!({"kind": "FailedAssertion", "code": err_code}),
        DivideByZero(_) => json!({"kind": "DivideByZero", "code": 0}),
        NotBinaryValue(v) => json!({"kind": "NotBinary", "code": 0, "val": felt_to_limbs(*v)}),
        NotU32Value(v, c) => json!({"kind": "NotU32", "code": c.as_int(), "val": felt_to_limbs(*v)}),
        LogArgumentZero(_) => json!({"kind": "LogArgumentZero", "code": 0}),
        AdviceStackReadFailed(_) => json!({"kind": "AdviceStackReadFailed", "code": 0}),
        MemoryAddressOutOfBounds(a) => json!({"kind": "MemoryAddressOutOfBounds", "code": 0, "addr": a}),
        CycleLimitExceeded(n) => json!({"kind": "CycleLimitExceeded", "code": 0, "limit": n}),
        InvalidStackDepthOnReturn(d) => json!({"kind": "InvalidStackDepthOnReturn", "code": 0, "depth": d}),
        other => {
            let d = format!("{other:?}");
            let name: String = d.chars().take_while(|c| c.is_alphanumeric() || *c == '_').collect();
            json!({"kind": name, "code": 0, "detail": d.chars().take(200).collect::<String>()})
        }
    }
}

pub struct Compiled {
    pub program: Option<Program>,
    pub outcome: Value,
}

pub fn make_assembler(sc: &Value) -> Result<Assembler, String> {
    let mut asm = Assembler::default();
    if sc["debug"].as_bool().unwrap_or(false) {
        asm = asm.with_debug_mode(true);
    }
    if sc["stdlib"].as_bool().unwrap_or(false) {
        asm = asm.with_library(&stdlib::StdLibrary::default()).map_err(|e| format!("{e:?}"))?;
    }
    if let Some(k) = sc["kernel"].as_str() {
        asm = asm.with_kernel(k).map_err(|e| format!("{e:?}"))?;
    }
    Ok(asm)
}

pub fn compile(sc: &Value) -> Compiled {
    // a program given as one span of native operations (names of the specification; PUSH takes "PUSH:<decimal>")
    if let Some(ops) = sc["ops"].as_array() {
        let mut v = vec![];
        for o in ops {
            let name = o.as_str().unwrap_or("");
            let op = if let Some(imm) = name.strip_prefix("PUSH:") {
                Some(vm_core::Operation::Push(Felt::new(imm.parse::<u64>().unwrap_or(0))))
            } else {
                all_ops().into_iter().find(|(n, _)| *n == name).map(|(_, o)| o)
            };
            match op {
                Some(op) => v.push(op),
                None => return Compiled { program: None, outcome: json!({"outcome": "asm_err", "msg": format!("unknown operation {name}")}) },
            }
        }
        return match catch(|| Program::new(vm_core::code_blocks::CodeBlock::new_span(v))) {
            Ok(p) => Compiled { program: Some(p), outcome: Value::Null },
            Err(m) => Compiled { program: None, outcome: json!({"outcome": "asm_panic", "msg": m}) },
        };
    }
    let mut src = sc["src"].as_str().unwrap_or("").to_string();
    // a Merkle tree in the advice provider: {{MROOT}} in the source stands for the four elements of its root
    if let Some(tree) = merkle_tree(sc) {
        let r: [Felt; 4] = tree.root().into();
        src = src.replace("{{MROOT}}", &r.iter().map(|f| f.as_int().to_string()).collect::<Vec<_>>().join("."));
    }
    let r = catch(|| make_assembler(sc).and_then(|a| a.compile(&src).map_err(|e| format!("{e:?}"))));
    match r {
        Ok(Ok(p)) => Compiled { program: Some(p), outcome: Value::Null },
        Ok(Err(m)) => Compiled { program: None, outcome: json!({"outcome": "asm_err", "msg": m}) },
        Err(m) => Compiled { program: None, outcome: json!({"outcome": "asm_panic", "msg": m}) },
    }
}

pub fn stack_inputs(sc: &Value) -> StackInputs {
    // scenario lists the stack top-first; StackInputs::new wants the top last
    let mut v: Vec<Felt> = json_to_felts(&sc["inputs"]);
    v.reverse();
    StackInputs::new(v)
}

/// scenario field "mtree": leaves (words of u64) of a Merkle tree put into the advice provider's store
pub fn merkle_tree(sc: &Value) -> Option<processor::crypto::MerkleTree> {
    let leaves = sc["mtree"].as_array()?;
    let words: Vec<vm_core::Word> = leaves
        .iter()
        .map(|w| {
            let v: Vec<Felt> = w.as_array().unwrap().iter().map(|x| Felt::new(x.as_u64().unwrap())).collect();
            [v[0], v[1], v[2], v[3]]
        })
        .collect();
    processor::crypto::MerkleTree::new(words).ok()
}

pub fn advice_inputs(sc: &Value) -> AdviceInputs {
    let adv: Vec<Felt> = json_to_felts(&sc["adv"]);
    let mut a = AdviceInputs::default().with_stack(adv);
    if let Some(tree) = merkle_tree(sc) {
        a = a.with_merkle_store(processor::crypto::MerkleStore::from(&tree));
    }
    // scenario field "advmap": entries [key word (word order: k0 first), values] of the advice map
    if let Some(entries) = sc["advmap"].as_array() {
        let mut m: Vec<(processor::crypto::RpoDigest, Vec<Felt>)> = vec![];
        for e in entries {
            let k = json_to_felts(&e[0]);
            if k.len() != 4 {
                continue;
            }
            let d = processor::crypto::RpoDigest::new([k[0], k[1], k[2], k[3]]);
            m.push((d, json_to_felts(&e[1])));
        }
        a = a.with_map(m);
    }
    a
}

pub fn exec_options_checked(sc: &Value) -> Result<ExecutionOptions, String> {
    let max = sc["max_cycles"].as_u64().map(|x| x as u32);
    let exp = sc["expected_cycles"].as_u64().unwrap_or(64) as u32;
    let tracing = sc["tracing"].as_bool().unwrap_or(false);
    ExecutionOptions::new(max, exp, tracing).map_err(|e| format!("{e:?}"))
}

pub fn exec_options(sc: &Value) -> ExecutionOptions {
    exec_options_checked(sc).unwrap_or_default()
}

/// Runs one scenario; returns the outcome record.
pub fn run_scenario(sc: &Value) -> Value {
    let c = compile(sc);
    let program = match c.program {
        Some(p) => p,
        None => return c.outcome,
    };
    let inputs = stack_inputs(sc);
    let advice = advice_inputs(sc);
    let opts = match catch(|| exec_options_checked(sc)) {
        Ok(Ok(o)) => o,
        Ok(Err(m)) => return json!({"outcome": "opt_err", "msg": m}),
        Err(m) => return json!({"outcome": "opt_panic", "msg": m}),
    };
    let opt_max = opts.max_cycles();
    let opt_exp = opts.expected_cycles();
    let r = catch(|| {
        let host = DefaultHost::new(MemAdviceProvider::from(advice));
        processor::execute(&program, inputs, host, opts)
    });
    match r {
        Ok(Ok(trace)) => {
            let outs = trace.stack_outputs();
            let stack: Vec<Value> = outs.stack().iter().map(|x| u64_to_limbs(*x)).collect();
            let h: [Felt; 4] = program.hash().into();
            json!({"outcome": "ok", "stack": stack, "cycles": trace.trace_len_summary().main_trace_len(),
                   "hash": felts_to_json(&h), "opt_max": opt_max, "opt_exp": opt_exp,
                   "trace_len": trace.get_trace_len()})
        }
        Ok(Err(e)) => json!({"outcome": "err", "err": err_json(&e), "opt_max": opt_max, "opt_exp": opt_exp}),
        Err(m) => json!({"outcome": "panic", "msg": m}),
    }
}

pub fn replay_masm(inp: &str, outp: &str) {
    let mut out = Out::new(outp);
    for sc in read_ndjson(inp) {
        let r = run_scenario(&sc);
        out.line(&r);
    }
    out.flush();
}
