//! Shared helpers: field elements as 16-bit limbs, JSON i/o, operation names, panic capture.
use serde_json::{json, Value};
use std::io::{BufRead, Write};
use vm_core::{Felt, Operation, Word};

pub fn felt_to_limbs(f: Felt) -> Value {
    let x = f.as_int();
    json!([x & 0xffff, (x >> 16) & 0xffff, (x >> 32) & 0xffff, (x >> 48) & 0xffff])
}

pub fn u64_to_limbs(x: u64) -> Value {
    json!([x & 0xffff, (x >> 16) & 0xffff, (x >> 32) & 0xffff, (x >> 48) & 0xffff])
}

/// raw u64 from limbs (may be >= p)
pub fn limbs_to_u64(v: &Value) -> u64 {
    let a = v.as_array().expect("limbs array");
    let mut x = 0u64;
    for (i, l) in a.iter().enumerate() {
        x |= l.as_u64().expect("limb") << (16 * i);
    }
    x
}

pub fn limbs_to_felt(v: &Value) -> Felt {
    Felt::new(limbs_to_u64(v))
}

pub fn felts_to_json(fs: &[Felt]) -> Value {
    Value::Array(fs.iter().map(|f| felt_to_limbs(*f)).collect())
}

pub fn word_to_json(w: &Word) -> Value {
    felts_to_json(&w[..])
}

pub fn json_to_felts(v: &Value) -> Vec<Felt> {
    v.as_array().map(|a| a.iter().map(limbs_to_felt).collect()).unwrap_or_default()
}

pub fn json_to_u64s(v: &Value) -> Vec<u64> {
    v.as_array().map(|a| a.iter().map(limbs_to_u64).collect()).unwrap_or_default()
}

/// Reads ndjson from a file path ("-" = stdin).
pub fn read_ndjson(path: &str) -> Vec<Value> {
    let rdr: Box<dyn BufRead> = if path == "-" {
        Box::new(std::io::BufReader::new(std::io::stdin()))
    } else {
        Box::new(std::io::BufReader::new(std::fs::File::open(path).expect("open input")))
    };
    let mut out = vec![];
    for line in rdr.lines() {
        let line = line.expect("read line");
        let t = line.trim();
        if t.is_empty() {
            continue;
        }
        out.push(serde_json::from_str(t).expect("json line"));
    }
    out
}

pub struct Out {
    w: std::io::BufWriter<Box<dyn Write>>,
}

impl Out {
    pub fn new(path: &str) -> Self {
        let w: Box<dyn Write> = if path == "-" {
            Box::new(std::io::stdout())
        } else {
            Box::new(std::fs::File::create(path).expect("create output"))
        };
        Out { w: std::io::BufWriter::with_capacity(1 << 20, w) }
    }
    pub fn line(&mut self, v: &Value) {
        serde_json::to_writer(&mut self.w, v).unwrap();
        self.w.write_all(b"\n").unwrap();
    }
    pub fn flush(&mut self) {
        self.w.flush().unwrap();
    }
}

/// Runs `f`, turning a panic into Err(message). The panic hook is silenced by `quiet_panics`.
pub fn catch<T>(f: impl FnOnce() -> T) -> Result<T, String> {
    match std::panic::catch_unwind(std::panic::AssertUnwindSafe(f)) {
        Ok(v) => Ok(v),
        Err(e) => {
            let msg = if let Some(s) = e.downcast_ref::<&str>() {
                s.to_string()
            } else if let Some(s) = e.downcast_ref::<String>() {
                s.clone()
            } else {
                "panic".to_string()
            };
            Err(msg)
        }
    }
}

pub fn quiet_panics() {
    if std::env::var("MVH_LOUD").is_ok() {
        return;
    }
    std::panic::set_hook(Box::new(|_| {}));
}

/// Every native operation, with the name used by the specification (docs opcode table).
pub fn all_ops() -> Vec<(&'static str, Operation)> {
    use Operation::*;
    vec![
        ("NOOP", Noop), ("EQZ", Eqz), ("NEG", Neg), ("INV", Inv), ("INCR", Incr), ("NOT", Not),
        ("FMPADD", FmpAdd), ("MLOAD", MLoad), ("SWAP", Swap), ("CALLER", Caller), ("MOVUP2", MovUp2),
        ("MOVDN2", MovDn2), ("MOVUP3", MovUp3), ("MOVDN3", MovDn3), ("ADVPOPW", AdvPopW),
        ("EXPACC", Expacc), ("MOVUP4", MovUp4), ("MOVDN4", MovDn4), ("MOVUP5", MovUp5),
        ("MOVDN5", MovDn5), ("MOVUP6", MovUp6), ("MOVDN6", MovDn6), ("MOVUP7", MovUp7),
        ("MOVDN7", MovDn7), ("SWAPW", SwapW), ("EXT2MUL", Ext2Mul), ("MOVUP8", MovUp8),
        ("MOVDN8", MovDn8), ("SWAPW2", SwapW2), ("SWAPW3", SwapW3), ("SWAPDW", SwapDW),
        ("ASSERT", Assert(0)), ("EQ", Eq), ("ADD", Add), ("MUL", Mul), ("AND", And), ("OR", Or),
        ("U32AND", U32and), ("U32XOR", U32xor), ("FRIE2F4", FriE2F4), ("DROP", Drop), ("CSWAP", CSwap),
        ("CSWAPW", CSwapW), ("MLOADW", MLoadW), ("MSTORE", MStore), ("MSTOREW", MStoreW),
        ("FMPUPDATE", FmpUpdate), ("PAD", Pad), ("DUP0", Dup0), ("DUP1", Dup1), ("DUP2", Dup2),
        ("DUP3", Dup3), ("DUP4", Dup4), ("DUP5", Dup5), ("DUP6", Dup6), ("DUP7", Dup7), ("DUP9", Dup9),
        ("DUP11", Dup11), ("DUP13", Dup13), ("DUP15", Dup15), ("ADVPOP", AdvPop), ("SDEPTH", SDepth),
        ("CLK", Clk), ("U32ADD", U32add), ("U32SUB", U32sub), ("U32MUL", U32mul), ("U32DIV", U32div),
        ("U32SPLIT", U32split), ("U32ASSERT2", U32assert2(vm_core::ZERO)), ("U32ADD3", U32add3),
        ("U32MADD", U32madd), ("HPERM", HPerm), ("MPVERIFY", MpVerify), ("PIPE", Pipe),
        ("MSTREAM", MStream), ("SPLIT", Split), ("LOOP", Loop), ("SPAN", Span), ("JOIN", Join),
        ("DYN", Dyn), ("RCOMBBASE", RCombBase), ("MRUPDATE", MrUpdate), ("PUSH", Push(vm_core::ZERO)),
        ("SYSCALL", SysCall), ("CALL", Call), ("END", End), ("REPEAT", Repeat), ("RESPAN", Respan),
        ("HALT", Halt),
    ]
}

/// Specification name of an operation (by variant, ignoring immediates / error codes).
pub fn op_name(op: &Operation) -> &'static str {
    let d = std::mem::discriminant(op);
    for (n, o) in all_ops() {
        if std::mem::discriminant(&o) == d {
            return n;
        }
    }
    "UNKNOWN"
}

pub fn op_from_code(code: u8, imm: Option<Felt>) -> Option<Operation> {
    for (_, o) in all_ops() {
        if o.op_code() == code {
            return Some(match o {
                Operation::Push(_) => Operation::Push(imm.unwrap_or(vm_core::ZERO)),
                other => other,
            });
        }
    }
    None
}
