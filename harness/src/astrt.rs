//! ast-roundtrip (C10): parse -> encode -> decode -> equality; source locations written and reloaded; compile the
//! original and the round-tripped AST (same root, same execution); compiled-library files; small data containers.
use crate::exec::err_json;
use crate::util::*;
use assembly::{
    ast::{AstSerdeOptions, ModuleAst, ProgramAst},
    Assembler, LibraryNamespace, LibraryPath, MaslLibrary, Module, Version,
};
use processor::{DefaultHost, ExecutionOptions, Kernel, MemAdviceProvider, Program, ProgramInfo, StackInputs, StackOutputs};
use serde_json::{json, Value};
use vm_core::Felt;
use winter_utils::{Deserializable, Serializable, SliceReader};

fn hex(d: vm_core::chiplets::hasher::Digest) -> String {
    let h: [Felt; 4] = d.into();
    h.iter().map(|f| format!("{:016x}", f.as_int())).collect()
}

fn build_lib(mods: &Value, with_locations: bool) -> Result<MaslLibrary, String> {
    let mut modules = vec![];
    let mut ns = None;
    for m in mods.as_array().unwrap() {
        let p = m["path"].as_str().unwrap();
        ns = Some(p.split("::").next().unwrap().to_string());
        let path = LibraryPath::new(p).map_err(|e| format!("path: {e:?}"))?;
        let ast = ModuleAst::parse(m["src"].as_str().unwrap()).map_err(|e| format!("lib parse: {e:?}"))?;
        modules.push(Module::new(path, ast));
    }
    let namespace = LibraryNamespace::new(ns.unwrap_or("la".into())).map_err(|e| format!("{e:?}"))?;
    MaslLibrary::new(namespace, Version::MIN, with_locations, modules, vec![]).map_err(|e| format!("{e:?}"))
}

fn assembler(lib: Option<&MaslLibrary>, kernel: Option<&str>) -> Result<Assembler, String> {
    let mut a = Assembler::default();
    if let Some(l) = lib {
        a = a.with_library(l).map_err(|e| format!("{e:?}"))?;
    }
    if let Some(k) = kernel {
        a = a.with_kernel(k).map_err(|e| format!("{e:?}"))?;
    }
    Ok(a)
}

fn run(p: &Program) -> Value {
    let pr = p.clone();
    match catch(|| {
        let host = DefaultHost::new(MemAdviceProvider::default());
        processor::execute(&pr, StackInputs::try_from_values((1..=18u64).collect::<Vec<_>>()).unwrap(), host, ExecutionOptions::default())
    }) {
        Ok(Ok(t)) => json!({"o": "ok", "stack": t.stack_outputs().stack().iter().map(|x| x.to_string()).collect::<Vec<_>>()}),
        Ok(Err(e)) => json!({"o": "err", "kind": err_json(&e)["kind"]}),
        Err(m) => json!({"o": "panic", "msg": m}),
    }
}

fn compile_prog(ast: &ProgramAst, lib: Option<&MaslLibrary>, kernel: Option<&str>) -> Value {
    match catch(|| assembler(lib, kernel).and_then(|a| a.compile_ast(ast).map_err(|e| format!("{e:?}")))) {
        Ok(Ok(p)) => json!({"o": "ok", "root": hex(p.hash()), "kernel": p.kernel().proc_hashes().iter().map(|d| hex(*d)).collect::<Vec<_>>(), "run": run(&p)}),
        Ok(Err(m)) => json!({"o": "err", "kind": m.chars().take_while(|c| c.is_alphanumeric()).collect::<String>()}),
        Err(m) => json!({"o": "panic", "msg": m}),
    }
}

pub fn roundtrip_one(sc: &Value) -> Value {
    let src = sc["src"].as_str().unwrap();
    let kernel = sc["kernel"].as_str();
    let lib = match sc.get("lib").filter(|l| l.is_array()) {
        Some(l) => match catch(|| build_lib(l, false)) {
            Ok(Ok(x)) => Some(x),
            Ok(Err(m)) => return json!({"outcome": "lib_err", "msg": m}),
            Err(m) => return json!({"outcome": "lib_panic", "msg": m}),
        },
        None => None,
    };
    let mut out = json!({"outcome": "ok"});
    // --- the library file itself
    if let (Some(l), Some(mods)) = (&lib, sc.get("lib")) {
        for with_loc in [false, true] {
            let key = if with_loc { "lib_rt_loc" } else { "lib_rt" };
            out[key] = match catch(|| -> Result<bool, String> {
                let l0 = if with_loc { build_lib(mods, true)? } else { l.clone() };
                let b = l0.to_bytes();
                let l2 = MaslLibrary::read_from_bytes(&b).map_err(|e| format!("{e:?}"))?;
                Ok(l2 == l0 && l2.to_bytes() == b)
            }) {
                Ok(Ok(eq)) => json!({"o": "ok", "eq": eq}),
                Ok(Err(m)) => json!({"o": "err", "msg": m.chars().take(200).collect::<String>()}),
                Err(m) => json!({"o": "panic", "msg": m}),
            };
        }
    }
    if sc["kind"] == "program" {
        let ast = match catch(|| ProgramAst::parse(src).map_err(|e| format!("{e:?}"))) {
            Ok(Ok(a)) => a,
            Ok(Err(m)) => return json!({"outcome": "parse_err", "msg": m.chars().take(200).collect::<String>()}),
            Err(m) => return json!({"outcome": "parse_panic", "msg": m}),
        };
        for (key, opt) in [("rt", true), ("rt_noimports", false)] {
            out[key] = match catch(|| -> Result<(bool, ProgramAst), String> {
                let b = ast.to_bytes(AstSerdeOptions::new(opt));
                let a2 = ProgramAst::from_bytes(&b).map_err(|e| format!("{e:?}"))?;
                let same_bytes = a2.to_bytes(AstSerdeOptions::new(opt)) == b;
                // source locations written separately and reloaded
                let mut loc = vec![];
                ast.write_source_locations(&mut loc);
                let mut a3 = a2.clone();
                a3.load_source_locations(&mut SliceReader::new(&loc)).map_err(|e| format!("loc: {e:?}"))?;
                Ok((same_bytes && (!opt || a3 == ast) && (opt || a3.body() == ast.body()), a3))
            }) {
                Ok(Ok((eq, a3))) => {
                    let mut v = json!({"o": "ok", "eq": eq});
                    if opt {
                        v["compile_orig"] = compile_prog(&ast, lib.as_ref(), kernel);
                        v["compile_rt"] = compile_prog(&a3, lib.as_ref(), kernel);
                    }
                    v
                }
                Ok(Err(m)) => json!({"o": "err", "msg": m.chars().take(200).collect::<String>()}),
                Err(m) => json!({"o": "panic", "msg": m}),
            };
        }
    } else {
        let ast = match catch(|| ModuleAst::parse(src).map_err(|e| format!("{e:?}"))) {
            Ok(Ok(a)) => a,
            Ok(Err(m)) => return json!({"outcome": "parse_err", "msg": m.chars().take(200).collect::<String>()}),
            Err(m) => return json!({"outcome": "parse_panic", "msg": m}),
        };
        out["rt"] = match catch(|| -> Result<bool, String> {
            let b = ast.to_bytes(AstSerdeOptions::new(true));
            let a2 = ModuleAst::from_bytes(&b).map_err(|e| format!("{e:?}"))?;
            let same_bytes = a2.to_bytes(AstSerdeOptions::new(true)) == b;
            let mut loc = vec![];
            ast.write_source_locations(&mut loc);
            let mut a3 = a2.clone();
            a3.load_source_locations(&mut SliceReader::new(&loc)).map_err(|e| format!("loc: {e:?}"))?;
            Ok(same_bytes && a3 == ast)
        }) {
            Ok(Ok(eq)) => json!({"o": "ok", "eq": eq}),
            Ok(Err(m)) => json!({"o": "err", "msg": m.chars().take(200).collect::<String>()}),
            Err(m) => json!({"o": "panic", "msg": m}),
        };
    }
    out
}

pub fn ast_roundtrip(inp: &str, outp: &str) {
    let mut out = Out::new(outp);
    for sc in read_ndjson(inp) {
        out.line(&roundtrip_one(&sc));
    }
    out.flush();
}

/// data containers: program info, kernels, stack inputs / outputs built from given values
pub fn data_roundtrip(inp: &str, outp: &str) {
    let mut out = Out::new(outp);
    for sc in read_ndjson(inp) {
        let vals: Vec<u64> = sc["values"].as_array().unwrap().iter().map(|x| x.as_str().unwrap().parse::<u64>().unwrap()).collect();
        let r = catch(|| -> Result<bool, String> {
            match sc["type"].as_str().unwrap() {
                "StackInputs" => {
                    let v = StackInputs::try_from_values(vals.clone()).map_err(|e| format!("{e:?}"))?;
                    let b = v.to_bytes();
                    let w = StackInputs::read_from_bytes(&b).map_err(|e| format!("{e:?}"))?;
                    Ok(w.values() == v.values() && w.to_bytes() == b)
                }
                "StackOutputs" => {
                    let n = vals.len();
                    let addrs: Vec<u64> = if n > 16 { (0..(n + 1 - 16) as u64).collect() } else { vec![] };
                    let v = StackOutputs::new(vals.clone(), addrs).map_err(|e| format!("{e:?}"))?;
                    let b = v.to_bytes();
                    let w = StackOutputs::read_from_bytes(&b).map_err(|e| format!("{e:?}"))?;
                    Ok(w == v && w.to_bytes() == b)
                }
                _ => {
                    let ds: Vec<vm_core::chiplets::hasher::Digest> = vals.chunks(4).filter(|c| c.len() == 4)
                        .map(|c| vm_core::chiplets::hasher::Digest::new([Felt::new(c[0]), Felt::new(c[1]), Felt::new(c[2]), Felt::new(c[3])])).collect();
                    let k = Kernel::new(&ds).map_err(|e| format!("{e:?}"))?;
                    let kb = k.to_bytes();
                    let k2 = Kernel::read_from_bytes(&kb).map_err(|e| format!("{e:?}"))?;
                    let info = ProgramInfo::new(ds.first().cloned().unwrap_or_default(), k.clone());
                    let ib = info.to_bytes();
                    let i2 = ProgramInfo::read_from_bytes(&ib).map_err(|e| format!("{e:?}"))?;
                    Ok(k2.proc_hashes() == k.proc_hashes() && k2.to_bytes() == kb && i2 == info && i2.to_bytes() == ib)
                }
            }
        });
        out.line(&match r {
            Ok(Ok(eq)) => json!({"o": "ok", "eq": eq}),
            Ok(Err(m)) => json!({"o": "err", "msg": m.chars().take(160).collect::<String>()}),
            Err(m) => json!({"o": "panic", "msg": m}),
        });
    }
    out.flush();
}
