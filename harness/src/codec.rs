//! C19 / C10: decoders of untrusted bytes (small containers, proofs, ASTs, libraries) and encode/decode round trips.
use crate::util::*;
use assembly::ast::{ModuleAst, ProgramAst};
use miden_air::ExecutionProof;
use processor::{Kernel, ProgramInfo, StackInputs, StackOutputs};
use serde_json::{json, Value};
use winter_utils::{Deserializable, Serializable};

fn hex(b: &[u8]) -> String {
    b.iter().map(|x| format!("{x:02x}")).collect()
}

fn unhex(s: &str) -> Vec<u8> {
    (0..s.len() / 2).map(|i| u8::from_str_radix(&s[2 * i..2 * i + 2], 16).unwrap()).collect()
}

fn outcome<T>(r: Result<Result<T, String>, String>, reenc: impl Fn(&T) -> Vec<u8>, dec_eq: impl Fn(&T, &[u8]) -> bool) -> Value {
    match r {
        Ok(Ok(v)) => match catch(|| reenc(&v)) {
            Ok(b) => {
                let eq = catch(|| dec_eq(&v, &b)).unwrap_or(false);
                json!({"outcome": "ok", "reencoded": hex(&b), "redecode_equal": eq})
            }
            Err(m) => json!({"outcome": "reencode_panic", "msg": m}),
        },
        Ok(Err(e)) => json!({"outcome": "err", "msg": e.chars().take(120).collect::<String>()}),
        Err(m) => json!({"outcome": "panic", "msg": m}),
    }
}

/// a valid proof + statement used to check that decoded statement parts can be handed to `verify` without a panic
pub struct Fixture {
    pub info: ProgramInfo,
    pub inputs: StackInputs,
    pub outputs: StackOutputs,
    pub proof: ExecutionProof,
}

fn fixture() -> Fixture {
    use processor::{DefaultHost, MemAdviceProvider};
    let program = assembly::Assembler::default().compile("begin push.1 push.2 add end").unwrap();
    let inputs = StackInputs::new(vec![]);
    let host = DefaultHost::new(MemAdviceProvider::default());
    let (outputs, proof) = prover::prove(&program, inputs.clone(), host, miden_air::ProvingOptions::default()).unwrap();
    Fixture { info: ProgramInfo::from(program), inputs, outputs, proof }
}

fn verify_no_panic(fx: &Fixture, info: Option<ProgramInfo>, inputs: Option<StackInputs>, outputs: Option<StackOutputs>) -> Value {
    let r = catch(|| {
        verifier::verify(info.unwrap_or(fx.info.clone()), inputs.unwrap_or(fx.inputs.clone()), outputs.unwrap_or(fx.outputs.clone()), fx.proof.clone())
            .map_err(|e| format!("{e:?}"))
    });
    match r {
        Ok(Ok(_)) => json!("accept"),
        Ok(Err(_)) => json!("reject"),
        Err(m) => json!({"panic": m}),
    }
}

/// {type, hex} -> outcome of the real decoder
pub fn codec(inp: &str, outp: &str, skip: usize) {
    let mut out = Out::new(outp);
    let fx = fixture();
    for sc in read_ndjson(inp).into_iter().skip(skip) {
        let bytes = unhex(sc["hex"].as_str().unwrap());
        let ty = sc["type"].as_str().unwrap();
        let mut line = match ty {
            "StackInputs" => {
                let r = catch(|| StackInputs::read_from_bytes(&bytes).map_err(|e| format!("{e:?}")));
                let mut l = outcome(r.clone(), |v| v.to_bytes(), |v, b| StackInputs::read_from_bytes(b).map(|w| w.values() == v.values()).unwrap_or(false));
                if let Ok(Ok(v)) = r {
                    l["verify"] = verify_no_panic(&fx, None, Some(v), None);
                }
                l
            }
            "StackOutputs" => {
                let r = catch(|| StackOutputs::read_from_bytes(&bytes).map_err(|e| format!("{e:?}")));
                let mut l = outcome(r.clone(), |v| v.to_bytes(), |v, b| StackOutputs::read_from_bytes(b).map(|w| &w == v).unwrap_or(false));
                if let Ok(Ok(v)) = r {
                    l["verify"] = verify_no_panic(&fx, None, None, Some(v));
                }
                l
            }
            "Kernel" => {
                let r = catch(|| Kernel::read_from_bytes(&bytes).map_err(|e| format!("{e:?}")));
                let mut l = outcome(r.clone(), |v| v.to_bytes(), |v, b| Kernel::read_from_bytes(b).map(|w| w.proc_hashes() == v.proc_hashes()).unwrap_or(false));
                if let Ok(Ok(v)) = r {
                    l["verify"] = verify_no_panic(&fx, Some(ProgramInfo::new(*fx.info.program_hash(), v)), None, None);
                }
                l
            }
            "ProgramInfo" => {
                let r = catch(|| ProgramInfo::read_from_bytes(&bytes).map_err(|e| format!("{e:?}")));
                let mut l = outcome(r.clone(), |v| v.to_bytes(), |v, b| ProgramInfo::read_from_bytes(b).map(|w| &w == v).unwrap_or(false));
                if let Ok(Ok(v)) = r {
                    l["verify"] = verify_no_panic(&fx, Some(v), None, None);
                }
                l
            }
            "ExecutionProof" => {
                let r = catch(|| ExecutionProof::from_bytes(&bytes).map_err(|e| format!("{e:?}")));
                outcome(r, |v| v.to_bytes(), |v, b| ExecutionProof::from_bytes(b).map(|w| &w == v).unwrap_or(false))
            }
            "ProgramAst" => {
                let r = catch(|| ProgramAst::from_bytes(&bytes).map_err(|e| format!("{e:?}")));
                outcome(r, |v| v.to_bytes(assembly::ast::AstSerdeOptions::new(true)), |v, b| ProgramAst::from_bytes(b).map(|w| &w == v).unwrap_or(false))
            }
            "ModuleAst" => {
                let r = catch(|| ModuleAst::from_bytes(&bytes).map_err(|e| format!("{e:?}")));
                outcome(r, |v| v.to_bytes(assembly::ast::AstSerdeOptions::new(true)), |v, b| ModuleAst::from_bytes(b).map(|w| &w == v).unwrap_or(false))
            }
            "MaslLibrary" => {
                let r = catch(|| assembly::MaslLibrary::read_from_bytes(&bytes).map_err(|e| format!("{e:?}")));
                outcome(r, |v| v.to_bytes(), |v, b| assembly::MaslLibrary::read_from_bytes(b).map(|w| &w == v).unwrap_or(false))
            }
            "LibraryPath" => {
                let r = catch(|| assembly::LibraryPath::read_from_bytes(&bytes).map_err(|e| format!("{e:?}")));
                outcome(r, |v| v.to_bytes(), |v, b| assembly::LibraryPath::read_from_bytes(b).map(|w| &w == v).unwrap_or(false))
            }
            // the same path bytes where a module's decoder meets them: as the import of a serialised module
            "ModuleAst:import" => {
                let placeholder = "zzplaceholder::qq";
                let m = ModuleAst::parse(&format!("use.{placeholder}\nexport.f\n  exec.qq::g\nend\n")).expect("fixture module");
                let mb = m.to_bytes(assembly::ast::AstSerdeOptions::new(true));
                let mut pat = (placeholder.len() as u16).to_le_bytes().to_vec();
                pat.extend_from_slice(placeholder.as_bytes());
                match mb.windows(pat.len()).position(|w| w == &pat[..]) {
                    None => json!({"outcome": "unknown_type", "msg": "import path not found in the fixture module"}),
                    Some(pos) => {
                        let mut spliced = mb[..pos].to_vec();
                        spliced.extend_from_slice(&bytes);
                        spliced.extend_from_slice(&mb[pos + pat.len()..]);
                        let r = catch(|| ModuleAst::from_bytes(&spliced).map_err(|e| format!("{e:?}")));
                        outcome(r, |v| v.to_bytes(assembly::ast::AstSerdeOptions::new(true)), |v, b| ModuleAst::from_bytes(b).map(|w| &w == v).unwrap_or(false))
                    }
                }
            }
            _ => json!({"outcome": "unknown_type"}),
        };
        line["type"] = json!(ty);
        out.line(&line);
        out.flush(); // a later input may kill the process (allocation failure): keep what we have
    }
    out.flush();
}

/// integer constructors: {ctor, values:[u64 as decimal strings]} -> ok / err / panic
pub fn ctors(inp: &str, outp: &str) {
    let mut out = Out::new(outp);
    for sc in read_ndjson(inp) {
        let vals: Vec<u64> = sc["values"].as_array().unwrap().iter().map(|x| x.as_str().unwrap().parse::<u64>().unwrap()).collect();
        let r = match sc["ctor"].as_str().unwrap() {
            "StackInputs::try_from_values" => catch(|| StackInputs::try_from_values(vals.clone()).map(|_| ()).map_err(|e| format!("{e:?}"))),
            "StackOutputs::new(stack)" => catch(|| {
                let n = vals.len();
                let addrs: Vec<u64> = if n > 16 { (0..(n + 1 - 16) as u64).collect() } else { vec![] };
                StackOutputs::new(vals.clone(), addrs).map(|_| ()).map_err(|e| format!("{e:?}"))
            }),
            "StackOutputs::new(addrs)" => catch(|| {
                let stack: Vec<u64> = (0..(16 + vals.len() as u64 - 1)).collect();
                StackOutputs::new(stack, vals.clone()).map(|_| ()).map_err(|e| format!("{e:?}"))
            }),
            "AdviceInputs::with_stack_values" => catch(|| processor::AdviceInputs::default().with_stack_values(vals.clone()).map(|_| ()).map_err(|e| format!("{e:?}"))),
            _ => Ok(Err("unknown".to_string())),
        };
        out.line(&match r {
            Ok(Ok(())) => json!({"outcome": "ok"}),
            Ok(Err(e)) => json!({"outcome": "err", "msg": e.chars().take(100).collect::<String>()}),
            Err(m) => json!({"outcome": "panic", "msg": m}),
        });
    }
    out.flush();
}

/// valid encodings of the large formats (for structured mutation by the check): prints {type, hex}
pub fn corpus(outp: &str) {
    let mut out = Out::new(outp);
    let fx = fixture();
    out.line(&json!({"type": "ExecutionProof", "hex": hex(&fx.proof.to_bytes())}));
    let srcs = ["begin push.1 push.2 add end",
                "proc.foo.2 push.3 loc_store.0 loc_load.0 end begin exec.foo if.true push.1 else push.2 end repeat.2 push.0x10 drop end push.1 while.true push.0 end end",
                "use.std::math::u64\nbegin push.1.2 push.3.4 exec.u64::wrapping_add call.u64::wrapping_mul adv.push_mapval emit.5 trace.7 u32shl.3 mem_storew.7 end"];
    for s in srcs {
        if let Ok(ast) = ProgramAst::parse(s) {
            out.line(&json!({"type": "ProgramAst", "hex": hex(&ast.to_bytes(assembly::ast::AstSerdeOptions::new(true)))}));
        }
    }
    let msrc = "use.std::math::u64\n#! doc\nexport.bar.1\n push.1 loc_store.0 exec.u64::wrapping_add\nend\nexport.u64::checked_add->cadd\nproc.helper push.0xff end\nexport.baz exec.helper call.bar end\n";
    if let Ok(ast) = ModuleAst::parse(msrc) {
        out.line(&json!({"type": "ModuleAst", "hex": hex(&ast.to_bytes(assembly::ast::AstSerdeOptions::new(true)))}));
    }
    // length-limited text fields at their limits: module docs, procedure docs (u16 length prefixes), long names
    let big = "d".repeat(65535 - 1);
    let name = "n".repeat(100);
    let msrc2 = format!("#! {big}\n\nuse.std::math::u64\n#! {big}\nexport.{name}.1\n push.1 loc_store.0\nend\n#! {big}\nexport.u64::checked_add->cadd\n");
    match ModuleAst::parse(&msrc2) {
        Ok(ast) => out.line(&json!({"type": "ModuleAst", "hex": hex(&ast.to_bytes(assembly::ast::AstSerdeOptions::new(true))), "big": true})),
        Err(e) => eprintln!("corpus: big-docs module does not parse: {e:?}"),
    }
    let psrc2 = format!("#! {big}\nproc.{name}\n push.1\nend\nbegin exec.{name} end");
    match ProgramAst::parse(&psrc2) {
        Ok(ast) => out.line(&json!({"type": "ProgramAst", "hex": hex(&ast.to_bytes(assembly::ast::AstSerdeOptions::new(true))), "big": true})),
        Err(e) => eprintln!("corpus: big-docs program does not parse: {e:?}"),
    }
    out.flush();
}
