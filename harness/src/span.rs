//! C08 / C13: replay of specification-generated span scenarios on the real `Span::new`.
use crate::util::*;
use serde_json::{json, Value};
use vm_core::{chiplets::hasher, code_blocks::CodeBlock, Felt, Operation};

/// input: ndjson scenarios {ops:[{c,imm:[F]|[]}], batches:[{groups:[F x8],...}]}
/// output: per scenario what the implementation produced.
pub fn replay_span(inp: &str, outp: &str) {
    let mut out = Out::new(outp);
    for sc in read_ndjson(inp) {
        let ops: Vec<Operation> = sc["ops"]
            .as_array()
            .unwrap()
            .iter()
            .map(|o| {
                let c = o["c"].as_u64().unwrap() as u8;
                let imm = o["imm"].as_array().and_then(|a| a.first()).map(limbs_to_felt);
                op_from_code(c, imm).expect("opcode")
            })
            .collect();
        // hash of the groups the specification predicts, evaluated with the primitive
        let mut exp_groups: Vec<Felt> = vec![];
        for b in sc["batches"].as_array().unwrap() {
            exp_groups.extend(json_to_felts(&b["groups"]));
        }
        let recipe_hash = hasher::hash_elements(&exp_groups);
        let r = catch(|| {
            let block = CodeBlock::new_span(ops.clone());
            let span = match &block {
                CodeBlock::Span(s) => s.clone(),
                _ => unreachable!(),
            };
            let batches: Vec<Value> = span
                .op_batches()
                .iter()
                .map(|b| {
                    json!({
                        "groups": felts_to_json(&b.groups()[..]),
                        "counts": b.op_counts().to_vec(),
                        "ng": b.num_groups(),
                        "ops": b.ops().iter().map(|o| o.op_code()).collect::<Vec<u8>>(),
                    })
                })
                .collect();
            let h: [Felt; 4] = span.hash().into();
            let bh: [Felt; 4] = block.hash().into();
            json!({"batches": batches, "hash": felts_to_json(&h), "block_hash": felts_to_json(&bh),
                   "gc": vm_core::code_blocks::get_span_op_group_count(span.op_batches())})
        });
        let rh: [Felt; 4] = recipe_hash.into();
        let line = match r {
            Ok(v) => json!({"outcome": "ok", "impl": v, "recipe_hash": felts_to_json(&rh)}),
            Err(m) => json!({"outcome": "panic", "msg": m}),
        };
        out.line(&line);
    }
    out.flush();
}

/// prints the implementation's opcode table: [[name, code, has_imm, is_control]...]
pub fn opcodes(outp: &str) {
    let mut out = Out::new(outp);
    for (n, o) in all_ops() {
        out.line(&json!({"name": n, "code": o.op_code(), "imm": o.imm_value().is_some(), "control": o.is_control_op()}));
    }
    out.flush();
}
