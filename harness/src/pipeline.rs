//! C01 / C02: execute -> prove -> (bytes) -> verify on real artefacts, with tampering of the statement and the proof.
use crate::exec::*;
use crate::util::*;
use miden_air::{ExecutionProof, FieldExtension, HashFunction, ProvingOptions};
use processor::{DefaultHost, Kernel, MemAdviceProvider, ProgramInfo, StackInputs, StackOutputs};
use serde_json::{json, Value};
use vm_core::{chiplets::hasher::Digest, Felt, StarkField};

/// parameter set x hash function (the documented parameter sets are air/src/options.rs's constants)
fn options(name: &str, hash: &str) -> ProvingOptions {
    let h = match hash {
        "blake3_256" => HashFunction::Blake3_256,
        "rpo256" => HashFunction::Rpo256,
        _ => HashFunction::Blake3_192,
    };
    use FieldExtension::{Cubic, Quadratic};
    match name {
        "regular96" => ProvingOptions::new(27, 8, 16, Quadratic, 8, 255, h),
        "regular128" => ProvingOptions::new(27, 16, 21, Cubic, 8, 255, h),
        "recursive96" => ProvingOptions::new(27, 8, 16, Quadratic, 4, 7, h),
        "recursive128" => ProvingOptions::new(27, 16, 21, Cubic, 4, 7, h),
        "q26" => ProvingOptions::new(26, 8, 16, Quadratic, 8, 255, h),
        "g15" => ProvingOptions::new(27, 8, 15, Quadratic, 8, 255, h),
        "b4" => ProvingOptions::new(27, 4, 16, Quadratic, 8, 255, h),
        // fewer queries, no grinding: outside every accepted set
        _ => ProvingOptions::new(8, 8, 0, Quadratic, 8, 255, h),
    }
}

fn verdict(r: Result<Result<u32, String>, String>) -> Value {
    match r {
        Ok(Ok(level)) => json!({"v": "accept", "level": level}),
        Ok(Err(e)) => json!({"v": "reject", "err": e.chars().take(160).collect::<String>()}),
        Err(m) => json!({"v": "panic", "msg": m}),
    }
}

struct Stmt {
    hash: [Felt; 4],
    kernel: Vec<Digest>,
    inputs: Vec<Felt>, // top first
    out_stack: Vec<u64>,
    out_addrs: Vec<u64>,
}

fn verify_with(st: &Stmt, proof_bytes: &[u8], direct: Option<&ExecutionProof>) -> Value {
    let r = catch(|| -> Result<u32, String> {
        let kernel = Kernel::new(&st.kernel).map_err(|e| format!("kernel: {e:?}"))?;
        let info = ProgramInfo::new(Digest::new(st.hash), kernel);
        let mut v = st.inputs.clone();
        v.reverse();
        let inputs = StackInputs::new(v);
        let outputs = StackOutputs::new(st.out_stack.clone(), st.out_addrs.clone()).map_err(|e| format!("outputs: {e:?}"))?;
        let proof = match direct {
            Some(p) => p.clone(),
            None => ExecutionProof::from_bytes(proof_bytes).map_err(|e| format!("from_bytes: {e:?}"))?,
        };
        verifier::verify(info, inputs, outputs, proof).map_err(|e| format!("verify: {e:?}"))
    });
    verdict(r)
}

fn some_digest(k: u64) -> Digest {
    Digest::new([Felt::new(k + 11), Felt::new(k + 12), Felt::new(k + 13), Felt::new(k + 14)])
}

/// scenario {src, kernel, inputs, adv, opts, via_bytes, tampers:[kind...]}
pub fn pipeline(inp: &str, outp: &str) {
    let mut out = Out::new(outp);
    for sc in read_ndjson(inp) {
        let c = compile(&sc);
        let program = match c.program {
            Some(p) => p,
            None => {
                out.line(&c.outcome);
                continue;
            }
        };
        let opts = options(sc["opts"].as_str().unwrap_or("regular96"), sc["hash"].as_str().unwrap_or("blake3_192"));
        let via_bytes = sc["via_bytes"].as_bool().unwrap_or(false);
        let r = catch(|| {
            let host = DefaultHost::new(MemAdviceProvider::from(advice_inputs(&sc)));
            prover::prove(&program, stack_inputs(&sc), host, opts)
        });
        let (outputs, proof) = match r {
            Ok(Ok(x)) => x,
            Ok(Err(e)) => {
                out.line(&json!({"outcome": "prove_err", "err": err_json(&e)}));
                continue;
            }
            Err(m) => {
                out.line(&json!({"outcome": "prove_panic", "msg": m}));
                continue;
            }
        };
        // what execution reported (independent run)
        let exec = catch(|| {
            let host = DefaultHost::new(MemAdviceProvider::from(advice_inputs(&sc)));
            processor::execute(&program, stack_inputs(&sc), host, exec_options(&sc))
        });
        let exec_out = match exec {
            Ok(Ok(t)) => Some(t.stack_outputs().clone()),
            _ => None,
        };
        let bytes = proof.to_bytes();
        let reparsed_equal = ExecutionProof::from_bytes(&bytes).map(|p| p == proof).unwrap_or(false);
        let h: [Felt; 4] = program.hash().into();
        let base = Stmt { hash: h, kernel: program.kernel().proc_hashes().to_vec(), inputs: json_to_felts(&sc["inputs"]),
                          out_stack: outputs.stack().to_vec(), out_addrs: outputs.overflow_addrs().to_vec() };
        let direct = if via_bytes { None } else { Some(&proof) };
        let base_v = verify_with(&base, &bytes, direct);
        let mut tv = vec![];
        for t in sc["tampers"].as_array().unwrap_or(&vec![]) {
            let kind = t.as_str().unwrap();
            let nparams = match kind {
                "prog_hash" => 4, "flip_byte" => 16, "truncate" => 8, "input_change" => 16, "output_top" => 16, "output_deep" => 3, "ovf_addr" => 6,
                "relabel_tag" | "invalid_tag" | "input_append" | "output_append" => 2,
                _ => 1,
            };
            for p in 0..nparams {
                let mut st = Stmt { hash: base.hash, kernel: base.kernel.clone(), inputs: base.inputs.clone(),
                                    out_stack: base.out_stack.clone(), out_addrs: base.out_addrs.clone() };
                let mut b = bytes.clone();
                let mut applicable = true;
                match kind {
                    "none" => {}
                    "prog_hash" => st.hash[p] = st.hash[p] + Felt::new(1),
                    "kernel_add" => st.kernel.push(some_digest(p as u64)),
                    "kernel_remove" => { if st.kernel.is_empty() { applicable = false } else { st.kernel.pop(); } }
                    "kernel_replace" => { if st.kernel.is_empty() { applicable = false } else { let n = st.kernel.len(); st.kernel[n - 1] = some_digest(7); } }
                    "input_change" => { if p >= st.inputs.len() { applicable = false } else { st.inputs[p] = st.inputs[p] + Felt::new(1); } } // every position (Pipeline!StmtSites)
                    "input_append" => st.inputs.push(Felt::new(p as u64)), // p = 0: an explicit zero (padding made explicit)
                    "input_remove" => { if st.inputs.is_empty() { applicable = false } else { st.inputs.pop(); } }
                    "output_top" => { st.out_stack[p] = (st.out_stack[p] + 1) % Felt::MODULUS; }
                    "output_deep" => { if st.out_stack.len() <= 16 { applicable = false } else { let n = st.out_stack.len(); let i = [16, (16 + n) / 2, n - 1][p]; st.out_stack[i] = (st.out_stack[i] + 1) % Felt::MODULUS; } }
                    // overflow addresses: first, second, middle, last (+1), and the first / last replaced by a large value
                    "ovf_addr" => { if st.out_addrs.is_empty() { applicable = false } else { let n = st.out_addrs.len(); let i1 = if n > 1 { 1 } else { 0 };
                        match p { 0 => st.out_addrs[0] = (st.out_addrs[0] + 1) % Felt::MODULUS, 1 => st.out_addrs[i1] = (st.out_addrs[i1] + 1) % Felt::MODULUS,
                                  2 => st.out_addrs[n / 2] = (st.out_addrs[n / 2] + 1) % Felt::MODULUS, 3 => st.out_addrs[n - 1] = (st.out_addrs[n - 1] + 1) % Felt::MODULUS,
                                  4 => st.out_addrs[0] = 1u64 << 32, _ => st.out_addrs[n - 1] = if st.out_addrs[n - 1] == Felt::MODULUS - 1 { Felt::MODULUS - 2 } else { Felt::MODULUS - 1 } } } } // (rows present from the start carry the addresses p - 1, p - 2, ...)
                    "output_append" => { st.out_stack.push(p as u64); if st.out_stack.len() == 17 { st.out_addrs = vec![0, 1]; } else { st.out_addrs.push(2); } }
                    "output_truncate" => { if st.out_stack.len() <= 16 { applicable = false } else { st.out_stack.pop(); st.out_addrs.pop(); if st.out_stack.len() == 16 { st.out_addrs.clear(); } } }
                    "flip_byte" => { let i = 1 + (b.len() - 2) * (2 * p + 1) / 32; b[i] ^= 1 << (p % 8); }
                    "truncate" => { let n = if p == 7 { b.len() - 1 } else { 2 + (b.len() - 2) * (p + 1) / 8 }; b.truncate(n.min(b.len() - 1)); }
                    "trailing_byte" => b.push(0),
                    "relabel_tag" => { let cur = b[0]; b[0] = (cur + 1 + p as u8) % 3; }
                    "invalid_tag" => b[0] = if p == 0 { 3 } else { 255 },
                    _ => applicable = false,
                }
                if !applicable {
                    tv.push(json!({"kind": kind, "param": p, "v": "n/a"}));
                    continue;
                }
                let proof_tampered = matches!(kind, "flip_byte" | "truncate" | "trailing_byte" | "relabel_tag" | "invalid_tag");
                let d = if proof_tampered || via_bytes { None } else { Some(&proof) };
                let mut v = verify_with(&st, &b, d);
                v["kind"] = json!(kind);
                v["param"] = json!(p);
                tv.push(v);
            }
        }
        out.line(&json!({"outcome": "ok", "base": base_v, "tampers": tv, "proof_len": bytes.len(), "reparsed_equal": reparsed_equal,
            "outputs_match_execution": exec_out.map(|o| o == outputs), "out_depth": outputs.stack().len(),
            "security_level": proof.security_level(), "kernel_len": base.kernel.len()}));
    }
    out.flush();
}
