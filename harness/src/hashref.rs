//! hash-ref (C17): for every generated case, (a) the digest of widely used reference implementations (sha2, sha3,
//! blake3 crates) — used only to cross-check the TLA+ transcription in Hashes.tla, a disagreement is a tool error,
//! not a finding — and (b) the evaluation of the specification's RPO sponge recipe with the permutation the VM's
//! hasher uses (the `hperm` primitive), next to `hash_elements` of the same elements.
use crate::util::*;
use serde_json::{json, Value};
use sha2::Digest as _;
use vm_core::{chiplets::hasher, Felt, ZERO};

fn word32(v: &Value) -> u32 {
    let a = v.as_array().expect("word");
    (a[0].as_u64().unwrap() as u32) | ((a[1].as_u64().unwrap() as u32) << 16)
}
fn w2j(w: u32) -> Value {
    json!([w & 0xffff, w >> 16])
}
fn words(v: &Value) -> Vec<u32> {
    v.as_array().map(|a| a.iter().map(word32).collect()).unwrap_or_default()
}

pub fn hash_ref(inp: &str, outp: &str) {
    let cases = read_ndjson(inp);
    let mut out = Out::new(outp);
    for c in cases {
        let m = c["mod"].as_str().unwrap_or("");
        let p = c["proc"].as_str().unwrap_or("");
        let x = &c["x"];
        let inw = words(&x["inw"]);
        let r = match (m, p) {
            ("sha256", "hash_2to1") | ("sha256", "hash_1to1") => {
                let bytes: Vec<u8> = inw.iter().flat_map(|w| w.to_be_bytes()).collect();
                let d = sha2::Sha256::digest(&bytes);
                json!({"ref": d.chunks(4).map(|b| w2j(u32::from_be_bytes([b[0], b[1], b[2], b[3]]))).collect::<Vec<_>>()})
            }
            ("sha256", "hash_memory") => {
                let n = x["len"].as_u64().unwrap() as usize;
                let mut bytes: Vec<u8> = words(&x["mem"]).iter().flat_map(|w| w.to_be_bytes()).collect();
                bytes.truncate(n);
                let d = sha2::Sha256::digest(&bytes);
                json!({"ref": d.chunks(4).map(|b| w2j(u32::from_be_bytes([b[0], b[1], b[2], b[3]]))).collect::<Vec<_>>()})
            }
            ("blake3", _) => {
                let bytes: Vec<u8> = inw.iter().flat_map(|w| w.to_le_bytes()).collect();
                let d = blake3::hash(&bytes);
                json!({"ref": d.as_bytes().chunks(4).map(|b| w2j(u32::from_le_bytes([b[0], b[1], b[2], b[3]]))).collect::<Vec<_>>()})
            }
            ("keccak256", "hash") => {
                // stack words: (hi, lo) of each little-endian 64-bit lane
                let mut bytes = Vec::new();
                for pr in inw.chunks(2) {
                    bytes.extend_from_slice(&pr[1].to_le_bytes());
                    bytes.extend_from_slice(&pr[0].to_le_bytes());
                }
                let d = sha3::Keccak256::digest(&bytes);
                let mut o = Vec::new();
                for l in d.chunks(8) {
                    o.push(w2j(u32::from_le_bytes([l[4], l[5], l[6], l[7]])));
                    o.push(w2j(u32::from_le_bytes([l[0], l[1], l[2], l[3]])));
                }
                json!({ "ref": o })
            }
            ("native", "hash_memory") => {
                let elems = json_to_felts(&x["elems"]);
                let mut state = [ZERO; 12];
                state[0] = Felt::new(x["recipe"]["cap0"].as_u64().unwrap_or(0));
                for b in x["recipe"]["blocks"].as_array().unwrap() {
                    let bl = json_to_felts(b);
                    state[4..12].copy_from_slice(&bl[..8]);
                    hasher::apply_permutation(&mut state);
                }
                let native: [Felt; 4] = hasher::hash_elements(&elems).into();
                json!({"recipe": felts_to_json(&state[4..8]), "hash_elements": felts_to_json(&native)})
            }
            ("native", "hash_memory_even") => {
                let init = json_to_felts(&x["recipe"]["init"]);
                let mut state = [ZERO; 12];
                state.copy_from_slice(&init[..12]);
                for b in x["recipe"]["blocks"].as_array().unwrap() {
                    let bl = json_to_felts(b);
                    state[4..12].copy_from_slice(&bl[..8]);
                    hasher::apply_permutation(&mut state);
                }
                json!({"state": felts_to_json(&state)})
            }
            _ => json!({}),
        };
        out.line(&r);
    }
}
