//! asm-history: replays histories of one assembler instance (C11).  A scenario is a rendered universe (library
//! modules, optional kernel, programs as Miden assembly; literal roots as {{ROOT:module::proc}} placeholders) and a
//! history: configuration (libraries + kernel), then library additions and compilations.  After every compilation the
//! result on the long-lived instance is reported next to the result of a freshly configured instance, the program is
//! checked for static closure of its code-block table and executed.
use crate::exec::err_json;
use crate::util::*;
use assembly::{
    ast::ModuleAst, Assembler, LibraryNamespace, LibraryPath, MaslLibrary, Module, Version,
};
use processor::{DefaultHost, ExecutionOptions, MemAdviceProvider, Program, StackInputs};
use serde_json::{json, Value};
use std::collections::{BTreeMap, BTreeSet};
use vm_core::{
    code_blocks::{CodeBlock, Dyn},
    Felt, Operation,
};

type Digest = vm_core::chiplets::hasher::Digest;

fn hex(d: Digest) -> String {
    let h: [Felt; 4] = d.into();
    h.iter().map(|f| format!("{:016x}", f.as_int())).collect()
}

fn subst(src: &str, roots: &BTreeMap<String, String>) -> String {
    let mut out = String::new();
    let mut rest = src;
    while let Some(i) = rest.find("{{ROOT:") {
        out.push_str(&rest[..i]);
        let j = rest[i..].find("}}").expect("placeholder end") + i;
        let key = &rest[i + 7..j];
        out.push_str(roots.get(key).map(|s| s.as_str()).unwrap_or("2.3.4.5"));
        rest = &rest[j + 2..];
    }
    out.push_str(rest);
    out
}

fn placeholders(src: &str, acc: &mut BTreeSet<String>) {
    let mut rest = src;
    while let Some(i) = rest.find("{{ROOT:") {
        let j = rest[i..].find("}}").expect("placeholder end") + i;
        acc.insert(rest[i + 7..j].to_string());
        rest = &rest[j + 2..];
    }
}

fn build_lib(ns: &str, mods: &Value, roots: &BTreeMap<String, String>) -> Result<MaslLibrary, String> {
    let namespace = LibraryNamespace::new(ns).map_err(|e| format!("{e:?}"))?;
    let mut modules = vec![];
    for m in mods.as_array().unwrap() {
        let path = LibraryPath::new(m["path"].as_str().unwrap()).map_err(|e| format!("{e:?}"))?;
        let ast = ModuleAst::parse(&subst(m["src"].as_str().unwrap(), roots)).map_err(|e| format!("parse {}: {e:?}", m["path"]))?;
        modules.push(Module::new(path, ast));
    }
    MaslLibrary::new(namespace, Version::MIN, false, modules, vec![]).map_err(|e| format!("{e:?}"))
}

struct Univ {
    libs: BTreeMap<String, MaslLibrary>,
    kernel: Option<String>,
    progs: Vec<String>,
}

fn build_univ(r: &Value, roots: &BTreeMap<String, String>) -> Result<Univ, String> {
    let mut libs = BTreeMap::new();
    for (ns, mods) in r["libs"].as_object().unwrap() {
        libs.insert(ns.clone(), build_lib(ns, mods, roots)?);
    }
    Ok(Univ {
        libs,
        kernel: r["kernel"].as_str().map(|s| subst(s, roots)),
        progs: r["progs"].as_array().unwrap().iter().map(|p| subst(p.as_str().unwrap(), roots)).collect(),
    })
}

/// resolves {{ROOT:module::proc}} to the four root elements of that procedure (all libraries available), to a fixpoint
fn resolve_roots(r: &Value) -> Result<BTreeMap<String, String>, String> {
    let mut keys = BTreeSet::new();
    let mut all = String::new();
    for (_, mods) in r["libs"].as_object().unwrap() {
        for m in mods.as_array().unwrap() {
            all.push_str(m["src"].as_str().unwrap());
        }
    }
    if let Some(k) = r["kernel"].as_str() {
        all.push_str(k);
    }
    for p in r["progs"].as_array().unwrap() {
        all.push_str(p.as_str().unwrap());
    }
    placeholders(&all, &mut keys);
    let mut roots: BTreeMap<String, String> = BTreeMap::new();
    if keys.is_empty() {
        return Ok(roots);
    }
    for _round in 0..5 {
        let u = build_univ(r, &roots)?;
        let mut next = BTreeMap::new();
        for k in &keys {
            let (m, n) = k.rsplit_once("::").ok_or("bad placeholder")?;
            let short = m.rsplit("::").next().unwrap();
            let mut asm = Assembler::default();
            for l in u.libs.values() {
                asm = asm.with_library(l).map_err(|e| format!("{e:?}"))?;
            }
            let src = format!("use.{m}\nbegin\n call.{short}::{n}\nend\n");
            let p = asm.compile(&src).map_err(|e| format!("resolving {k}: {e:?}"))?;
            let d = match p.root() {
                CodeBlock::Call(c) => c.fn_hash(),
                _ => return Err("bridge program is not a CALL".into()),
            };
            let h: [Felt; 4] = d.into();
            next.insert(k.clone(), h.iter().map(|f| f.as_int().to_string()).collect::<Vec<_>>().join("."));
        }
        if next == roots {
            return Ok(roots);
        }
        roots = next;
    }
    Err("literal roots do not reach a fixpoint".into())
}

fn configure(u: &Univ, libs: &[String], with_kernel: bool) -> Result<Result<Assembler, String>, String> {
    catch(|| {
        let mut asm = Assembler::default();
        for l in libs {
            asm = asm.with_library(&u.libs[l]).map_err(|e| format!("{e:?}"))?;
        }
        if with_kernel {
            if let Some(k) = &u.kernel {
                asm = asm.with_kernel(k).map_err(|e| format!("{e:?}"))?;
            }
        }
        Ok(asm)
    })
}

fn err_kind(msg: &str) -> String {
    msg.chars().take_while(|c| c.is_alphanumeric() || *c == '_').collect()
}

/// every CALL / SYSCALL target reachable from the root (through the table) that the table does not hold
fn missing_targets(p: &Program) -> Vec<String> {
    fn walk(b: &CodeBlock, p: &Program, seen: &mut BTreeSet<String>, miss: &mut Vec<String>) {
        match b {
            CodeBlock::Join(j) => {
                walk(j.first(), p, seen, miss);
                walk(j.second(), p, seen, miss);
            }
            CodeBlock::Split(s) => {
                walk(s.on_true(), p, seen, miss);
                walk(s.on_false(), p, seen, miss);
            }
            CodeBlock::Loop(l) => walk(l.body(), p, seen, miss),
            CodeBlock::Call(c) => {
                let h = c.fn_hash();
                if h == Dyn::dyn_hash() {
                    return;
                }
                if !seen.insert(hex(h)) {
                    return;
                }
                match p.cb_table().get(h) {
                    Some(body) => walk(body, p, seen, miss),
                    None => miss.push(hex(h)),
                }
            }
            _ => {}
        }
    }
    let mut seen = BTreeSet::new();
    let mut miss = vec![];
    walk(p.root(), p, &mut seen, &mut miss);
    miss
}

fn describe(r: Result<Result<Program, String>, String>, run: bool) -> (Value, Option<Program>) {
    match r {
        Ok(Ok(p)) => {
            let kernel: Vec<String> = p.kernel().proc_hashes().iter().map(|d| hex(*d)).collect();
            let mut v = json!({"outcome": "ok", "hash": hex(p.hash()), "kernel": kernel, "missing_static": missing_targets(&p)});
            if run {
                let pr = p.clone();
                let ex = catch(|| {
                    let host = DefaultHost::new(MemAdviceProvider::default());
                    processor::execute(&pr, StackInputs::default(), host, ExecutionOptions::default())
                });
                v["run"] = match ex {
                    Ok(Ok(_)) => json!({"outcome": "ok"}),
                    Ok(Err(e)) => json!({"outcome": "err", "err": err_json(&e)}),
                    Err(m) => json!({"outcome": "panic", "msg": m}),
                };
            }
            (v, Some(p))
        }
        Ok(Err(m)) => (json!({"outcome": "err", "kind": err_kind(&m), "msg": m.chars().take(200).collect::<String>()}), None),
        Err(m) => (json!({"outcome": "panic", "msg": m}), None),
    }
}

pub fn replay_one(sc: &Value) -> Value {
    let roots = match catch(|| resolve_roots(&sc["render"])) {
        Ok(Ok(r)) => r,
        Ok(Err(m)) => return json!({"outcome": "tool_error", "msg": m}),
        Err(m) => return json!({"outcome": "tool_error", "msg": format!("panic while resolving literal roots: {m}")}),
    };
    let u = match catch(|| build_univ(&sc["render"], &roots)) {
        Ok(Ok(u)) => u,
        Ok(Err(m)) => return json!({"outcome": "tool_error", "msg": m}),
        Err(m) => return json!({"outcome": "tool_error", "msg": m}),
    };
    let hist = sc["hist"].as_array().unwrap();
    let mut libs: Vec<String> = hist[0]["libs"].as_array().unwrap().iter().map(|x| x.as_str().unwrap().to_string()).collect();
    let mut steps = vec![];
    let mut asm = match configure(&u, &libs, true) {
        Ok(Ok(a)) => {
            steps.push(json!({"act": "config", "outcome": "ok"}));
            Some(a)
        }
        Ok(Err(m)) => {
            steps.push(json!({"act": "config", "outcome": "err", "kind": err_kind(&m), "msg": m.chars().take(200).collect::<String>()}));
            None
        }
        Err(m) => {
            steps.push(json!({"act": "config", "outcome": "panic", "msg": m}));
            None
        }
    };
    for h in hist.iter().skip(1) {
        if asm.is_none() {
            break;
        }
        match h["act"].as_str().unwrap() {
            "lib" => {
                let l = h["lib"].as_str().unwrap().to_string();
                let a = asm.take().unwrap();
                match catch(|| a.with_library(&u.libs[&l])) {
                    Ok(Ok(a2)) => {
                        asm = Some(a2);
                        libs.push(l);
                        steps.push(json!({"act": "lib", "outcome": "ok"}));
                    }
                    Ok(Err(e)) => steps.push(json!({"act": "lib", "outcome": "err", "msg": format!("{e:?}")})),
                    Err(m) => steps.push(json!({"act": "lib", "outcome": "panic", "msg": m})),
                }
            }
            "compile" => {
                let pi = h["prog"].as_u64().unwrap() as usize - 1;
                let src = u.progs[pi].clone();
                let a = asm.as_ref().unwrap();
                let (here, _) = describe(catch(|| a.compile(&src).map_err(|e| format!("{e:?}"))), true);
                let fresh = match configure(&u, &libs, true) {
                    Ok(Ok(f)) => describe(catch(|| f.compile(&src).map_err(|e| format!("{e:?}"))), true).0,
                    Ok(Err(m)) => json!({"outcome": "config_err", "msg": m}),
                    Err(m) => json!({"outcome": "config_panic", "msg": m}),
                };
                steps.push(json!({"act": "compile", "prog": pi + 1, "here": here, "fresh": fresh}));
            }
            other => steps.push(json!({"act": other, "outcome": "unknown"})),
        }
    }
    json!({"outcome": "done", "steps": steps})
}

pub fn asm_history(inp: &str, outp: &str) {
    let mut out = Out::new(outp);
    // scenarios sharing a universe refer to it by index: {"univ": <render>} lines define, {"u": i, "hist": ..} use
    let mut renders: Vec<Value> = vec![];
    for sc in read_ndjson(inp) {
        if sc.get("univ").is_some() {
            renders.push(sc["univ"].clone());
            continue;
        }
        let full = if let Some(i) = sc["u"].as_u64() {
            json!({"render": renders[i as usize], "hist": sc["hist"]})
        } else {
            sc
        };
        out.line(&replay_one(&full));
    }
    out.flush();
}

/// invalid-source scenarios: {"src", "kernel"?: text, "module"?: bool} -> outcome ok / err / panic (both parse and compile)
pub fn asm_rejects(inp: &str, outp: &str) {
    let mut out = Out::new(outp);
    for sc in read_ndjson(inp) {
        let src = sc["src"].as_str().unwrap().to_string();
        let kernel = sc["kernel"].as_str().map(|s| s.to_string());
        let as_kernel = sc["as_kernel"].as_bool().unwrap_or(false);
        let r = catch(|| {
            let mut asm = Assembler::default();
            if as_kernel {
                return asm.with_kernel(&src).map(|_| ()).map_err(|e| format!("{e:?}"));
            }
            if let Some(k) = &kernel {
                asm = asm.with_kernel(k).map_err(|e| format!("kernel: {e:?}"))?;
            }
            asm.compile(&src).map(|_| ()).map_err(|e| format!("{e:?}"))
        });
        out.line(&match r {
            Ok(Ok(())) => json!({"outcome": "ok"}),
            Ok(Err(m)) => json!({"outcome": "err", "kind": err_kind(&m), "msg": m.chars().take(160).collect::<String>()}),
            Err(m) => json!({"outcome": "panic", "msg": m}),
        });
    }
    out.flush();
}

#[allow(dead_code)]
fn _unused(_: Operation) {}
