//! mvh — conformance harness binding the TLA+ specification in /verif/spec to cf/miden-vm.
mod air;
mod asmhist;
mod astrt;
mod codec;
mod exec;
mod hashref;
mod hints;
mod mast;
mod pipeline;
mod record;
mod span;
mod stdrun;
mod trace;
mod util;

fn main() {
    util::quiet_panics();
    let args: Vec<String> = std::env::args().collect();
    let a = |i: usize| args.get(i).map(|s| s.as_str()).unwrap_or("-");
    match a(1) {
        "replay-span" => span::replay_span(a(2), a(3)),
        "opcodes" => span::opcodes(a(2)),
        "replay-masm" => exec::replay_masm(a(2), a(3)),
        "record-vm" => record::record_vm(a(2), a(3)),
        "air-check" => air::air_check(a(2), a(3)),
        "air-perturb" => air::air_perturb(a(2), a(3)),
        "pipeline" => pipeline::pipeline(a(2), a(3)),
        "codec" => codec::codec(a(2), a(3), a(4).parse().unwrap_or(0)),
        "ctors" => codec::ctors(a(2), a(3)),
        "codec-corpus" => codec::corpus(a(2)),
        "hints" => hints::run_hints(a(2), a(3)),
        "determinism" => trace::determinism(a(2), a(3)),
        "asm-history" => asmhist::asm_history(a(2), a(3)),
        "ast-roundtrip" => astrt::ast_roundtrip(a(2), a(3)),
        "data-roundtrip" => astrt::data_roundtrip(a(2), a(3)),
        "mast-recipe" => mast::mast_recipe(a(2), a(3)),
        "std-run" => stdrun::std_run(a(2), a(3)),
        "asm-rejects" => asmhist::asm_rejects(a(2), a(3)),
        "hash-ref" => hashref::hash_ref(a(2), a(3)),
        "iter-walk" => trace::iter_walk(a(2), a(3)),
        other => {
            eprintln!("unknown sub-command {other}");
            std::process::exit(2);
        }
    }
}
