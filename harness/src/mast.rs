//! mast-recipe (C08): evaluates the specification's hash recipe (Mast.tla) with the RPO primitives on every node of
//! assembled programs and compares with the hashes the implementation computed.
use crate::exec::*;
use crate::util::*;
use serde_json::{json, Value};
use vm_core::{
    chiplets::hasher::{self, Digest},
    code_blocks::CodeBlock,
    Felt, Program,
};

fn hex(d: Digest) -> String {
    let h: [Felt; 4] = d.into();
    h.iter().map(|f| format!("{:016x}", f.as_int())).collect()
}

fn pick(which: &str, c1: Option<Digest>, c2: Option<Digest>, f: Option<Digest>) -> Digest {
    match which {
        "c1" => c1.unwrap_or_default(),
        "c2" => c2.unwrap_or_default(),
        "f" => f.unwrap_or_default(),
        _ => Digest::default(),
    }
}

/// returns the recipe hash of the node (computed bottom-up from recipe hashes of the children) and records mismatches
fn eval(b: &CodeBlock, recipe: &Value, program: &Program, bad: &mut Vec<Value>, count: &mut usize, seen_calls: &mut Vec<Digest>) -> Digest {
    *count += 1;
    let (kind, c1, c2, f) = match b {
        CodeBlock::Join(j) => ("join", Some(eval(j.first(), recipe, program, bad, count, seen_calls)), Some(eval(j.second(), recipe, program, bad, count, seen_calls)), None),
        CodeBlock::Split(s) => ("split", Some(eval(s.on_true(), recipe, program, bad, count, seen_calls)), Some(eval(s.on_false(), recipe, program, bad, count, seen_calls)), None),
        CodeBlock::Loop(l) => ("loop", Some(eval(l.body(), recipe, program, bad, count, seen_calls)), None, None),
        CodeBlock::Call(c) => {
            // the callee's own hash is checked where its body is available
            let fh = c.fn_hash();
            if !seen_calls.contains(&fh) {
                seen_calls.push(fh);
                if let Some(body) = program.cb_table().get(fh) {
                    let h = eval(body, recipe, program, bad, count, seen_calls);
                    if h != fh {
                        bad.push(json!({"kind": "callee", "impl": hex(fh), "recipe": hex(h)}));
                    }
                }
            }
            (if c.is_syscall() { "syscall" } else { "call" }, None, None, Some(fh))
        }
        CodeBlock::Dyn(_) => ("dyn", None, None, None),
        CodeBlock::Span(s) => {
            let mut groups: Vec<Felt> = vec![];
            for batch in s.op_batches() {
                groups.extend_from_slice(batch.groups());
            }
            let h = hasher::hash_elements(&groups);
            if h != b.hash() {
                bad.push(json!({"kind": "span", "impl": hex(b.hash()), "recipe": hex(h)}));
            }
            return h;
        }
        CodeBlock::Proxy(p) => return p.hash(),
    };
    let r = &recipe["kinds"][kind];
    let a = pick(r["a"].as_str().unwrap(), c1, c2, f);
    let bb = pick(r["b"].as_str().unwrap(), c1, c2, f);
    let h = hasher::merge_in_domain(&[a, bb], Felt::new(r["domain"].as_u64().unwrap()));
    if h != b.hash() {
        bad.push(json!({"kind": kind, "impl": hex(b.hash()), "recipe": hex(h)}));
    }
    h
}

pub fn mast_recipe(inp: &str, outp: &str) {
    let mut out = Out::new(outp);
    let scs = read_ndjson(inp);
    let recipe = scs[0].clone();
    for sc in scs.iter().skip(1) {
        let c = compile(sc);
        let program = match c.program {
            Some(p) => p,
            None => {
                out.line(&c.outcome);
                continue;
            }
        };
        let mut bad = vec![];
        let mut count = 0;
        let mut seen = vec![];
        let r = catch(|| eval(program.root(), &recipe, &program, &mut bad, &mut count, &mut seen));
        match r {
            Ok(h) => {
                if h != program.hash() {
                    bad.push(json!({"kind": "program", "impl": hex(program.hash()), "recipe": hex(h)}));
                }
                // the hash the trace / program info carry
                let tr = catch(|| {
                    let host = processor::DefaultHost::new(processor::MemAdviceProvider::from(advice_inputs(sc)));
                    processor::execute(&program, stack_inputs(sc), host, exec_options(sc))
                });
                let mut trace_hash = Value::Null;
                if let Ok(Ok(t)) = tr {
                    trace_hash = json!(hex(*t.program_hash()));
                    if *t.program_hash() != program.hash() || *t.program_info().program_hash() != program.hash() {
                        bad.push(json!({"kind": "trace-hash", "impl": hex(*t.program_hash()), "recipe": hex(h)}));
                    }
                }
                out.line(&json!({"outcome": "ok", "nodes": count, "hash": hex(program.hash()), "trace_hash": trace_hash, "mismatches": bad}));
            }
            Err(m) => out.line(&json!({"outcome": "panic", "msg": m})),
        }
    }
    out.flush();
}
