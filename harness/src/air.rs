//! Evaluation of the real ProcessorAir on recorded traces: every transition constraint on every non-exempt row
//! (main and auxiliary segment, for independently drawn challenges) and every boundary assertion (C03), and on
//! perturbed row pairs (C04).  Follows winter_prover::Trace::validate but reports instead of asserting.
use crate::exec::*;
use crate::util::*;
use miden_air::{ProcessorAir, ProvingOptions, PublicInputs};
use processor::{math::FieldElement, DefaultHost, ExecutionTrace, MemAdviceProvider, QuadExtension};
use rand::{RngCore, SeedableRng};
use serde_json::{json, Value};
use vm_core::Felt;
use winter_air::{Air, AuxTraceRandElements, EvaluationFrame};
use winter_math::polynom;
use winter_prover::{matrix::ColMatrix, Trace};

pub type QuadFelt = QuadExtension<Felt>;

pub fn make_air(trace: &ExecutionTrace, inputs: processor::StackInputs) -> ProcessorAir {
    let pub_inputs = PublicInputs::new(trace.program_info().clone(), inputs, trace.stack_outputs().clone());
    ProcessorAir::new(trace.get_info(), pub_inputs, ProvingOptions::default().into())
}

pub fn periodic_at(air: &ProcessorAir, polys: &[Vec<Felt>], step: usize) -> Vec<Felt> {
    let g = air.trace_domain_generator();
    let x = g.exp((step as u64).into());
    polys
        .iter()
        .map(|p| {
            let num_cycles = air.trace_length() / p.len();
            let xp = x.exp((num_cycles as u32).into());
            polynom::eval(p, xp)
        })
        .collect()
}

pub fn rand_challenges(rng: &mut rand_chacha::ChaCha20Rng, n: usize) -> Vec<QuadFelt> {
    (0..n)
        .map(|_| {
            let a = Felt::new(rng.next_u64() % Felt::MODULUS);
            let b = Felt::new(rng.next_u64() % Felt::MODULUS);
            QuadFelt::new(a, b)
        })
        .collect()
}

use vm_core::StarkField;

pub struct AirReport {
    pub main_viol: Vec<(usize, usize)>, // (constraint, step)
    pub aux_viol: Vec<(usize, usize, usize)>, // (challenge set, constraint, step)
    pub assert_viol: Vec<String>,
    pub rows_checked: usize,
    pub n_main: usize,
    pub n_aux: usize,
    pub n_assert: usize,
    pub aux_last: Vec<Vec<Value>>,
    pub aux_first: Vec<Vec<Value>>,
}

pub fn check_trace(trace: &mut ExecutionTrace, inputs: processor::StackInputs, k: usize, seed: u64) -> AirReport {
    let air = make_air(trace, inputs);
    let mut rep = AirReport { main_viol: vec![], aux_viol: vec![], assert_viol: vec![], rows_checked: 0,
        n_main: air.context().num_main_transition_constraints(), n_aux: air.context().num_aux_transition_constraints(),
        n_assert: 0, aux_last: vec![], aux_first: vec![] };
    let len = trace.length();
    let width = trace.main_trace_width();
    let polys = air.get_periodic_column_polys();
    // main assertions
    for a in air.get_assertions() {
        rep.n_assert += 1;
        a.apply(len, |step, value| {
            if value != trace.main_segment().get(a.column(), step) {
                rep.assert_viol.push(format!("main({}, {})", a.column(), step));
            }
        });
    }
    // main transitions
    let exempt = air.context().num_transition_exemptions();
    let mut frame = EvaluationFrame::new(width);
    let mut evals = vec![Felt::ZERO; rep.n_main];
    for step in 0..len - exempt {
        let pv = periodic_at(&air, &polys, step);
        trace.read_main_frame(step, &mut frame);
        evals.fill(Felt::ZERO);
            air.evaluate_transition(&frame, &pv, &mut evals);
        for (i, e) in evals.iter().enumerate() {
            if *e != Felt::ZERO && rep.main_viol.len() < 50 {
                rep.main_viol.push((i, step));
            }
        }
        rep.rows_checked += 1;
    }
    // auxiliary segment for k independent challenge vectors
    let mut rng = rand_chacha::ChaCha20Rng::seed_from_u64(seed);
    let n_rand = trace.layout().get_aux_segment_rand_elements(0);
    for c in 0..k {
        let ch = rand_challenges(&mut rng, n_rand);
        let aux: ColMatrix<QuadFelt> = match trace.build_aux_segment(&[], &ch) {
            Some(a) => a,
            None => break,
        };
        let mut are = AuxTraceRandElements::new();
        are.add_segment_elements(ch.clone());
        for a in air.get_aux_assertions(&are) {
            rep.n_assert += 1;
            a.apply(len, |step, value| {
                if value != aux.get(a.column(), step) {
                    rep.assert_viol.push(format!("aux[{}]({}, {})", c, a.column(), step));
                }
            });
        }
        let aw = aux.num_cols();
        let mut aframe = EvaluationFrame::<QuadFelt>::new(aw);
        let mut aevals = vec![QuadFelt::ZERO; rep.n_aux];
        for step in 0..len - exempt {
            let pv = periodic_at(&air, &polys, step);
            trace.read_main_frame(step, &mut frame);
            aux.read_row_into(step, aframe.current_mut());
            aux.read_row_into((step + 1) % len, aframe.next_mut());
            aevals.fill(QuadFelt::ZERO);
            air.evaluate_aux_transition(&frame, &aframe, &pv, &are, &mut aevals);
            for (i, e) in aevals.iter().enumerate() {
                if *e != QuadFelt::ZERO && rep.aux_viol.len() < 50 {
                    rep.aux_viol.push((c, i, step));
                }
            }
        }
        if let Ok(colname) = std::env::var("MVH_AUX_DEBUG") {
            let col: usize = colname.parse().unwrap_or(6);
            for t in 0..len - 2 {
                if aux.get(col, t) != aux.get(col, t + 1) {
                    let sel: Vec<u64> = (0..5).map(|i| trace.main_segment().get_column(miden_air::trace::CHIPLETS_OFFSET + i)[t].as_int()).collect();
                    eprintln!("aux col {col} changes at row {t} -> {} ; chiplet selectors {sel:?} ; op {}", t + 1, op_at(trace.main_segment(), t).0);
                }
            }
        }
        // value of every auxiliary column in the last non-random row
        let last = len - 2;
        rep.aux_first.push((0..aw).map(|col| {
            let v = aux.get(col, 0);
            let e = v.to_base_elements();
            json!([e[0].as_int().to_string(), e[1].as_int().to_string()])
        }).collect());
        rep.aux_last.push((0..aw).map(|col| {
            let v = aux.get(col, last);
            let e = v.to_base_elements();
            json!([e[0].as_int().to_string(), e[1].as_int().to_string()])
        }).collect());
    }
    rep
}


/// scenario -> AIR verdict on the honest trace; also trace-length facts for each expected-cycles hint.
pub fn air_check(inp: &str, outp: &str) {
    let mut out = Out::new(outp);
    for sc in read_ndjson(inp) {
        let c = compile(&sc);
        let program = match c.program {
            Some(p) => p,
            None => {
                out.line(&c.outcome);
                continue;
            }
        };
        let k = sc["challenges"].as_u64().unwrap_or(2) as usize;
        let seed = sc["seed"].as_u64().unwrap_or(1);
        let hints: Vec<u64> = sc["hints"].as_array().map(|a| a.iter().map(|x| x.as_u64().unwrap()).collect()).unwrap_or(vec![64]);
        let mut lens = vec![];
        let mut first: Option<Value> = None;
        for (hi, h) in hints.iter().enumerate() {
            let mut s2 = sc.clone();
            s2["expected_cycles"] = json!(h);
            let opts = exec_options(&s2);
            let r = catch(|| {
                let host = DefaultHost::new(MemAdviceProvider::from(advice_inputs(&sc)));
                processor::execute(&program, stack_inputs(&sc), host, opts)
            });
            match r {
                Ok(Ok(mut trace)) => {
                    let s = trace.trace_len_summary();
                    lens.push(json!({"hint": h, "trace_len": trace.get_trace_len(), "main": s.main_trace_len(), "range": s.range_trace_len(),
                                     "chiplets": s.chiplets_trace_len().trace_len(), "digest": crate::trace::trace_digest(&trace)}));
                    if hi == 0 {
                        let rep = catch(|| check_trace(&mut trace, stack_inputs(&sc), k, seed));
                        first = Some(match rep {
                            Ok(rep) => json!({"outcome": "ok", "rows_checked": rep.rows_checked, "n_main": rep.n_main, "n_aux": rep.n_aux,
                                "n_assert": rep.n_assert, "main_viol": rep.main_viol, "aux_viol": rep.aux_viol, "assert_viol": rep.assert_viol,
                                "aux_last": rep.aux_last, "aux_first": rep.aux_first}),
                            Err(m) => json!({"outcome": "air_panic", "msg": m}),
                        });
                    }
                }
                Ok(Err(e)) => {
                    first = Some(json!({"outcome": "err", "err": err_json(&e)}));
                    break;
                }
                Err(m) => {
                    first = Some(json!({"outcome": "panic", "msg": m}));
                    break;
                }
            }
        }
        let mut line = first.unwrap_or(json!({"outcome": "none"}));
        line["lens"] = Value::Array(lens);
        out.line(&line);
    }
    out.flush();
}

// ------------------------------------------------------------------------------------------------------------------
// C04: perturbation of honest row pairs.  The table of enforced cells comes from the specification (AirEnforced.tla).
use miden_air::trace::{
    decoder::{HASHER_STATE_OFFSET, OP_BITS_OFFSET},
    CLK_COL_IDX, DECODER_TRACE_OFFSET, FMP_COL_IDX, STACK_TRACE_OFFSET,
};
use std::collections::BTreeMap;

fn op_at(m: &ColMatrix<Felt>, t: usize) -> (&'static str, u8) {
    let mut c = 0u8;
    for i in 0..7 {
        c |= (m.get_column(DECODER_TRACE_OFFSET + OP_BITS_OFFSET + i)[t].as_int() as u8) << i;
    }
    (all_ops().into_iter().find(|(_, o)| o.op_code() == c).map(|(n, _)| n).unwrap_or("UNKNOWN"), c)
}

/// column and row (false = current, true = next) of a named cell
fn locate(cell: &str) -> Option<(usize, bool)> {
    if let Some(i) = cell.strip_prefix('s') {
        return i.parse::<usize>().ok().map(|i| (STACK_TRACE_OFFSET + i, true));
    }
    // operand of the current row that the operation pins down (binary condition, ASSERT's 1)
    if cell.len() == 2 && cell.starts_with('c') {
        return cell[1..].parse::<usize>().ok().map(|i| (STACK_TRACE_OFFSET + i, false));
    }
    match cell {
        "b0" => Some((STACK_TRACE_OFFSET + 16, true)),
        "b1" => Some((STACK_TRACE_OFFSET + 17, true)),
        "hb" => Some((STACK_TRACE_OFFSET + 18, false)),
        "fmp" => Some((FMP_COL_IDX, true)),
        "clk" => Some((CLK_COL_IDX, true)),
        _ => {
            let h = cell.split('?').next().unwrap();
            h.strip_prefix('h').and_then(|i| i.parse::<usize>().ok()).map(|i| (DECODER_TRACE_OFFSET + HASHER_STATE_OFFSET + 2 + i, false))
        }
    }
}

pub fn air_perturb(inp: &str, outp: &str) {
    let mut out = Out::new(outp);
    let scs = read_ndjson(inp);
    let table = scs[0]["table"].clone();
    let nvals = scs[0]["values"].as_u64().unwrap_or(4) as usize;
    for sc in scs.iter().skip(1) {
        let c = compile(sc);
        let program = match c.program {
            Some(p) => p,
            None => {
                out.line(&c.outcome);
                continue;
            }
        };
        let r = catch(|| {
            let host = DefaultHost::new(MemAdviceProvider::from(advice_inputs(sc)));
            processor::execute(&program, stack_inputs(sc), host, exec_options(sc))
        });
        let trace = match r {
            Ok(Ok(t)) => t,
            Ok(Err(e)) => {
                out.line(&json!({"outcome": "err", "err": err_json(&e)}));
                continue;
            }
            Err(m) => {
                out.line(&json!({"outcome": "panic", "msg": m}));
                continue;
            }
        };
        let air = make_air(&trace, stack_inputs(sc));
        let polys = air.get_periodic_column_polys();
        let n_main = air.context().num_main_transition_constraints();
        let width = trace.main_trace_width();
        let m = trace.main_segment();
        let last = trace.trace_len_summary().main_trace_len().min(trace.length() - 3);
        let mut rng = rand_chacha::ChaCha20Rng::seed_from_u64(sc["seed"].as_u64().unwrap_or(1));
        // (op, regime, cell) -> [tested, undetected, first undetected {row, kind}]
        let mut agg: BTreeMap<(String, String, String), (u64, u64, Value)> = BTreeMap::new();
        let mut honest_bad = 0u64;
        let mut frame = EvaluationFrame::new(width);
        let mut evals = vec![Felt::ZERO; n_main];
        for t in 0..=last {
            let (name, _) = op_at(m, t);
            let b0 = m.get_column(STACK_TRACE_OFFSET + 16)[t].as_int();
            let regime = if b0 == 16 { "d16" } else if b0 == 17 { "d17" } else { "deep" };
            let hs = |i: usize| m.get_column(DECODER_TRACE_OFFSET + HASHER_STATE_OFFSET + i)[t];
            let (key, cells) = if table["ops"].get(name).is_some() {
                (name.to_string(), &table["ops"][name][regime])
            } else {
                let k = if name == "END" {
                    if hs(5) == Felt::ONE { "END:loop" } else if hs(6) == Felt::ONE || hs(7) == Felt::ONE { "END:call" } else { "END" }
                } else {
                    name
                };
                (k.to_string(), &table["ctl"][k][regime])
            };
            let cells = match cells.as_array() {
                Some(c) => c,
                None => continue,
            };
            let pv = periodic_at(&air, &polys, t);
            trace.read_main_frame(t, &mut frame);
            evals.fill(Felt::ZERO);
            air.evaluate_transition(&frame, &pv, &mut evals);
            if evals.iter().any(|e| *e != Felt::ZERO) {
                honest_bad += 1;
                continue;
            }
            let cur: Vec<Felt> = frame.current().to_vec();
            let nxt: Vec<Felt> = frame.next().to_vec();
            let s = |i: usize| cur[STACK_TRACE_OFFSET + i];
            for cell in cells {
                let cell = cell.as_str().unwrap();
                if let Some(cond) = cell.split('?').nth(1) {
                    let holds = match cond {
                        "s0#s1" => s(0) != s(1),
                        "s0#0" => s(0) != Felt::ZERO,
                        _ => false,
                    };
                    if !holds {
                        continue;
                    }
                }
                let (col, in_next) = match locate(cell) {
                    Some(x) => x,
                    None => continue,
                };
                let honest = if in_next { nxt[col] } else { cur[col] };
                let neighbour = if in_next { nxt[if col > 0 { col - 1 } else { col + 1 }] } else { cur[col + 1] };
                let cands: Vec<(&str, Felt)> = vec![
                    ("+1", honest + Felt::ONE), ("-1", honest - Felt::ONE), ("0", Felt::ZERO), ("1", Felt::ONE), ("neighbour", neighbour),
                    ("p-1", Felt::new(Felt::MODULUS - 1)), ("2^32", Felt::new(1 << 32)), ("rand", Felt::new(rng.next_u64() % Felt::MODULUS)),
                ];
                let pinned = cell.len() == 2 && cell.starts_with('c') && cell != "clk";
                // a pinned operand: only values for which the operation has no valid transition at all (not 0 / 1), tried with
                // the honest next row and with the next row the operation's algebra would give for that value
                let cands: Vec<(&str, Felt)> = if pinned {
                    vec![("2", Felt::new(2)), ("p-1", Felt::new(Felt::MODULUS - 1)), ("3", Felt::new(3)), ("2^32", Felt::new(1 << 32)),
                         ("rand", Felt::new(2 + rng.next_u64() % (Felt::MODULUS - 2))), ("p-2", Felt::new(Felt::MODULUS - 2)),
                         ("2:cont", Felt::new(2)), ("p-1:cont", Felt::new(Felt::MODULUS - 1)), ("3:cont", Felt::new(3)), ("2^32:cont", Felt::new(1 << 32)),
                         ("rand:cont", Felt::new(2 + rng.next_u64() % (Felt::MODULUS - 2))), ("p-2:cont", Felt::new(Felt::MODULUS - 2))]
                } else {
                    cands
                };
                let mut used = 0;
                for (kind, v) in cands {
                    if v == honest || (!pinned && used >= nvals) {
                        continue;
                    }
                    used += 1;
                    let mut f2 = EvaluationFrame::from_rows(cur.clone(), nxt.clone());
                    if in_next {
                        f2.next_mut()[col] = v;
                    } else {
                        f2.current_mut()[col] = v;
                    }
                    if pinned && kind.ends_with(":cont") {
                        let so = STACK_TRACE_OFFSET;
                        let c: Vec<Felt> = f2.current().to_vec();
                        let n = f2.next_mut();
                        match name {
                            "NOT" => n[so] = Felt::ONE - c[so],
                            "AND" => n[so] = c[so] * c[so + 1],
                            "OR" => n[so] = c[so] + c[so + 1] - c[so] * c[so + 1],
                            "CSWAP" => {
                                n[so] = c[so + 1] + c[so] * (c[so + 2] - c[so + 1]);
                                n[so + 1] = c[so + 2] + c[so] * (c[so + 1] - c[so + 2]);
                            }
                            "CSWAPW" => {
                                for i in 0..4 {
                                    n[so + i] = c[so + 1 + i] + c[so] * (c[so + 5 + i] - c[so + 1 + i]);
                                    n[so + 4 + i] = c[so + 5 + i] + c[so] * (c[so + 1 + i] - c[so + 5 + i]);
                                }
                            }
                            _ => continue,
                        }
                    }
                    evals.fill(Felt::ZERO); // (some chiplet constraints accumulate into the buffer)
                    air.evaluate_transition(&f2, &pv, &mut evals);
                    let detected = evals.iter().any(|e| *e != Felt::ZERO);
                    let e = agg.entry((key.clone(), regime.to_string(), cell.to_string())).or_insert((0, 0, Value::Null));
                    e.0 += 1;
                    if !detected {
                        e.1 += 1;
                        if e.2.is_null() {
                            e.2 = json!({"row": t, "kind": kind, "honest": honest.as_int().to_string(), "wrong": v.as_int().to_string()});
                        }
                    }
                }
            }
        }
        // chiplet rows and the range checker: cells named by the specification's chiplet table
        if let Some(chip) = table.get("chip") {
            use miden_air::trace::chiplets::{
                BITWISE_A_COL_IDX, BITWISE_A_COL_RANGE, BITWISE_B_COL_IDX, BITWISE_B_COL_RANGE, BITWISE_OUTPUT_COL_IDX, BITWISE_PREV_OUTPUT_COL_IDX,
                HASHER_STATE_COL_RANGE, MEMORY_D0_COL_IDX, MEMORY_D1_COL_IDX, MEMORY_D_INV_COL_IDX, MEMORY_V_COL_RANGE, MEMORY_SELECTORS_COL_IDX,
            };
            use miden_air::trace::{range::V_COL_IDX, CHIPLETS_OFFSET};
            let kind_of = |t: usize| -> &'static str {
                let g = |c: usize| m.get_column(CHIPLETS_OFFSET + c)[t];
                if g(0) == Felt::ZERO { "hasher" } else if g(1) == Felt::ZERO { "bitwise" } else if g(2) == Felt::ZERO { "memory" } else if g(3) == Felt::ZERO { "kernel" } else { "pad" }
            };
            let colmap = |kind: &str, cell: &str| -> Option<usize> {
                let idx = |p: &str| cell.strip_prefix(p).and_then(|x| x.parse::<usize>().ok());
                match kind {
                    "hasher" => idx("st").map(|i| HASHER_STATE_COL_RANGE.start + i),
                    "bitwise" => match cell {
                        "a" => Some(BITWISE_A_COL_IDX), "b" => Some(BITWISE_B_COL_IDX), "zp" => Some(BITWISE_PREV_OUTPUT_COL_IDX), "z" => Some(BITWISE_OUTPUT_COL_IDX),
                        _ => idx("abit").map(|i| BITWISE_A_COL_RANGE.start + i).or(idx("bbit").map(|i| BITWISE_B_COL_RANGE.start + i)),
                    },
                    "memory" => match cell {
                        "d0" => Some(MEMORY_D0_COL_IDX), "d1" => Some(MEMORY_D1_COL_IDX), "dinv" => Some(MEMORY_D_INV_COL_IDX),
                        "sel0" => Some(MEMORY_SELECTORS_COL_IDX), "sel1" => Some(MEMORY_SELECTORS_COL_IDX + 1),
                        _ => idx("v").map(|i| MEMORY_V_COL_RANGE.start + i),
                    },
                    "range" => Some(V_COL_IDX),
                    _ => None,
                }
            };
            let total = trace.length() - 2;
            for t in 0..total {
                let pv = periodic_at(&air, &polys, t);
                trace.read_main_frame(t, &mut frame);
                let cur: Vec<Felt> = frame.current().to_vec();
                let nxt: Vec<Felt> = frame.next().to_vec();
                let (k0, k1) = (kind_of(t), kind_of(t + 1));
                let mut jobs: Vec<(String, String, String, usize, Vec<(&str, Felt)>)> = vec![]; // (kind, variant, cell, col, wrong values)
                // (chiplets/main.md: the memory chiplet's selector flag excludes its last row - documented, not judged)
                let last_mem_row = k1 == "memory" && kind_of(t + 2) != "memory";
                if k0 == k1 && chip.get(k0).is_some() && !last_mem_row {
                    let variant = match k0 {
                        "hasher" => if t % 8 == 7 { "boundary" } else { "round" },
                        "bitwise" => if t % 8 == 7 { "boundary" } else { "inner" },
                        "memory" => {
                            let rd = nxt[MEMORY_SELECTORS_COL_IDX] == Felt::ONE;
                            let same = nxt[MEMORY_SELECTORS_COL_IDX + 2] == cur[MEMORY_SELECTORS_COL_IDX + 2] && nxt[MEMORY_SELECTORS_COL_IDX + 3] == cur[MEMORY_SELECTORS_COL_IDX + 3];
                            let samectx = nxt[MEMORY_SELECTORS_COL_IDX + 2] == cur[MEMORY_SELECTORS_COL_IDX + 2];
                            if rd && same { "readsame" } else if rd && samectx { "readnewaddr" } else if rd { "readnewctx" } else if same { "writesame" } else if samectx { "writenewaddr" } else { "writenewctx" }
                        }
                        _ => "x",
                    };
                    if let Some(cells) = chip[k0][variant].as_array() {
                        for cell in cells {
                            let cell = cell.as_str().unwrap();
                            if let Some(col) = colmap(k0, cell) {
                                let h = nxt[col];
                                jobs.push((k0.to_string(), variant.to_string(), cell.to_string(), col,
                                           vec![("+1", h + Felt::ONE), ("-1", h - Felt::ONE), ("0", Felt::ZERO), ("1", Felt::ONE), ("2", Felt::new(2)), ("rand", Felt::new(rng.next_u64() % Felt::MODULUS))]));
                            }
                        }
                    }
                }
                if chip.get("range").is_some() && t < total - 1 {
                    // a step that is not 0 or a power of three (range.md)
                    let v = cur[V_COL_IDX].as_int();
                    let ok = |d: u64| d == 0 || [1u64, 3, 9, 27, 81, 243, 729, 2187].contains(&d);
                    let mut vals = vec![];
                    for (kind, c) in [("+2", v + 2), ("+4", v + 4), ("+6561", v + 6561), ("-1", v.wrapping_sub(1) % Felt::MODULUS), ("+5", v + 5)] {
                        if !ok(c.wrapping_sub(v)) {
                            vals.push((kind, Felt::new(c % Felt::MODULUS)));
                        }
                    }
                    jobs.push(("range".to_string(), "step".to_string(), "v".to_string(), V_COL_IDX, vals));
                }
                if jobs.is_empty() {
                    continue;
                }
                evals.fill(Felt::ZERO);
            air.evaluate_transition(&frame, &pv, &mut evals);
                if evals.iter().any(|e| *e != Felt::ZERO) {
                    if std::env::var("MVH_DEBUG").is_ok() {
                        let bad: Vec<usize> = evals.iter().enumerate().filter(|(_, e)| **e != Felt::ZERO).map(|(i, _)| i).collect();
                        eprintln!("honest row {t} ({k0}) violates constraints {bad:?}");
                    }
                    continue;
                }
                for (kind, variant, cell, col, vals) in jobs {
                    let honest = nxt[col];
                    let mut used = 0;
                    for (vk, v) in vals {
                        if v == honest || used >= nvals {
                            continue;
                        }
                        used += 1;
                        let mut f2 = EvaluationFrame::from_rows(cur.clone(), nxt.clone());
                        f2.next_mut()[col] = v;
                        evals.fill(Felt::ZERO); // (some chiplet constraints accumulate into the buffer)
                        air.evaluate_transition(&f2, &pv, &mut evals);
                        let mut detected = evals.iter().any(|e| *e != Felt::ZERO);
                        if !detected && t + 2 < trace.length() - 1 {
                            // the altered row is also the current row of the following transition
                            let mut f3 = EvaluationFrame::new(width);
                            trace.read_main_frame(t + 1, &mut f3);
                            f3.current_mut()[col] = v;
                            let pv3 = periodic_at(&air, &polys, t + 1);
                            evals.fill(Felt::ZERO);
                            air.evaluate_transition(&f3, &pv3, &mut evals);
                            detected = evals.iter().any(|e| *e != Felt::ZERO);
                        }
                        let e = agg.entry((format!("chip:{kind}"), variant.clone(), cell.clone())).or_insert((0, 0, Value::Null));
                        e.0 += 1;
                        if !detected {
                            e.1 += 1;
                            if e.2.is_null() {
                                e.2 = json!({"row": t, "kind": vk, "honest": honest.as_int().to_string(), "wrong": v.as_int().to_string()});
                            }
                        }
                    }
                }
            }
        }
        let cells: Vec<Value> = agg.into_iter().map(|((op, rg, cell), (n, u, first))| json!({"op": op, "regime": rg, "cell": cell, "tested": n, "undetected": u, "first": first})).collect();
        out.line(&json!({"outcome": "ok", "rows": last + 1, "honest_rows_not_satisfying_air": honest_bad, "cells": cells}));
    }
    out.flush();
}
