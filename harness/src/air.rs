//! Evaluation of the real ProcessorAir on recorded traces: every transition constraint on every non-exempt row
//! (main and auxiliary segment, for independently drawn challenges) and every boundary assertion (C03), and on
//! perturbed row pairs (C04).  Follows winter_prover::Trace::validate but reports instead of asserting.
use crate::exec::*;
use crate::util::*;
use miden_air::{ProcessorAir, ProvingOptions, PublicInputs};
use processor::{math::FieldElement, DefaultHost, ExecutionTrace, MemAdviceProvider, QuadExtension};
use rand::{RngCore, SeedableRng};
use serde_json::{json, Value};
use vm_core::Felt;
use winter_air::{Air, AuxTraceRandElements, EvaluationFrame};
use winter_math::polynom;
use winter_prover::{matrix::ColMatrix, Trace};

pub type QuadFelt = QuadExtension<Felt>;

pub fn make_air(trace: &ExecutionTrace, inputs: processor::StackInputs) -> ProcessorAir {
    let pub_inputs = PublicInputs::new(trace.program_info().clone(), inputs, trace.stack_outputs().clone());
    ProcessorAir::new(trace.get_info(), pub_inputs, ProvingOptions::default().into())
}

pub fn periodic_at(air: &ProcessorAir, polys: &[Vec<Felt>], step: usize) -> Vec<Felt> {
    let g = air.trace_domain_generator();
    let x = g.exp((step as u64).into());
    polys
        .iter()
        .map(|p| {
            let num_cycles = air.trace_length() / p.len();
            let xp = x.exp((num_cycles as u32).into());
            polynom::eval(p, xp)
        })
        .collect()
}

pub fn rand_challenges(rng: &mut rand_chacha::ChaCha20Rng, n: usize) -> Vec<QuadFelt> {
    (0..n)
        .map(|_| {
            let a = Felt::new(rng.next_u64() % Felt::MODULUS);
            let b = Felt::new(rng.next_u64() % Felt::MODULUS);
            QuadFelt::new(a, b)
        })
        .collect()
}

use vm_core::StarkField;

pub struct AirReport {
    pub main_viol: Vec<(usize, usize)>, // (constraint, step)
    pub aux_viol: Vec<(usize, usize, usize)>, // (challenge set, constraint, step)
    pub assert_viol: Vec<String>,
    pub rows_checked: usize,
    pub n_main: usize,
    pub n_aux: usize,
    pub n_assert: usize,
    pub aux_last: Vec<Vec<Value>>,
}

pub fn check_trace(trace: &mut ExecutionTrace, inputs: processor::StackInputs, k: usize, seed: u64) -> AirReport {
    let air = make_air(trace, inputs);
    let mut rep = AirReport { main_viol: vec![], aux_viol: vec![], assert_viol: vec![], rows_checked: 0,
        n_main: air.context().num_main_transition_constraints(), n_aux: air.context().num_aux_transition_constraints(),
        n_assert: 0, aux_last: vec![] };
    let len = trace.length();
    let width = trace.main_trace_width();
    let polys = air.get_periodic_column_polys();
    // main assertions
    for a in air.get_assertions() {
        rep.n_assert += 1;
        a.apply(len, |step, value| {
            if value != trace.main_segment().get(a.column(), step) {
                rep.assert_viol.push(format!("main({}, {})", a.column(), step));
            }
        });
    }
    // main transitions
    let exempt = air.context().num_transition_exemptions();
    let mut frame = EvaluationFrame::new(width);
    let mut evals = vec![Felt::ZERO; rep.n_main];
    for step in 0..len - exempt {
        let pv = periodic_at(&air, &polys, step);
        trace.read_main_frame(step, &mut frame);
        air.evaluate_transition(&frame, &pv, &mut evals);
        for (i, e) in evals.iter().enumerate() {
            if *e != Felt::ZERO && rep.main_viol.len() < 50 {
                rep.main_viol.push((i, step));
            }
        }
        rep.rows_checked += 1;
    }
    // auxiliary segment for k independent challenge vectors
    let mut rng = rand_chacha::ChaCha20Rng::seed_from_u64(seed);
    let n_rand = trace.layout().get_aux_segment_rand_elements(0);
    for c in 0..k {
        let ch = rand_challenges(&mut rng, n_rand);
        let aux: ColMatrix<QuadFelt> = match trace.build_aux_segment(&[], &ch) {
            Some(a) => a,
            None => break,
        };
        let mut are = AuxTraceRandElements::new();
        are.add_segment_elements(ch.clone());
        for a in air.get_aux_assertions(&are) {
            rep.n_assert += 1;
            a.apply(len, |step, value| {
                if value != aux.get(a.column(), step) {
                    rep.assert_viol.push(format!("aux[{}]({}, {})", c, a.column(), step));
                }
            });
        }
        let aw = aux.num_cols();
        let mut aframe = EvaluationFrame::<QuadFelt>::new(aw);
        let mut aevals = vec![QuadFelt::ZERO; rep.n_aux];
        for step in 0..len - exempt {
            let pv = periodic_at(&air, &polys, step);
            trace.read_main_frame(step, &mut frame);
            aux.read_row_into(step, aframe.current_mut());
            aux.read_row_into((step + 1) % len, aframe.next_mut());
            air.evaluate_aux_transition(&frame, &aframe, &pv, &are, &mut aevals);
            for (i, e) in aevals.iter().enumerate() {
                if *e != QuadFelt::ZERO && rep.aux_viol.len() < 50 {
                    rep.aux_viol.push((c, i, step));
                }
            }
        }
        // value of every auxiliary column in the last non-random row
        let last = len - 2;
        rep.aux_last.push((0..aw).map(|col| {
            let v = aux.get(col, last);
            let e = v.to_base_elements();
            json!([e[0].as_int().to_string(), e[1].as_int().to_string()])
        }).collect());
    }
    rep
}


/// scenario -> AIR verdict on the honest trace; also trace-length facts for each expected-cycles hint.
pub fn air_check(inp: &str, outp: &str) {
    let mut out = Out::new(outp);
    for sc in read_ndjson(inp) {
        let c = compile(&sc);
        let program = match c.program {
            Some(p) => p,
            None => {
                out.line(&c.outcome);
                continue;
            }
        };
        let k = sc["challenges"].as_u64().unwrap_or(2) as usize;
        let seed = sc["seed"].as_u64().unwrap_or(1);
        let hints: Vec<u64> = sc["hints"].as_array().map(|a| a.iter().map(|x| x.as_u64().unwrap()).collect()).unwrap_or(vec![64]);
        let mut lens = vec![];
        let mut first: Option<Value> = None;
        for (hi, h) in hints.iter().enumerate() {
            let mut s2 = sc.clone();
            s2["expected_cycles"] = json!(h);
            let opts = exec_options(&s2);
            let r = catch(|| {
                let host = DefaultHost::new(MemAdviceProvider::from(advice_inputs(&sc)));
                processor::execute(&program, stack_inputs(&sc), host, opts)
            });
            match r {
                Ok(Ok(mut trace)) => {
                    let s = trace.trace_len_summary();
                    lens.push(json!({"hint": h, "trace_len": trace.get_trace_len(), "main": s.main_trace_len(), "range": s.range_trace_len(),
                                     "chiplets": s.chiplets_trace_len().trace_len(), "digest": crate::trace::trace_digest(&trace)}));
                    if hi == 0 {
                        let rep = catch(|| check_trace(&mut trace, stack_inputs(&sc), k, seed));
                        first = Some(match rep {
                            Ok(rep) => json!({"outcome": "ok", "rows_checked": rep.rows_checked, "n_main": rep.n_main, "n_aux": rep.n_aux,
                                "n_assert": rep.n_assert, "main_viol": rep.main_viol, "aux_viol": rep.aux_viol, "assert_viol": rep.assert_viol,
                                "aux_last": rep.aux_last}),
                            Err(m) => json!({"outcome": "air_panic", "msg": m}),
                        });
                    }
                }
                Ok(Err(e)) => {
                    first = Some(json!({"outcome": "err", "err": err_json(&e)}));
                    break;
                }
                Err(m) => {
                    first = Some(json!({"outcome": "panic", "msg": m}));
                    break;
                }
            }
        }
        let mut line = first.unwrap_or(json!({"outcome": "none"}));
        line["lens"] = Value::Array(lens);
        out.line(&line);
    }
    out.flush();
}
