#!/usr/bin/env python3
"""Orchestrator: check.py <property id> [--tier quick|thorough] [--replay path]
exit 0 = property held on everything explored; 1 = VIOLATION (line printed); 2 = tool error."""
import argparse, importlib, os, sys, traceback
sys.path.insert(0, os.path.dirname(os.path.abspath(__file__)))
from lib import common


def main():
    ap = argparse.ArgumentParser()
    ap.add_argument("pid")
    ap.add_argument("--tier", default=os.environ.get("VERIF_TIER", "quick"), choices=["quick", "thorough"])
    ap.add_argument("--replay", default=None)
    a = ap.parse_args()
    pid = a.pid.upper()
    try:
        mod = importlib.import_module("checks." + pid.lower())
    except ModuleNotFoundError:
        print("no check for", pid)
        return 2
    try:
        return mod.run(a.tier, a.replay)
    except common.ToolError as e:
        print("TOOL-ERROR:", e)
        return 2
    except Exception:
        traceback.print_exc()
        print("TOOL-ERROR: unexpected exception")
        return 2


if __name__ == "__main__":
    sys.exit(main())
