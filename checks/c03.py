"""C03 — honest execution traces satisfy the entire AIR.

T : for generated programs of every feature class (i) every row of the recorded main trace is validated against
    MidenVM.tla (TV_VM), so the trace is the one the specification prescribes; (ii) the real ProcessorAir is evaluated
    on every consecutive row pair of the main segment and of the auxiliary segment built for k independently drawn
    challenge vectors, and every boundary assertion (main and auxiliary) is checked against the trace instantiated with
    the execution's public inputs: all evaluations must be zero / all assertions met; (iii) the execution is repeated
    for expected-cycle hints 64 .. 2^14: the trace (digest of all columns) and its padded length must not depend on the
    hint, and the length must be admissible per TraceLen.tla (power of two, >= 64, room for cycles, range table,
    chiplets and one random row).
M : MC_TraceLen (minimal admissible length exists, is least, monotone), MC_Decoder / MC_VM are shared with C13 / C07.
"""
import json, os
from lib.common import *
from lib import vmtrace, progen

HINTS = [64, 256, 4096, 16384]


def run(tier, replay=None):
    ck = Check("C03", tier)
    ck.rule = "a case = one execution (program, inputs); every row pair and every assertion of every execution is evaluated; distinct = distinct programs"
    wd = workdir("C03", clean=True)
    thorough = tier == "thorough"
    r = tlc_or_die("MC_TraceLen.tla", cfg="MC_TraceLen.cfg", cwd=os.path.join(SPEC, "mc"), workers=4, timeout=900)
    ck.add_tlc(r)
    if r.violation:
        ck.violation("spec:MC_TraceLen:" + r.violation, "trace length model violated", {"tlc": r.out[-2000:]})
    if replay:
        with open(replay) as f:
            progs = [json.load(f)["replay"]["program"]]
    else:
        n = 480 if thorough else 48
        progs = progen.corpus(seed() + 3, n, nstmts=16 if thorough else 10)
        # every operation kind in every stack-depth regime (16 = empty overflow table, 17 = one row, 18, deep)
        progs += progen.depth_sweep(depths=(0, 17, 18, 19, 24, 40) if thorough else (0, 17, 18), rng_seed=seed())
        # executions of exactly 2^k - 2, 2^k - 1, 2^k cycles (padded-length boundaries)
        progs += vmtrace.cycle_boundary_programs(wd, targets=(62, 63, 64, 126, 127, 128, 254, 255, 256, 510, 511, 512) if thorough else (62, 63, 64, 127, 128))
        progs += vmtrace.chiplet_boundary_programs(thorough)
        progs += vmtrace.callee_shape_programs() + vmtrace.ctx_switch_programs() + vmtrace.fri_programs() + vmtrace.range_gap_programs(thorough)
    # (i) rows against the specification
    rec = vmtrace.record(progs, wd, "release")
    rows, states, rejects, runs = vmtrace.validate(rec, wd, "c03")
    ck.states += states
    ck.transitions += states
    ck.traces += len(runs)
    ck.extra["rows_validated_against_spec"] = rows
    for rj in rejects:
        sig, ev = vmtrace.reject_signature(rj, runs)
        p = progs[rj["run"]]
        ck.violation(sig + ":" + p["class"], "row %s is not the row the specification prescribes: %s | program: %s" % (
            ev.get("t"), rj["text"][:500], p["src"].replace("\n", " ")[:300]), {"kind": "vm", "program": p, "event": rj["event"], "detail": rj["text"]})
    # (ii) + (iii) the real AIR
    inp = os.path.join(wd, "air_scenarios.ndjson")
    vmtrace.write_scenarios(progs, inp, {"challenges": 4 if thorough else 2, "seed": seed(), "hints": HINTS})
    tot_rows = tot_main = tot_aux = tot_assert = 0
    facts = []
    for prof in ("release", "checked"):
        outp = os.path.join(wd, "air_%s.ndjson" % prof)
        run_harness(prof, ["air-check", inp, outp], timeout=7200)
        for p, line in zip(progs, open(outp)):
            res = json.loads(line)
            ck.note_case(p["src"] + str(p["inputs"]))
            rep = {"kind": "air", "profile": prof, "program": p}
            if res["outcome"] != "ok":
                ck.violation("air:%s:%s:%s" % (res["outcome"], p["class"], prof), "trace generation / AIR evaluation did not complete: %s" % str(res)[:300], rep)
                continue
            tot_rows += res["rows_checked"]
            tot_main, tot_aux, tot_assert = res["n_main"], res["n_aux"], tot_assert + res["n_assert"]
            for c, step in res["main_viol"][:3]:
                ck.violation("air:main:c%d:%s" % (c, prof), "main transition constraint %d is not zero at row %d (class %s)" % (c, step, p["class"]), rep)
            for ch, c, step in res["aux_viol"][:3]:
                ck.violation("air:aux:c%d:%s" % (c, prof), "auxiliary transition constraint %d is not zero at row %d for challenge set %d (class %s)" % (c, step, ch, p["class"]), rep)
            for a in res["assert_viol"][:3]:
                ck.violation("air:assert:%s:%s" % (a.split("(")[0] + "(" + a.split("(")[1].split(",")[0], prof), "boundary assertion %s not met (class %s)" % (a, p["class"]), rep)
            lens = res["lens"]
            for ln in lens[1:]:
                if ln["trace_len"] != lens[0]["trace_len"] or ln["digest"] != lens[0]["digest"]:
                    ck.violation("tracelen:hint:%s" % prof, "trace depends on the expected-cycles hint %d (len %d vs %d)" % (ln["hint"], ln["trace_len"], lens[0]["trace_len"]), rep)
                    break
            if prof == "release":
                facts.append({"len": lens[0]["trace_len"], "main": lens[0]["main"], "range": lens[0]["range"], "chiplets": lens[0]["chiplets"]})
    # judge lengths with the TLA+ model
    fpath = os.path.join(wd, "tracelen_facts.ndjson")
    with open(fpath, "w") as f:
        for x in facts:
            f.write(json.dumps(x) + "\n")
    r = tlc_or_die("GEN_TraceLen.tla", cfg="GEN_TraceLen.cfg", cwd=os.path.join(SPEC, "gen"), env_extra={"FACTS": fpath}, timeout=900)
    verdicts = json_prints(r, "tracelen")[0]["verdicts"]
    nonmin = 0
    regimes = {"main": 0, "range": 0, "chiplets": 0}
    for p, fct, v in zip(progs, facts, verdicts):
        regimes[max(("main", "range", "chiplets"), key=lambda k: fct[k])] += 1
        if not v["ok"]:
            ck.violation("tracelen:inadmissible", "padded length %d is not admissible for cycles %d, range rows %d, chiplet rows %d" % (
                fct["len"], fct["main"], fct["range"], fct["chiplets"]), {"kind": "air", "program": p})
        if v["minimal"] != fct["len"]:
            nonmin += 1
    ck.extra.update({"row_pairs_evaluated": tot_rows, "main_constraints": tot_main, "aux_constraints": tot_aux, "assertions_checked": tot_assert,
                     "hints": HINTS, "dominating_segment": regimes, "non_minimal_lengths_recorded_not_judged": nonmin})
    ck.sample({"program": progs[0]["src"][:400], "class": progs[0]["class"], "lens": facts[0]})
    ck.sample({"program": progs[-1]["src"][:400], "class": progs[-1]["class"], "lens": facts[-1]})
    ck.assumptions = ["winterfell's Air trait evaluation (evaluate_transition / get_assertions) is the AIR; periodic columns evaluated as in winter_prover::Trace::validate"]
    return ck.finish()
