"""C09 — prover-supplied hints cannot change results.

The reference defines the result of the hinted instructions as a function of the operands only (Masm.tla, U64.tla,
Hints.tla).  GEN_Hints enumerates (instruction, operands, host behaviour) with the prescribed result; every scenario is
executed on the real VM under a host that substitutes the hint (u32clz/ctz/clo/cto/ilog2: every hint 0..65 and large
values; ext2inv/ext2div: perturbed inverses; std::math::u64 div/mod/divmod: every candidate (q', r') incl. those with
q'*b + r' = a modulo 2^64; Merkle openings: wrong / truncated / extended / other-node paths); the outcome is accepted iff
Hints!Verdict holds: failure or the prescribed result (honest host: the prescribed result).
"""
import json, os, concurrent.futures as cf
from lib.common import *
from lib.masm_render import Renderer


def gen(kind, shards, wd, level=1):
    def one(sh):
        cfgp = os.path.join(wd, "GEN_Hints_%s_%d.cfg" % (kind, sh))
        with open(cfgp, "w") as f:
            f.write('CONSTANTS KIND = "%s" LEVEL = %d SHARD = %d NSHARDS = %d\nINIT Init\nNEXT Next\nCHECK_DEADLOCK FALSE\n' % (kind, level, sh, shards))
        return tlc_or_die("GEN_Hints.tla", cfg=cfgp, cwd=os.path.join(SPEC, "gen"), workers=4, timeout=3000, heap="6g")
    with cf.ThreadPoolExecutor(max_workers=4) as ex:
        return list(ex.map(one, range(shards)))


def norm_stack(s):
    s = list(s)
    while len(s) > 16 and s[-1] == [0, 0, 0, 0]:
        s.pop()
    return s


def verdict(sc, res):
    """Hints!Verdict on the recorded outcome; returns None if accepted."""
    exp = sc["expect"]
    if res["outcome"] == "panic":
        # "does not complete" is allowed for a dishonest host (recorded), never for the honest one
        return None if not sc["honest"] else "honest host: panic %s" % res.get("msg")
    if res["outcome"] in ("asm_err", "asm_panic"):
        return "program does not assemble: %s" % res.get("msg")
    ok = res["outcome"] == "ok"
    if exp["ok"] == "ok":
        good = ok and norm_stack(res["stack"]) == norm_stack(exp["stack"])
        if sc["honest"]:
            return None if good else "honest host: spec result %s; impl %s" % ([unlimbs(x) for x in exp["stack"][:4]], res.get("err") if not ok else [unlimbs(x) for x in res["stack"][:4]])
        if good or not ok:
            return None
        return "dishonest hint accepted with a wrong result: spec %s impl %s" % ([unlimbs(x) for x in exp["stack"][:4]], [unlimbs(x) for x in res["stack"][:4]])
    return None if not ok else "spec: fails; impl succeeds with %s" % [unlimbs(x) for x in res["stack"][:4]]


def render(sc):
    r = Renderer()
    lines = []
    for ins in sc["prog"]:
        if ins["op"] == "exec":
            lines.append("exec." + ins["form"])
        else:
            lines.append(r.instr(ins))
    head = "use.std::math::u64\n" if sc.get("stdlib") else ""
    return head + "begin\n  " + "\n  ".join(lines) + "\nend\n"


def run(tier, replay=None):
    ck = Check("C09", tier)
    ck.rule = "a case = (hinted instruction / routine, operands, host answer); distinct = distinct triples"
    wd = workdir("C09", clean=True)
    scs = []
    if replay:
        with open(replay) as f:
            scs = [json.load(f)["replay"]["scenario"]]
    else:
        for kind, shards in (("count", 4), ("ext2", 2), ("u64div", 8), ("adv", 1), ("merkle", 1)):
            for r in gen(kind, shards * (2 if tier == "thorough" else 1), wd, level=2 if tier == "thorough" else 1):
                ck.add_tlc(r)
                scs += [merkle_rec(x) if x["kind"] == "merkle" else x for x in json_prints(r, "hint")]
    inp = os.path.join(wd, "hint_scenarios.ndjson")
    recs = []
    with open(inp, "w") as f:
        for sc in scs:
            if sc["kind"] == "merkle":
                rec = sc["rec"]
            else:
                rec = {"src": render(sc), "stdlib": bool(sc.get("stdlib")), "inputs": sc["init"], "adv": sc.get("adv", [])}
                if not sc["honest"]:
                    rec["lie"] = {"inj": sc["inj"], "values": sc["lie"]}
            recs.append(rec)
            f.write(json.dumps(rec) + "\n")
    stats = {"accepted_correct": 0, "rejected": 0, "honest": 0, "did_not_complete_panic": 0}
    for prof in ("release", "checked"):
        outp = os.path.join(wd, "hint_results_%s.ndjson" % prof)
        run_harness(prof, ["hints", inp, outp])
        results = [json.loads(l) for l in open(outp)]
        if len(results) != len(scs):
            raise ToolError("harness returned %d results for %d scenarios" % (len(results), len(scs)))
        for sc, rec, res in zip(scs, recs, results):
            ck.traces += 1
            ck.note_case([rec["src"], rec["inputs"], rec.get("lie"), rec.get("merkle_lie"), rec.get("query"), rec.get("lie_node"), rec.get("mk_inputs")])
            if not sc["honest"] and res.get("lies", 0) == 0 and res["outcome"] != "asm_err":
                raise ToolError("the dishonest host was never asked (scenario %s): binding broken" % rec["src"])
            if sc["kind"] == "merkle" and sc["expect"]["ok"] == "ok":
                sc = dict(sc)
                sc["expect"] = {"ok": "ok", "stack": merkle_expected(sc, res)}
            d = verdict(sc, res)
            if sc["honest"]:
                stats["honest"] += 1
            elif res["outcome"] == "ok":
                stats["accepted_correct"] += 1
            elif res["outcome"] == "panic":
                stats["did_not_complete_panic"] += 1
            else:
                stats["rejected"] += 1
            if d:
                what = sc["prog"][0].get("form") if sc["kind"] == "u64div" else (sc["prog"][0]["op"] if sc["kind"] != "merkle" else sc["name"])
                ck.violation("hint:%s:%s:%s:%s" % (sc["kind"], what, "honest" if sc["honest"] else "lie", prof),
                             d + " | " + rec["src"].replace("\n", " ") + " inputs " + str([unlimbs(x) for x in rec["inputs"]][:8])
                             + " lie " + str([unlimbs(x) for x in rec.get("lie", {}).get("values", [])] or rec.get("merkle_lie")),
                             {"kind": "hint", "profile": prof, "scenario": sc, "rec": rec, "impl": res})
    ck.extra["outcomes"] = stats
    if not replay or scs and scs[0].get("tag") == "advice":
        advice_part(ck, wd, tier == "thorough", scs if replay else None)
    for sc, rec in list(zip(scs, recs))[:: max(1, len(scs) // 5)][:5]:
        ck.sample({"src": rec["src"], "inputs": [unlimbs(x) for x in rec["inputs"]][:6], "lie": rec.get("lie", rec.get("merkle_lie")), "expect": sc["expect"]["ok"]})
    ck.assumptions = ["RPO / Merkle primitives of miden-crypto are trusted (the abstract Merkle model uses an injective hash)"]
    return ck.finish()


def is_sym(x):
    return isinstance(x, list) and len(x) == 3 and x[0] == "P"


def advice_compare(exp, res):
    """Advice.tla's prediction vs the implementation; symbolic permutation terms in the expected stack stand for
    unknown values that must be used consistently (same term <-> same value)."""
    if exp["ok"] == "ok":
        if res["outcome"] != "ok":
            return "spec: succeeds; impl: %s %s" % (res["outcome"], json.dumps(res.get("err", res.get("msg", "")))[:300])
        z = [0, 0, 0, 0]
        n = max(len(exp["stack"]), len(res["stack"]))
        ea = exp["stack"] + [z] * (n - len(exp["stack"]))
        ia = res["stack"] + [z] * (n - len(res["stack"]))
        bind = {}
        for i, (a, b) in enumerate(zip(ea, ia)):
            if is_sym(a):
                k = json.dumps(a)
                if bind.setdefault(k, b) != b:
                    return "final stack position %d: the same hash term has two values (%s, %s)" % (i, bind[k], b)
            elif a != b:
                return "final stack differs at position %d: spec %s impl %s" % (i, a, b)
        vals = [json.dumps(v) for v in bind.values()]
        if len(set(vals)) != len(vals):
            return "distinct hash terms of the specification have equal values in the implementation"
        return None
    if exp["ok"] == "fail":
        if res["outcome"] == "ok":
            return "spec: fails with %s; impl: succeeds" % exp["kind"]
        if res["outcome"] != "err":
            return "spec: fails with %s; impl: %s %s" % (exp["kind"], res["outcome"], str(res.get("msg", ""))[:200])
        if exp["kind"] != "any" and res["err"]["kind"] != exp["kind"]:
            return "spec: error kind %s; impl: %s" % (exp["kind"], res["err"])
        return None
    return "SKIP"


def advice_part(ck, wd, thorough, given=None):
    """Advice provider state machine (Advice.tla): behaviours generated by TLC (GEN_Advice) replayed on the real VM."""
    if given is not None:
        scs = given
    else:
        scs = []
        runs = [("exh", 2, None), ("hash", 4, None), ("sim", 8, 1500)] if not thorough else [("exh", 3, None), ("hash", 5, None), ("sim", 10, 12000)]
        for mode, depth, num in runs:
            cfgp = os.path.join(wd, "GEN_Advice_%s.cfg" % mode)
            with open(cfgp, "w") as f:
                f.write('CONSTANTS DEPTH = %d MODE = "%s"\nINIT Init\nNEXT Next\nINVARIANT Laws\nCHECK_DEADLOCK FALSE\n' % (depth, mode))
            kw = dict(simulate=num, depth=depth + 2) if num else {}
            r = tlc_or_die("GEN_Advice.tla", cfg=cfgp, cwd=os.path.join(SPEC, "gen"), workers=1 if num else 8, timeout=3000, heap="6g", **kw)
            if r.violation:
                raise ToolError("a law of Advice.tla does not hold in its own model: %s" % r.violation)
            ck.add_tlc(r)
            got = json_prints(r, "advice")
            if len(got) < 500:
                raise ToolError("GEN_Advice (%s) produced only %d behaviours" % (mode, len(got)))
            scs += got
    inp = os.path.join(wd, "advice_scenarios.ndjson")
    recs = []
    with open(inp, "w") as f:
        for sc in scs:
            rec = {"src": Renderer().program(sc["prog"]), "inputs": sc["init"], "adv": sc["adv"], "advmap": list(sc["map"].values()) if isinstance(sc["map"], dict) else sc["map"]}
            recs.append(rec)
            f.write(json.dumps(rec) + "\n")
    seen_ops, outcomes = set(), {"ok": 0, "fail": 0}
    for prof in ("release", "checked"):
        outp = os.path.join(wd, "advice_results_%s.ndjson" % prof)
        run_harness(prof, ["replay-masm", inp, outp])
        results = [json.loads(l) for l in open(outp)]
        if len(results) != len(scs):
            raise ToolError("replay returned %d results for %d advice behaviours" % (len(results), len(scs)))
        for sc, rec, res in zip(scs, recs, results):
            d = advice_compare(sc["expect"], res)
            if d == "SKIP":
                continue
            ck.traces += 1
            ck.note_case(rec["src"])
            outcomes["ok" if sc["expect"]["ok"] == "ok" else "fail"] += 1
            for i in sc["prog"]:
                seen_ops.add(i["op"])
            if d:
                last = [i["op"] for i in sc["prog"] if i["op"].startswith("adv")][-2:]
                ck.violation("advice:%s:%s" % (prof, ",".join(last)), d + " | program: " + rec["src"].replace("\n", " ")[:400],
                             {"kind": "advice", "profile": prof, "scenario": sc, "src": rec["src"], "impl": res})
    needed = {"adv.push_mapval", "adv.push_mapvaln", "adv.insert_mem", "adv.insert_hdword", "adv.insert_hperm", "adv_push", "adv_loadw", "adv_pipe", "hmerge", "hperm"}
    if given is None and not needed <= seen_ops:
        raise ToolError("advice behaviours do not exercise %s" % sorted(needed - seen_ops))
    # vacuity guard: look-ups under a key the injector computed by hashing must have succeeded in some behaviours
    hashed = sum(1 for sc in scs if sc["expect"]["ok"] == "ok" and any(i["op"] in ("adv.insert_hdword", "adv.insert_hperm") for i in sc["prog"])
                 and any(i["op"] in ("hmerge", "hperm") for i in sc["prog"]) and sc["prog"][-1]["op"] == "adv_push" and sc["prog"][-1]["p"] > 10)
    if given is None and hashed < 20:
        raise ToolError("only %d behaviours read back a value stored under a hashed key" % hashed)
    ck.extra["advice_hashed_key_readbacks"] = hashed
    ck.extra["advice_behaviours"] = len(scs)
    ck.extra["advice_expected_outcomes"] = outcomes
    ck.extra["advice_instructions"] = sorted(seen_ops)


NEWVAL = [limbs(x) for x in (900, 901, 902, 903)]


def stack_word(w):
    """a word <<w0..w3>> as it lies on the stack (w3 on top)"""
    return [w[3], w[2], w[1], w[0]]


def merkle_rec(sc):
    """concrete program / inputs / host behaviour for an abstract Merkle scenario of GEN_Hints"""
    D, d, i, op = sc["D"], sc["d"], sc["i"], sc["op"]
    leaves = [[limbs(k), limbs(k + 100), limbs(k + 200), limbs(k + 300)] for k in range(1, 2 ** D + 1)]
    rec = {"src": "begin\n  %s\nend\n" % op, "inputs": [], "adv": [], "tree": {"leaves": leaves}, "query": [d, i]}
    if op == "mtree_get":
        rec["mk_inputs"] = [["felt", d], ["felt", i], "root"]
    elif op == "mtree_verify":
        rec["mk_inputs"] = [["node", sc["claim"][0], sc["claim"][1]], ["felt", d], ["felt", i], "root"]
    else:
        rec["mk_inputs"] = [["felt", d], ["felt", i], "root", ["word", NEWVAL]]
        rec["set_value"] = NEWVAL
    lie = sc["lie"]
    if lie["kind"] != "none":
        rec["merkle_lie"] = {"kind": lie["kind"], "depth": lie["d"], "index": lie["i"], "level": lie["level"]}
    if sc["node"] != [d, i]:
        rec["lie_node"] = sc["node"]
    sc = dict(sc)
    sc["rec"] = rec
    sc["name"] = "%s:%s" % (op, lie["kind"] + ("+node" if "lie_node" in rec else ""))
    sc["prog"] = [{"op": op}]
    return sc


def merkle_expected(sc, res):
    """expected final stack of a successful Merkle scenario from the concrete tree values reported by the harness"""
    ex = res["extra"]
    root, node = stack_word(ex["root"]), stack_word(ex["node"])
    z = [0, 0, 0, 0]
    if sc["op"] == "mtree_get":
        st = node + root
    elif sc["op"] == "mtree_verify":
        st = node + [limbs(sc["d"]), limbs(sc["i"])] + root
    else:
        st = node + stack_word(ex["new_root"])
    return st + [z] * (16 - len(st))
