"""C06 — control flow and procedure inlining follow the documented semantics.

R : GEN_Flow behaviours — every program shape of nesting depth <= D (if / if-else / while / repeat.n / exec with and
    without locals, each body = mark + nested node) x every decision tape over {0, 1, 2}; outcome predicted by the
    big-step rules of MasmFlow.tla; replayed on the real assembler + VM (two build profiles).
M : MC_Flow — laws of the specification itself (repeat.n = n copies; exec = pasted body), see spec/mc.
"""
import json, os, concurrent.futures as cf
from lib.common import *
from lib.flow_render import render_program
from checks.c05 import expected_vs_actual


def gen(mode, d, l, shards, wd, nsim=None):
    def one(sh):
        cfgp = os.path.join(wd, "GEN_Flow_%s_%d_%d.cfg" % (mode, d, sh))
        with open(cfgp, "w") as f:
            f.write('CONSTANTS MODE = "%s" D = %d L = %d SHARD = %d NSHARDS = %d\nINIT Init\nNEXT Next\nCHECK_DEADLOCK FALSE\n' % (mode, d, l, sh, shards))
        if mode == "exh":
            return tlc_or_die("GEN_Flow.tla", cfg=cfgp, cwd=os.path.join(SPEC, "gen"), workers=4, timeout=3000, heap="6g")
        return tlc_or_die("GEN_Flow.tla", cfg=cfgp, cwd=os.path.join(SPEC, "gen"), workers=1, simulate=nsim, depth=3,
                          seed_=seed() + sh, timeout=3000, heap="6g")
    with cf.ThreadPoolExecutor(max_workers=4) as ex:
        return list(ex.map(one, range(shards)))


def shape_sig(main):
    def s(body):
        out = []
        for nd in body:
            if nd["k"] == "ins":
                continue
            if nd["k"] == "if":
                out.append("if(%s|%s)" % (s(nd["t"]), s(nd["e"])))
            elif nd["k"] == "while":
                out.append("wh(%s)" % s(nd["b"]))
            elif nd["k"] == "repeat":
                out.append("rep%d(%s)" % (nd["n"], s(nd["b"])))
            else:
                out.append(nd["k"])
        return ",".join(out)
    return s(main)


def run(tier, replay=None):
    ck = Check("C06", tier)
    ck.rule = ("a case = (program shape, decision tape); shapes: all nestings of if / if-else / while / repeat.{1,2,3} / exec "
               "(with and without locals) to depth D; tapes: all sequences over {0,1,2} of length L; distinct = distinct (source, tape)")
    wd = workdir("C06", clean=True)
    thorough = tier == "thorough"
    scs = []
    if replay:
        with open(replay) as f:
            scs = [json.load(f)["replay"]["scenario"]]
    else:
        for mod, cfg in (("MC_Flow.tla", "MC_Flow.cfg"),):
            r = tlc_or_die(mod, cfg=cfg, cwd=os.path.join(SPEC, "mc"), workers=8, timeout=1500)
            ck.add_tlc(r)
            if r.violation:
                ck.violation("spec:" + mod + ":" + r.violation, "law of the specification violated", {"tlc": r.out[-3000:]})
        runs = gen("exh", 2, 4 if thorough else 3, 8, wd)
        if thorough:
            runs += gen("rnd", 3, 6, 8, wd, nsim=1500)
        else:
            runs += gen("rnd", 3, 5, 4, wd, nsim=150)
        for r in runs:
            ck.add_tlc(r)
            scs += json_prints(r, "flow")
    seen = set()
    uniq, rendered = [], []
    for sc in scs:
        if sc["expect"]["ok"] not in ("ok", "fail"):
            continue
        src = render_program(sc["main"], sc["procs"])
        key = src + json.dumps(sc["tape"])
        if key in seen:
            continue
        seen.add(key)
        uniq.append(sc)
        rendered.append({"src": src, "inputs": [], "adv": sc["tape"]})
    inp = os.path.join(wd, "flow_scenarios.ndjson")
    with open(inp, "w") as f:
        for rec in rendered:
            f.write(json.dumps(rec) + "\n")
    kinds = {}
    for prof in ("release", "checked"):
        outp = os.path.join(wd, "flow_results_%s.ndjson" % prof)
        run_harness(prof, ["replay-masm", inp, outp])
        results = [json.loads(l) for l in open(outp)]
        if len(results) != len(uniq):
            raise ToolError("replay returned %d results for %d scenarios" % (len(results), len(uniq)))
        for sc, rec, res in zip(uniq, rendered, results):
            ck.traces += 1
            ck.note_case(rec["src"] + json.dumps(rec["adv"]))
            kinds[sc["expect"]["ok"]] = kinds.get(sc["expect"]["ok"], 0) + 1
            d = expected_vs_actual(sc["expect"], res)
            if d:
                tape = [t[0] for t in sc["tape"]]
                ck.violation("flow:%s:%s:tape=%s" % (prof, shape_sig(sc["main"]), tape),
                             d + " | program: " + rec["src"].replace("\n", " ")[:400],
                             {"kind": "flow", "profile": prof, "scenario": sc, "src": rec["src"], "impl": res})
    ck.extra["expected_outcomes"] = kinds
    for sc, rec in list(zip(uniq, rendered))[:: max(1, len(uniq) // 4)][:4]:
        ck.sample({"src": rec["src"], "tape": [t[0] for t in sc["tape"]], "expect": sc["expect"]["ok"],
                   "expected_top": [unlimbs(x) for x in sc["expect"].get("stack", [])[:6]]})
    return ck.finish()
