"""C01 / C02 — every successful execution is provable and its proof verifies; a proof binds to its statement.

M : Pipeline.tla (execute -> prove -> transport -> tamper -> verify): Completeness (honest behaviours are accepted at the
    configured level for each of the four option sets, with and without the byte round trip), Binding (acceptance implies
    an untampered statement / proof and accepted options), WeakRejected.
R : every behaviour of the model is a scenario for the real prover / verifier on generated programs of every feature
    class (incl. kernels, deep inputs and outputs): honest scenarios must be accepted with a security level >= the
    configured one and the outputs the proof was made for must be those execution reported; every tamper kind (several
    positions each) must make verification return an error - never acceptance, never a panic.
"""
import json, os
from lib.common import *
from lib import vmtrace, progen

DEEP = {"src": "begin\n  push.1 push.2 push.3 push.4 push.5 mul add\nend\n", "kernel": None, "inputs": list(range(1, 21)), "class": "deep"}
KERN = {"src": "proc.p.1 push.7 loc_store.0 syscall.k0 loc_load.0 drop end\nbegin\n  exec.p call.p push.3 push.4 add\nend\n",
        "kernel": "export.k0\n  push.5 mem_store.9 padw caller dropw\nend\nexport.k1\n  push.1 drop\nend\n", "inputs": [9, 8, 7], "class": "kernel"}


def scenarios(ck, which):
    r = tlc_or_die("GEN_Pipeline.tla", cfg="GEN_Pipeline.cfg", cwd=os.path.join(SPEC, "gen"), workers=2, timeout=900)
    ck.add_tlc(r)
    if r.violation:
        ck.violation("spec:Pipeline:" + str(r.violation), "pipeline model invariant violated", {"tlc": r.out[-2000:]})
    scs = json_prints(r, "pipeline")
    if which == "C01":
        return [s for s in scs if s["tamper"] == "none" and s["expect"] == "accept"]
    return [s for s in scs if s["tamper"] != "none" or s["expect"] != "accept"]


def run_pipeline(ck, pid, tier, replay):
    wd = workdir(pid, clean=True)
    thorough = tier == "thorough"
    scs = scenarios(ck, pid)
    # group model scenarios by (opts, via_bytes): one proof, many tampers
    groups = {}
    for s in scs:
        groups.setdefault((s["opts"], s["hash"], s["via_bytes"]), []).append(s)
    if pid == "C01":
        nprog = 40 if thorough else 6
        progs = progen.corpus(seed() + 11, nprog, nstmts=12 if thorough else 8) + [DEEP, KERN]
        progs += vmtrace.cycle_boundary_programs(wd, targets=(62, 63, 64, 126, 127, 128, 254, 255, 256) if thorough else (63, 127))
        progs += [p for p in vmtrace.chiplet_boundary_programs(False) if thorough or p["class"] == "chiplets-55"]
    else:
        progs = [DEEP, KERN] + progen.corpus(seed() + 13, 6 if thorough else 1, classes=["mixed", "mem"], nstmts=8)
    recs, meta = [], []
    std = {"regular96": "blake3_192", "regular128": "blake3_256", "recursive96": "rpo256", "recursive128": "rpo256"}
    for (opts, htag, via), ss in sorted(groups.items()):
        # pairings of parameter set and hash function outside the documented ones: two programs are enough
        for p in (progs if std.get(opts) == htag else progs[:2]):
            recs.append({"src": p["src"], "kernel": p.get("kernel"), "inputs": [limbs(x) for x in p["inputs"]], "adv": [],
                         "opts": opts, "hash": htag, "via_bytes": via, "tampers": sorted({s["tamper"] for s in ss})})
            meta.append((opts + "/" + htag, via, p, {s["tamper"]: s for s in ss}))
    inp = os.path.join(wd, "pipeline_scenarios.ndjson")
    with open(inp, "w") as f:
        for r_ in recs:
            f.write(json.dumps(r_) + "\n")
    covered = {}
    for prof in ("release",) + (("checked",) if thorough else ()):
        outp = os.path.join(wd, "pipeline_%s.ndjson" % prof)
        # proving is the expensive part: run the harness on slices in parallel
        import concurrent.futures as cf
        n = len(recs)
        k = min(12, n)
        slices = [list(range(i, n, k)) for i in range(k)]
        results = [None] * n

        def one(idx):
            sp = os.path.join(wd, "slice_%s_%d.in" % (prof, idx[0]))
            so = os.path.join(wd, "slice_%s_%d.out" % (prof, idx[0]))
            with open(sp, "w") as f:
                for i in idx:
                    f.write(json.dumps(recs[i]) + "\n")
            run_harness(prof, ["pipeline", sp, so], timeout=7200)
            return idx, [json.loads(l) for l in open(so)]
        with cf.ThreadPoolExecutor(max_workers=k) as ex:
            for idx, res in ex.map(one, slices):
                for i, r_ in zip(idx, res):
                    results[i] = r_
        for (opts, via, p, bykind), res in zip(meta, results):
            rep = {"kind": "pipeline", "profile": prof, "program": p, "opts": opts, "via_bytes": via}
            base_sig = "%s:%s:bytes=%s:%s" % (opts, p["class"], via, prof)
            if res["outcome"] != "ok":
                if not opts.startswith(("weak", "q26", "g15", "b4")):
                    ck.violation("prove:" + base_sig, "proving a successful execution failed: %s" % str(res)[:300], rep)
                continue
            for tv in res["tampers"]:
                kind = tv["kind"]
                sc = bykind[kind]
                if tv["v"] == "n/a":
                    continue
                ck.traces += 1
                ck.note_case([opts, via, kind, tv["param"], p["src"]])
                covered[kind] = covered.get(kind, 0) + 1
                sig = "%s:%s:p%d:%s" % (kind, base_sig, tv["param"], "")
                if sc["expect"] == "any" and tv["v"] != "panic":
                    ck.extra.setdefault("not_judged", {}).setdefault(kind + ":" + tv["v"], 0)
                    ck.extra["not_judged"][kind + ":" + tv["v"]] += 1
                    continue
                if tv["v"] == "panic":
                    ck.violation("panic:" + sig, "verification panicked: %s" % tv.get("msg"), dict(rep, tamper=kind, param=tv["param"]))
                elif sc["expect"] == "accept":
                    if tv["v"] != "accept":
                        ck.violation("rejected-honest:" + sig, "honest proof rejected: %s" % tv.get("err"), rep)
                    elif tv["level"] < sc["min_level"]:
                        ck.violation("level:" + sig, "security level %d below the configured %d" % (tv["level"], sc["min_level"]), rep)
                    if not res["reparsed_equal"]:
                        ck.violation("roundtrip:" + base_sig, "proof bytes do not decode to an equal proof", rep)
                    if res["outputs_match_execution"] is not True:
                        ck.violation("outputs:" + base_sig, "outputs returned by prove differ from those execution reported", rep)
                elif tv["v"] == "accept":
                    ck.violation("accepted-tampered:" + sig, "verification ACCEPTED although %s was altered (param %d)" % (kind, tv["param"]),
                                 dict(rep, tamper=kind, param=tv["param"]))
    ck.extra["scenarios_by_tamper"] = covered
    ck.extra["programs"] = len(progs)
    ck.sample({"opts": recs[0]["opts"], "via_bytes": recs[0]["via_bytes"], "program": recs[0]["src"][:300], "tampers": recs[0]["tampers"]})
    ck.sample({"program": KERN["src"], "kernel": KERN["kernel"]})
    ck.assumptions = ["soundness of winterfell's STARK (a corrupted proof surviving with probability <= 2^-16 per attempt would be reported)"]
    return ck.finish()


def run(tier, replay=None):
    ck = Check("C01", tier)
    ck.rule = "a case = (program, option set, transport, honest); distinct = distinct tuples"
    return run_pipeline(ck, "C01", tier, replay)
