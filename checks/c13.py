"""C13 — the decoded operation stream is exactly the program.

M : MC_Decoder — for every span pattern (reduced and real batching constants) the rows SpanRows assigns: group counter
    reaches zero at the end, op_index stays in range, NOOPs appear only after an immediate-carrier closing its group or
    as power-of-two padding, the executed operations are the span's operations in order.
T : recorded executions of generated programs (all MAST shapes, spans of every fill pattern, loops 0..n iterations,
    calls / syscalls / dyn) are validated row by row against MidenVM.tla: operation, block address, hasher registers
    (child hashes / op groups / block hash + flags), in_span, group_count, op_index, batch flags, and the machine state
    the operation acts on; the final row must be HALT with the program hash.
    Self-test (binding): a corrupted recording must be rejected at the corrupted event.
"""
import json, os, random
from lib.common import *
from lib import vmtrace, progen


def span_programs(seed, n):
    """programs that are one span with a random push / non-push pattern (fill patterns of groups and batches)"""
    r = random.Random(seed)
    out = []
    for i in range(n):
        ln = r.choice([1, 2, 7, 8, 9, 10, 17, 18, 26, 63, 64, 71, 72, 73, 80, 100, 150])
        ops = []
        for _ in range(ln):
            x = r.random()
            pn = r.choice([0.0, 0.0, 0.15, 0.4])      # share of instructions that assemble to an explicit NOOP
            if x < pn:
                ops.append(r.choice(["add.0", "mul.1", "sub.0", "div.1", "exp.1", "u32rotl.0", "u32shl.0"]))
            else:
                ops.append("push.%d" % r.randrange(2, 2**63) if r.random() < r.choice([0.1, 0.5, 0.9]) else r.choice(["add", "swap", "dup.1", "neg", "mul", "movup.3", "drop", "push.0", "add.1"]))
        out.append({"src": "begin\n  " + " ".join(ops) + "\nend\n", "kernel": None, "inputs": [r.randrange(100) for _ in range(r.choice([0, 16, 20]))], "class": "span"})
    return out


def cover_programs(wd, thorough, ck):
    """one program per transition of the batching automaton (GEN_SpanCover): batches closed early, immediates moved to the
    next batch, groups closed one short, padding groups - shapes random patterns rarely hit"""
    pats = []
    for nb, fine in ((2, 1), (3, 0)) if thorough else ((2, 0),):
        cfgp = os.path.join(wd, "GEN_SpanCover_%d_%d.cfg" % (nb, fine))
        with open(cfgp, "w") as f:
            f.write("CONSTANTS NB = %d FINE = %d FULL = FALSE\nINIT Init\nNEXT Next\nVIEW Shape\nCHECK_DEADLOCK FALSE\n" % (nb, fine))
        r = tlc_or_die("GEN_SpanCover.tla", cfg=cfgp, cwd=os.path.join(SPEC, "gen"), workers=1, timeout=3000, heap="6g")
        ck.add_tlc(r)
        pats += [sc["pat"] for sc in json_prints(r, "span")]
    if len(pats) < 1000:
        raise ToolError("covering set of span patterns is unexpectedly small (%d)" % len(pats))
    out = []
    for k, pat in enumerate(pats):
        ops = ["push.%d" % (2 + (7919 * (i + 1) * (k + 1)) % (2**62)) if b else ("swap" if i % 2 else "neg") for i, b in enumerate(pat)]
        out.append({"src": "begin\n  " + " ".join(ops) + "\nend\n", "kernel": None, "inputs": [3, 5], "class": "span-cover"})
    return out


def run(tier, replay=None):
    ck = Check("C13", tier)
    ck.rule = "a case = one recorded execution (program, inputs); distinct = distinct program texts; every row of every execution is validated"
    wd = workdir("C13", clean=True)
    thorough = tier == "thorough"
    r = tlc_or_die("MC_Decoder.tla", cfg="MC_Decoder_small.cfg", cwd=os.path.join(SPEC, "mc"), workers=8, timeout=2400, heap="6g")
    ck.add_tlc(r)
    if r.violation:
        ck.violation("spec:MC_Decoder:" + r.violation, "decoder row invariant violated in the specification", {"tlc": r.out[-3000:]})
    r = tlc_or_die("MC_Decoder.tla", cfg="MC_Decoder_real.cfg", cwd=os.path.join(SPEC, "mc"), workers=8, timeout=2400, heap="6g")
    ck.add_tlc(r)
    if r.violation:
        ck.violation("spec:MC_Decoder:" + r.violation, "decoder row invariant violated in the specification", {"tlc": r.out[-3000:]})
    if replay:
        with open(replay) as f:
            progs = [json.load(f)["replay"]["program"]]
    else:
        n = 400 if thorough else 60
        progs = progen.corpus(seed(), n, classes=["flow", "calls", "mixed", "stack", "crypto"], nstmts=14 if thorough else 10)
        progs += progen.depth_sweep(depths=(0, 17, 24) if thorough else (17,), rng_seed=seed())
        progs += span_programs(seed(), 200 if thorough else 40)
        progs += vmtrace.callee_shape_programs() + vmtrace.fri_programs()
        cov = cover_programs(wd, thorough, ck)
        ck.extra["covering_span_programs"] = len(cov)
        progs += cov
    for prof in ("release",) + (("checked",) if thorough else ()):
        rec = vmtrace.record(progs, wd, prof)
        rows, states, rejects, runs = vmtrace.validate(rec, wd, "c13_" + prof)
        ck.states += states
        ck.transitions += states
        ck.traces += len(runs)
        ck.extra["rows_validated_" + prof] = rows
        for p in progs:
            ck.note_case(p["src"] + str(p["inputs"]))
        for rj in rejects:
            sig, ev = vmtrace.reject_signature(rj, runs)
            ck.violation(sig + ":" + prof, "row %s of the recording is not a row of the specification: %s | program: %s" % (
                ev.get("t"), rj["text"][:600], progs[rj["run"]]["src"].replace("\n", " ")[:300]),
                {"kind": "vm", "profile": prof, "program": progs[rj["run"]], "event": rj["event"], "detail": rj["text"]})
        if prof == "release" and not rejects:
            # ---- self-test of the binding: corrupt one recorded field, TLC must reject exactly there
            lines = runs[0]
            rowidx = [i for i, l in enumerate(lines) if '"e":"row"' in l]
            k = rowidx[len(rowidx) // 2]
            ev = json.loads(lines[k])
            ev["gc"] = ev["gc"] + 1
            lines2 = lines[:k] + [json.dumps(ev) + "\n"] + lines[k + 1:]
            cpath = os.path.join(wd, "corrupt.rec")
            with open(cpath, "w") as f:
                f.writelines(lines2)
            _, _, rej2, _ = vmtrace.validate(cpath, wd, "c13_selftest", nchunks=1)
            ok = len(rej2) == 1 and rej2[0]["event"] == k + 1
            ck.extra["binding_selftest"] = {"corrupted_event": k + 1, "rejected_at": rej2[0]["event"] if rej2 else None, "ok": ok}
            if not ok:
                raise ToolError("binding self-test failed: corrupted recording was not rejected at the corrupted event")
    ops = {}
    for run_ in runs:
        for l in run_:
            m = l.find('"op":"')
            if m >= 0:
                o = l[m + 6: l.find('"', m + 6)]
                ops[o] = ops.get(o, 0) + 1
    ck.extra["operations_seen"] = ops
    ck.sample({"program": progs[0]["src"], "inputs": progs[0]["inputs"][:6]})
    ck.sample({"program": progs[-1]["src"][:300]})
    ck.assumptions = ["block hashes are taken from the assembled MAST (their recipe is C08); results of HPERM are checked against the RPO primitive by the recorder"]
    return ck.finish()
