"""C16 — standard-library integer arithmetic is exact.

M : MC_Nat — the limb-level integer functions of Nat.tla (add, sub, mul, divmod, comparisons, bitwise, shifts,
    rotations, leading/trailing counts) equal plain integer arithmetic for all pairs of 8-bit numbers (HB = 2).
R : GEN_U64 — every documented std::math::u64 procedure x all combinations of limb values from the boundary set
    (shifts: all amounts 0..63), the u256 procedures on limb patterns; the result prescribed by the contract
    (U64.tla, evaluated at full width) is compared with the real procedure run on the real VM, with a sentinel
    stack underneath that must stay untouched.
"""
import json, os, concurrent.futures as cf
from lib.common import *
from checks.c05 import expected_vs_actual

SENTINELS = [limbs(x) for x in (0xDEADBEEF, 0x1234567890ABCDEF % P, 7, P - 1, 1 << 32)]


def run(tier, replay=None):
    ck = Check("C16", tier)
    ck.rule = "a case = (procedure, operand limbs); distinct = distinct (procedure, operands)"
    wd = workdir("C16", clean=True)
    thorough = tier == "thorough"
    cases = []
    if replay:
        with open(replay) as f:
            cases = [json.load(f)["replay"]["case"]]
    else:
        r = tlc_or_die("MC_Nat.tla", cfg="MC_Nat_full.cfg" if thorough else "MC_Nat_quick.cfg", cwd=os.path.join(SPEC, "mc"), workers=8, timeout=2400)
        ck.add_tlc(r)
        if r.violation:
            ck.violation("spec:MC_Nat:" + r.violation, "limb arithmetic of the specification is not integer arithmetic", {"tlc": r.out[-3000:]})
        shards = 8

        def one(sh):
            cfgp = os.path.join(wd, "GEN_U64_%d.cfg" % sh)
            with open(cfgp, "w") as f:
                f.write("CONSTANTS LEVEL = %d SHARD = %d NSHARDS = %d\nINIT Init\nNEXT Next\nCHECK_DEADLOCK FALSE\n" % (2 if thorough else 1, sh, shards))
            return tlc_or_die("GEN_U64.tla", cfg=cfgp, cwd=os.path.join(SPEC, "gen"), workers=4, timeout=3000, heap="6g")
        with cf.ThreadPoolExecutor(max_workers=4) as ex:
            for r in ex.map(one, range(shards)):
                ck.add_tlc(r)
                cases += json_prints(r, "u64")
    inp = os.path.join(wd, "u64_scenarios.ndjson")
    recs = []
    with open(inp, "w") as f:
        for c in cases:
            src = "use.std::math::%s\nbegin\n  exec.%s::%s\nend\n" % (c["mod"], c["mod"], c["proc"])
            rec = {"src": src, "stdlib": True, "inputs": c["args"] + SENTINELS, "adv": []}
            recs.append(rec)
            f.write(json.dumps(rec) + "\n")
    procs = set()
    for prof in ("release", "checked"):
        outp = os.path.join(wd, "u64_results_%s.ndjson" % prof)
        run_harness(prof, ["replay-masm", inp, outp])
        results = [json.loads(l) for l in open(outp)]
        if len(results) != len(cases):
            raise ToolError("replay returned %d results for %d cases" % (len(results), len(cases)))
        for c, rec, res in zip(cases, recs, results):
            ck.traces += 1
            ck.note_case([c["mod"], c["proc"], c["args"]])
            procs.add(c["mod"] + "::" + c["proc"])
            if c["expect"]["ok"] == "ok":
                exp = {"ok": "ok", "stack": c["expect"]["out"] + SENTINELS}
                exp["stack"] += [[0, 0, 0, 0]] * max(0, 16 - len(exp["stack"]))
            else:
                exp = {"ok": "fail", "kind": "any", "code": 0}
            d = expected_vs_actual(exp, res)
            if d:
                ck.violation("u64:%s:%s::%s" % (prof, c["mod"], c["proc"]),
                             d + " | args(top first) " + str([unlimbs(a) for a in c["args"]]),
                             {"kind": "u64", "profile": prof, "case": c, "src": rec["src"], "impl": res})
    ck.extra["procedures_covered"] = sorted(procs)
    for c in cases[:: max(1, len(cases) // 5)][:5]:
        ck.sample({"proc": c["mod"] + "::" + c["proc"], "args_top_first": [unlimbs(a) for a in c["args"]],
                   "expect": c["expect"]["ok"], "out": [unlimbs(a) for a in c["expect"].get("out", [])]})
    ck.assumptions = ["u64.md / u256.masm doc comments are the contract; operands are valid 32-bit limbs (anything else is documented as undefined)"]
    return ck.finish()
