"""C12 — all lookups between trace components balance.

T1: Lookups.tla defines, from the specification's own machine state, the requests every operation sends to the memory
    and bitwise chiplets and to the range checker (helper limbs of the u32 operations) and the number of hasher rows each
    block / operation consumes.  TV_VM accumulates them while it validates the recorded rows and, at the end of each
    execution, requires bag equality with what the trace provides: the memory chiplet's rows (ctx, addr, clk, read /
    write, word), the results of the bitwise cycles, the range table's (value, multiplicity) rows (requests = u32 limbs
    + the memory chiplet's delta limbs), the length of the hasher segment.
T2: for the same executions the real auxiliary columns are built for k independently drawn challenge vectors and every
    running-product / LogUp column must end in the value Lookups!Terminal prescribes (block stack, block hash, op group
    tables and chiplets bus: 1; range bus: its initial value), for every program feature class (single / multi-batch
    spans, split, loop, call, syscall, dynexec, dyncall, unused kernel, every chiplet-talking operation).
T3: for the feature / Merkle / callee-shape / FRI programs and part of the random corpus the recording carries every row
    of the chiplets segment, and TV_VM requires it to be exactly the segment Chiplets.tla prescribes for the requests
    the specification issued: hasher cycles (selectors per row position, first-row state, the seven rounds, node
    index, absorbed batches / path nodes, returned digest = block hash / HPERM result / Merkle root), bitwise cycles,
    memory rows in (ctx, addr, clk) order with selectors and deltas, kernel ROM rows, section order and zero padding.
Self-test (binding): a recording with one corrupted chiplet row (memory bag; hasher / bitwise / memory / kernel ROM cell)
    must be rejected.
"""
import json, os, re
from lib.common import *
from lib import vmtrace, progen

FEATURES = [
    ("single-batch", "begin push.1 push.2 add end", None),
    ("multi-batch", "begin " + "push.1 drop " * 40 + " end", None),
    ("multi-batch-imm", "begin " + "push.77 " * 30 + "dropw " * 7 + "drop drop end", None),
    ("split", "begin push.1 if.true push.2 drop else push.3 drop end end", None),
    ("loop", "begin push.1 while.true push.0 end end", None),
    ("loop2", "begin push.0 push.1 push.1 while.true push.5 drop end end", None),
    ("call", "proc.f push.1 drop end begin call.f end", None),
    ("call-locals", "proc.f.2 push.1 loc_store.0 loc_load.0 drop end begin call.f exec.f end", None),
    ("syscall", "begin syscall.k end", "export.k push.1 drop end\n"),
    ("syscall-caller", "proc.f syscall.k end begin call.f end", "export.k padw caller dropw end\n"),
    ("kernel-unused", "begin push.1 drop end", "export.k push.1 drop end\nexport.k2 push.2 drop end\n"),
    ("dynexec", "proc.f push.1 drop end begin procref.f dynexec dropw end", None),
    ("dyncall", "proc.f push.1 drop end begin procref.f dyncall dropw end", None),
    ("bitwise", "begin push.3 push.5 u32and drop push.12 push.10 u32xor drop push.12 push.10 u32or drop end", None),
    ("memory", "begin push.7 mem_store.3 mem_load.3 drop push.1.2.3.4 mem_storew.9 dropw padw mem_loadw.9 dropw mem_load.4294967295 drop end", None),
    ("mstream", "begin push.1.2.3.4 mem_storew.8 dropw push.8 padw padw padw mem_stream dropw dropw dropw drop end", None),
    ("hperm", "begin push.1.2.3.4 push.5.6.7.8 push.9.10.11.12 hperm dropw dropw dropw end", None),
    ("hmerge-hash", "begin push.1.2.3.4 push.5.6.7.8 hmerge push.9.9.9.9 hash dropw dropw end", None),
    ("u32", "begin push.4294967295 push.3 u32overflowing_add drop drop push.17 push.5 u32divmod drop drop push.9 u32split drop drop push.5 push.6 u32assert2 drop drop push.7 push.8 push.9 u32overflowing_madd drop drop end", None),
]


LEAVES = [[i + 1, 10 * i + 2, 3, 4 + i] for i in range(8)]          # depth 3


def merkle_programs():
    """Merkle operations (MPVERIFY / MRUPDATE) on a tree held by the advice provider; {{MROOT}} = its root"""
    out = []
    w = lambda leaf: ".".join(str(x) for x in leaf)
    for idx in (0, 5, 7):
        out.append(("mtree_get", "begin push.{{MROOT}} push.%d push.3 mtree_get dropw dropw end" % idx))
        out.append(("mtree_verify", "begin push.{{MROOT}} push.%d push.3 push.%s mtree_verify dropw drop drop dropw end" % (idx, w(LEAVES[idx]))))
        out.append(("mtree_set", "begin push.9.8.7.6 push.{{MROOT}} push.%d push.3 mtree_set dropw dropw end" % idx))
        # writing the value the node already holds
        out.append(("mtree_set-same", "begin push.%s push.{{MROOT}} push.%d push.3 mtree_set dropw dropw end" % (w(LEAVES[idx]), idx)))
    out.append(("mtree_set-twice", "begin push.9.8.7.6 push.{{MROOT}} push.2 push.3 mtree_set dropw push.5.5.5.5 swapw push.6 push.3 mtree_set dropw dropw end"))
    return [{"src": s, "kernel": None, "inputs": [], "mtree": LEAVES, "class": "feature:" + nm} for nm, s in out]


def run(tier, replay=None):
    ck = Check("C12", tier)
    ck.rule = "a case = one execution; every request of every row and every chiplet / range row of it enters the bag comparison; k challenge vectors per execution for the terminal values"
    wd = workdir("C12", clean=True)
    thorough = tier == "thorough"
    r = tlc_or_die("GEN_Lookups.tla", cfg="GEN_Lookups.cfg", cwd=os.path.join(SPEC, "gen"), timeout=600)
    ck.add_tlc(r)
    contract = json_prints(r, "aux")[0]
    if replay:
        with open(replay) as f:
            progs = [json.load(f)["replay"]["program"]]
    else:
        progs = [{"src": s, "kernel": k, "inputs": [], "class": "feature:" + nm} for nm, s, k in FEATURES]
        progs += [{"src": s, "kernel": k, "inputs": list(range(1, 20)), "class": "feature:" + nm + ":deep"} for nm, s, k in FEATURES[:13]]
        progs += merkle_programs()
        progs += progen.depth_sweep(depths=(0, 17, 24) if thorough else (17,), rng_seed=seed())
        progs += progen.op_at_depth(depths=(16, 17, 20) if thorough else (16,), rng_seed=seed())
        progs += progen.corpus(seed() + 12, 240 if thorough else 32, nstmts=14 if thorough else 10)
        # trace-shape boundaries: executed cycles / chiplet rows of exactly 2^k - 2, 2^k - 1, 2^k (the last rows of a component
        # then sit next to the random row, where the auxiliary columns must still close)
        progs += vmtrace.cycle_boundary_programs(wd, targets=(62, 63, 64, 126, 127, 128, 254, 255, 256) if thorough else (63, 64, 127))
        progs += vmtrace.chiplet_boundary_programs(thorough)
        progs += vmtrace.callee_shape_programs() + vmtrace.fri_programs() + vmtrace.range_gap_programs(thorough)
    # T3 : which executions are recorded with every chiplet row
    nfull = 0
    for i, p in enumerate(progs):
        c = p["class"]
        if c.startswith(("feature:", "callee-", "fri-")) or (c in progen.FEATURE_CLASSES and i % (2 if thorough else 3) == 0) or replay:
            p["chiprows"] = True
            nfull += 1
    ck.extra["executions_with_full_chiplet_rows"] = nfull
    if not replay and nfull < 40:
        raise ToolError("only %d executions carry full chiplet rows" % nfull)
    # T1 : bags
    rec = vmtrace.record(progs, wd, "release")
    rows, states, rejects, runs = vmtrace.validate(rec, wd, "c12")
    ck.states += states
    ck.transitions += states
    ck.traces += len(runs)
    ck.extra["rows_validated"] = rows
    for rj in rejects:
        p = progs[rj["run"]]
        m = re.search(r'"end", \{([^}]*)\}', rj["text"])
        if m:
            which = m.group(1).replace('"', "").replace(" ", "")
            ck.violation("bag:%s:%s" % (which, p["class"].split(":d")[0]), "requests and responses differ (%s) | program: %s" % (which, p["src"].replace("\n", " ")[:300]),
                         {"kind": "vm", "program": p, "detail": rj["text"][:1500]})
        else:
            sig, ev = vmtrace.reject_signature(rj, runs)
            ck.violation(sig + ":" + p["class"], "row is not the row the specification prescribes: %s" % rj["text"][:400], {"kind": "vm", "program": p, "detail": rj["text"][:1500]})
    # T2 : terminal values of the real auxiliary columns
    inp = os.path.join(wd, "aux_scenarios.ndjson")
    k = 4 if thorough else 2
    vmtrace.write_scenarios(progs, inp, {"challenges": k, "seed": seed() + 5, "hints": [64]})
    outp = os.path.join(wd, "aux.out")
    run_harness("release", ["air-check", inp, outp], timeout=7200)
    cols = contract["columns"]
    term = contract["terminal"]
    nterm = 0
    for p, line in zip(progs, open(outp)):
        res = json.loads(line)
        ck.note_case(p.get("src", "") + str(p.get("ops")) + str(p["inputs"]))
        if res["outcome"] != "ok":
            ck.violation("aux:%s:%s" % (res["outcome"], p["class"]), "auxiliary columns could not be built: %s" % str(res)[:300], {"kind": "aux", "program": p})
            continue
        # the stack overflow table's final state depends on the public inputs (rows left for outputs below position 15):
        # its column is judged by the AIR's boundary assertions instantiated with this execution's inputs and outputs
        so = cols.index("stack_overflow")
        bad = [a for a in res.get("assert_viol", []) if re.match(r"aux\[\d+\]\(%d, " % so, a)]
        nterm += len(res["aux_last"])
        if bad:
            ck.violation("terminal:stack_overflow:%s" % p["class"].split(":deep")[0], "the stack overflow table does not start / end in the state the public inputs define (assertion %s) | program: %s" % (
                bad[0], p.get("src", "").replace("\n", " ")[:200]), {"kind": "aux", "program": p, "column": "stack_overflow"})
        for c in range(len(res["aux_last"])):
            for ci, (name, t) in enumerate(zip(cols, term)):
                last, first = res["aux_last"][c][ci], res["aux_first"][c][ci]
                if t == "public" or (t == "one_without_kernel" and p.get("kernel")):
                    continue
                nterm += 1
                want = first if t == "first" else ["1", "0"]
                if last != want:
                    ck.violation("terminal:%s:%s" % (name, p["class"].split(":deep")[0]), "column %s ends in %s instead of %s (challenge set %d) | program: %s" % (
                        name, last, want, c, p.get("src", "").replace("\n", " ")[:200]), {"kind": "aux", "program": p, "column": name})
                    break
    ck.extra.update({"terminal_values_checked": nterm, "challenge_vectors": k, "programs": len(progs), "aux_columns": cols})
    # binding self-test: corrupt one memory row of a recording
    if not replay:
        demo = [pp for pp in progs if pp["class"] == "feature:memory"][:1]
        rec2 = vmtrace.record(demo, wd, "release", tag="selftest")
        lines = open(rec2).read().split("\n")
        for i, ln in enumerate(lines):
            if '"e":"end"' in ln[:60] or (ln.startswith("{") and '"chip"' in ln[:20]):
                ev = json.loads(ln)
                ev["chip"]["mem"][0][4][0][0] ^= 1
                lines[i] = json.dumps(ev)
        with open(rec2, "w") as f:
            f.write("\n".join(lines))
        _, _, rj2, _ = vmtrace.validate(rec2, wd, "selftest", nchunks=1)
        ck.extra["selftest_corrupted_memory_row_rejected"] = bool(rj2) and "lk_memory" in rj2[0]["text"]
        if not ck.extra["selftest_corrupted_memory_row_rejected"]:
            raise ToolError("binding self-test failed: a corrupted memory row was not rejected")
        # one corrupted cell per chiplet in recordings that carry the full rows
        st = {"chip_hasher": ("syscall-caller", lambda f: f["hasher"][9][1][3].__setitem__(0, f["hasher"][9][1][3][0] ^ 1)),
              "chip_hasher_sel": ("multi-batch", lambda f: f["hasher"][7][0].__setitem__(0, 0)),
              "chip_hasher_idx": ("mtree_get", lambda f: f["hasher"][17][2].__setitem__(0, f["hasher"][17][2][0] ^ 1)),
              "chip_bitwise": ("bitwise", lambda f: f["bw"][6][4].__setitem__(2, 1 - f["bw"][6][4][2])),
              "chip_memory": ("memory", lambda f: f["mem"][2].__setitem__(6, f["mem"][2][6] + 1)),
              "chip_kernel": ("kernel-unused", lambda f: f["kern"][1].__setitem__(0, 1))}
        for name, (cls, mutate) in st.items():
            demo = [dict(pp, chiprows=True) for pp in progs if pp["class"] == "feature:" + cls][:1]
            rec3 = vmtrace.record(demo, wd, "release", tag="selftest_" + name)
            lines = open(rec3).read().split("\n")
            for i, ln in enumerate(lines):
                if '"e":"end"' in ln[:60] or (ln.startswith("{") and '"chip"' in ln[:20]):
                    ev = json.loads(ln)
                    mutate(ev["chip"]["full"])
                    lines[i] = json.dumps(ev)
            with open(rec3, "w") as f:
                f.write("\n".join(lines))
            _, _, rj3, _ = vmtrace.validate(rec3, wd, "selftest_" + name, nchunks=1)
            ok = bool(rj3) and name[:11].rstrip("_") in rj3[0]["text"]
            ck.extra["selftest_%s_rejected" % name] = ok
            if not ok:
                raise ToolError("binding self-test failed: corrupted chiplet cell (%s) was not rejected: %s" % (name, rj3[:1]))
    ck.sample({"class": progs[0]["class"], "program": progs[0]["src"][:200]})
    ck.sample({"class": progs[1]["class"], "program": progs[1]["src"][:200]})
    ck.assumptions = ["the hasher requests are judged three ways: the number of hasher rows the specification prescribes for every execution, the real b_chip / vt_chip columns under random challenges, and - for the executions recorded with full chiplet rows - every cell of every hasher cycle (Chiplets.tla); the RPO round function is uninterpreted and bound by the recorder's table of round outputs computed with the miden-crypto primitive",
                      "stack overflow table and kernel procedure table terminals depend on public inputs: asserted by the AIR (C03) / recorded"]
    return ck.finish()
