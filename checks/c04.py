"""C04 — the AIR rejects any deviation from an operation's defined effect.

M : AirEnforced.tla derives, from the operation semantics of MidenVM.tla in the mini field, which cells of the next row
    (stack positions, depth b0, overflow address b1, fmp, clk) are a function of the current row alone for every
    operation in every depth regime (16 / 17 / deeper) - these are the cells a transition constraint must pin down,
    except those the documentation routes through a bus; it checks that the helper-limb relations of the u32
    operations determine the limbs uniquely (all operand tuples of the mini field), and prints the table.
T : honest traces (generated programs of all feature classes + every operation kind at base depths 16 / 17 / 18 / deep)
    whose rows are validated against MidenVM.tla in C03; for every row and every enforced cell the harness substitutes
    wrong values (v+1, v-1, 0, 1, neighbour's value, p-1, 2^32, random) and evaluates the real ProcessorAir transition
    constraints on the altered pair: at least one must be non-zero.  A sample of altered pairs is also fed to the
    trace validation (TV_VM), which must reject them (the specification itself calls them invalid).
"""
import json, os
from lib.common import *
from lib import vmtrace, progen


def enforced_table(ck):
    r = tlc_or_die("MC_AirEnforced.tla", cfg="MC_AirEnforced.cfg", cwd=os.path.join(SPEC, "mc"), workers=2, timeout=1800)
    ck.add_tlc(r)
    if r.violation or "Assumption" in r.out and "is false" in r.out:
        ck.violation("spec:AirEnforced", "the enforced-cell model is inconsistent (operation not exercised / helper limbs not unique)", {"tlc": r.out[-2000:]})
    t = json_prints(r, "enforced")
    if not t:
        sys.stderr.write(r.out[-3000:])
        raise ToolError("MC_AirEnforced printed no table")
    return t[0]


KERNEL = "export.kread\n  push.2 mem_load drop\nend\nexport.kwrite\n  push.9.9.9.9 push.2 mem_storew dropw\nend\n"


def memory_programs():
    """memory chiplet row pairs of every kind (read / write x same address / new address / new context), including first
    reads in a fresh context right after rows of another context that hold zeros or non-zero words"""
    P = []

    def add(name, src, kernel=None):
        P.append({"src": src, "kernel": kernel, "inputs": [], "adv": [], "class": "memory:" + name})
    add("ctx-read-after-zero-read", "proc.f push.3 mem_load drop end begin push.5 mem_load drop call.f end")
    add("ctx-read-after-write", "proc.f push.5 mem_load drop push.3 mem_load drop end begin push.1.2.3.4 push.5 mem_storew dropw call.f end")
    add("ctx-write-first", "proc.f push.8.7.6.5 push.3 mem_storew dropw push.3 mem_load drop end begin push.3 mem_load drop call.f push.3 mem_load drop end")
    add("two-calls", "proc.f push.3 mem_load drop push.4 mem_loadw end proc.g push.1 push.3 mem_store push.3 mem_load drop end begin padw call.f call.g call.f dropw end")
    add("nested", "proc.h push.7 mem_load drop end proc.g call.h push.7 mem_load drop push.2 push.7 mem_store end begin push.7 mem_load drop call.g push.7 mem_load drop end")
    add("locals", "proc.f.2 push.5 loc_store.0 loc_load.1 drop loc_load.0 drop end proc.g.1 loc_load.0 drop exec.f end begin call.g call.f push.0 mem_load drop end")
    add("syscall-read", "begin push.2 mem_load drop syscall.kread push.2 mem_load drop end", KERNEL)
    add("syscall-from-call", "proc.f push.2 mem_load drop syscall.kwrite push.2 mem_load drop syscall.kread end begin call.f push.2 mem_load drop end", KERNEL)
    add("dyncall", "proc.f push.6 mem_load drop end begin push.6 mem_load drop procref.f dyncall dropw end")
    add("stream", "proc.f padw padw padw push.10 movdn.12 mem_stream dropw dropw dropw drop end begin push.1.2.3.4 push.10 mem_storew dropw call.f padw push.11 mem_loadw dropw end")
    return P


def run(tier, replay=None):
    ck = Check("C04", tier)
    ck.rule = "a case = (row of an honest trace, enforced cell, wrong value); distinct = distinct (operation, depth regime, cell)"
    wd = workdir("C04", clean=True)
    thorough = tier == "thorough"
    table = enforced_table(ck)
    if replay:
        with open(replay) as f:
            progs = [json.load(f)["replay"]["program"]]
    else:
        progs = progen.op_at_depth(depths=(16, 17, 18, 19, 21, 40) if thorough else (16, 17, 18), rng_seed=seed())
        progs += progen.depth_sweep(depths=(0, 17, 18, 24) if thorough else (17,), rng_seed=seed())
        progs += progen.corpus(seed() + 4, 160 if thorough else 24, nstmts=14 if thorough else 10)
        progs += memory_programs()
    inp = os.path.join(wd, "perturb_scenarios.ndjson")
    vmtrace.write_scenarios(progs, inp, {"seed": seed()})
    lines = open(inp).read()
    with open(inp, "w") as f:
        f.write(json.dumps({"table": {"ops": table["ops"], "ctl": table["ctl"], "chip": table["chip"]}, "values": 8 if thorough else 5}) + "\n" + lines)
    outp = os.path.join(wd, "perturb.out")
    run_harness("release", ["air-perturb", inp, outp], timeout=7200)
    tested = {}
    total = und = 0
    for p, line in zip(progs, open(outp)):
        res = json.loads(line)
        if res["outcome"] != "ok":
            raise ToolError("generated program did not execute: %s | %s" % (str(res)[:200], p["src"][:200]))
        if res["honest_rows_not_satisfying_air"]:
            ck.violation("honest-row", "%d honest rows do not satisfy the AIR (C03)" % res["honest_rows_not_satisfying_air"], {"kind": "perturb", "program": p})
        ck.traces += 1
        for c in res["cells"]:
            key = (c["op"], c["regime"], c["cell"])
            tested[key] = tested.get(key, 0) + c["tested"]
            total += c["tested"]
            ck.evaluations += c["tested"]
            ck.nontrivial.add("%s:%s:%s" % key)
            if c["undetected"]:
                und += c["undetected"]
                ck.violation("undetected:%s:%s:%s" % (c["op"], c["cell"].split("?")[0], c["regime"]),
                             "operation %s (%s): a wrong value in cell %s of an otherwise valid transition satisfies every transition constraint (%d of %d alterations; first: %s) | class %s" % (
                                 c["op"], c["regime"], c["cell"], c["undetected"], c["tested"], c["first"], p["class"]),
                             {"kind": "perturb", "program": p, "op": c["op"], "regime": c["regime"], "cell": c["cell"], "first": c["first"]})
    # coverage: every operation of the table in every regime
    want = {(op, rg) for op, rgs in table["ops"].items() for rg in rgs} | {(op, rg) for op, rgs in table["ctl"].items() for rg in rgs}
    want -= {("END:call", "d17"), ("END:call", "deep")}       # a call returns with depth 16
    have = {(op, rg) for (op, rg, _) in tested}
    missing = sorted(want - have)
    ck.extra.update({"alterations_evaluated": total, "undetected": und, "operation_regime_pairs_exercised": len(have),
                     "operation_regime_pairs_not_exercised": ["%s/%s" % x for x in missing][:60], "programs": len(progs)})
    hard = [x for x in missing if x[0] not in ("PIPE", "ADVPOP", "ADVPOPW", "MRUPDATE", "MPVERIFY", "HALT", "DYN", "RESPAN")]
    chipwant = {("chip:" + k, v) for k, vs in table["chip"].items() for v in vs if vs[v]}
    hard += sorted(chipwant - have)
    if hard and not replay:
        raise ToolError("operations never exercised by the corpus (the check would be vacuous for them): %s" % hard[:12])
    ck.sample({"operation": "ADD", "regime": "d16", "cells": table["ops"]["ADD"]["d16"]})
    ck.sample({"operation": "U32ADD", "regime": "deep", "cells": table["ops"]["U32ADD"]["deep"]})
    ck.assumptions = ["winterfell's Air::evaluate_transition is the constraint system; range checks of helper limbs and chiplet lookups go through buses and are C12's subject"]
    return ck.finish()
