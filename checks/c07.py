"""C07 — contexts isolate memory and stack; memory is zero-initialised word RAM.

M : MC_VM (HB = 2) — call trees mixing call / syscall / dyncall with memory operations on colliding addresses, run on
    the specification: a step changes memory only in the current context, syscalls run in context 0 with their own
    locals base, contexts of calls are fresh, depth bookkeeping b0 = 16 + |overflow|, returns restore the caller.
T : structured random programs (nested call / syscall / dyncall / dynexec / exec with locals, loads and stores incl.
    stream / pipe / loc_* over colliding addresses, kernels, deep caller stacks) are recorded row by row and validated
    against MidenVM.tla (ctx, fmp, in_syscall, fn_hash, stack, overflow addresses, and through the stack every value read
    from memory); negative scenarios (return with depth != 16, addresses >= 2^32 on either word of the two-word
    operations, ...) must fail with the documented error, which the specification predicts by running on its own.
"""
import json, os
from lib.common import *
from lib import vmtrace, progen

P_ = 2**64 - 2**32 + 1
NEG = [
    ("depth17_on_return", "proc.f push.1 end begin call.f end", []),
    ("depth17_on_return_nested", "proc.g push.1 push.2 end proc.f call.g end begin call.f end", []),
    ("dyncall_depth", "proc.f push.1 end begin procref.f dyncall end", []),
    ("mem_load_2^32", "begin push.4294967296 mem_load end", []),
    ("mem_loadw_p-1", "begin padw push.%d mem_loadw end" % (P_ - 1), []),
    ("mem_store_2^32", "begin push.5 push.4294967296 mem_store end", []),
    ("mem_storew_2^32+1", "begin push.1.2.3.4 push.4294967297 mem_storew end", []),
    ("mem_stream_second_word", "begin push.4294967295 padw padw padw mem_stream end", []),
    ("mem_stream_2^32", "begin push.4294967296 padw padw padw mem_stream end", []),
    ("adv_pipe_second_word", "begin push.4294967295 padw padw padw adv_pipe end", [1, 2, 3, 4, 5, 6, 7, 8]),
    ("rcomb_base_z_ptr_2^32", "begin push.1.2.3.4 mem_storew.50 dropw push.5.6.0.0 mem_storew.60 dropw push.9 push.60 push.4294967296 push.40 push.7.8.9.10 push.11.12.13.14.15.16.17.18 rcomb_base end", []),
    ("rcomb_base_a_ptr_p-1", "begin push.1.2.3.4 mem_storew.50 dropw push.5.6.0.0 mem_storew.60 dropw push.9 push.18446744069414584320 push.50 push.40 push.7.8.9.10 push.11.12.13.14.15.16.17.18 rcomb_base end", []),
    ("call_in_loop_depth", "proc.f push.3 end begin push.1 while.true call.f push.0 end end", []),
]
# every instruction that takes a memory address from the stack x addresses of 2^32 or more (incl. the largest field elements,
# where adding 1 wraps around the modulus)
BAD_ADDRS = [2**32, 2**32 + 1, 2**40, 2**63, P_ - 2, P_ - 1]
for _a in BAD_ADDRS:
    NEG += [
        ("mem_load_%d" % _a, "begin push.%d mem_load end" % _a, []),
        ("mem_loadw_%d" % _a, "begin padw push.%d mem_loadw end" % _a, []),
        ("mem_store_%d" % _a, "begin push.5 push.%d mem_store end" % _a, []),
        ("mem_storew_%d" % _a, "begin push.1.2.3.4 push.%d mem_storew end" % _a, []),
        ("mem_stream_%d" % _a, "begin push.%d padw padw padw mem_stream end" % _a, []),
        ("adv_pipe_%d" % _a, "begin push.%d padw padw padw adv_pipe end" % _a, [1, 2, 3, 4, 5, 6, 7, 8]),
        ("rcomb_base_z_%d" % _a, "begin push.1.2.3.4 mem_storew.50 dropw push.5.6.0.0 mem_storew.60 dropw push.9 push.60 push.%d push.40 push.7.8.9.10 push.11.12.13.14.15.16.17.18 rcomb_base end" % _a, []),
        ("rcomb_base_a_%d" % _a, "begin push.1.2.3.4 mem_storew.50 dropw push.5.6.0.0 mem_storew.60 dropw push.9 push.%d push.50 push.40 push.7.8.9.10 push.11.12.13.14.15.16.17.18 rcomb_base end" % _a, []),
    ]
POS = [
    # same address in caller, callee (call), kernel (syscall): reads see the context's own last write
    ("isolation", "proc.f push.7 mem_store.5 mem_load.5 push.9 mem_store.6 drop end begin push.3 mem_store.5 call.f mem_load.5 mem_load.6 end", None),
    ("mem_stream_top", "begin push.11.12.13.14 mem_storew.4294967294 dropw push.21.22.23.24 mem_storew.4294967295 dropw push.4294967294 padw padw padw mem_stream end", None),
    ("rcomb_base", "begin push.1.2.3.4 mem_storew.50 dropw push.5.6.0.0 mem_storew.60 dropw push.9 push.60 push.50 push.40 push.7.8.9.10 push.11.12.13.14.15.16.17.18 rcomb_base rcomb_base dropw dropw dropw dropw end", None),
    ("rcomb_base_top", "begin push.1.2.3.4 mem_storew.50 dropw push.5.6.0.0 mem_storew.60 dropw push.9 push.4294967295 push.4294967294 push.40 push.7.8.9.10 push.11.12.13.14.15.16.17.18 rcomb_base dropw dropw dropw dropw end", None),
    ("locals_frames", "proc.g.2 push.5 loc_store.0 push.6 loc_store.1 loc_load.0 loc_load.1 add mem_store.20 end proc.f.1 push.9 loc_store.0 exec.g loc_load.0 mem_store.21 end begin exec.f exec.g call.f mem_load.20 mem_load.21 end", None),
]
KPOS = ("syscall_root_memory",
        "proc.p.2 push.41 loc_store.0 syscall.k loc_load.0 mem_store.30 locaddr.1 mem_store.31 end begin push.3 mem_store.5 exec.p call.p mem_load.5 mem_load.30 mem_load.31 end",
        "export.k.1 push.8 loc_store.0 mem_load.5 push.1 add mem_store.5 padw caller dropw loc_load.0 drop end\n")


KNEG = [
    ("dyncall_in_syscall", "proc.g push.5 drop end begin procref.g syscall.f dropw end", "export.f dyncall end\n"),
    ("call_reached_by_dynexec_in_syscall", "proc.g push.5 drop end proc.h call.g end begin procref.h syscall.f dropw end", "export.f dynexec end\n"),
    ("syscall_reached_by_dynexec_in_syscall", "proc.h syscall.k2 end begin procref.h syscall.f dropw end", "export.f dynexec end\nexport.k2 push.1 drop end\n"),
]


def run(tier, replay=None):
    ck = Check("C07", tier)
    ck.rule = "a case = one recorded execution (program, kernel, inputs) incl. negative scenarios; every row is validated"
    wd = workdir("C07", clean=True)
    thorough = tier == "thorough"
    r = tlc_or_die("MC_VM.tla", cfg="MC_VM.cfg", cwd=os.path.join(SPEC, "mc"), workers=4, timeout=2400, heap="4g")
    ck.add_tlc(r)
    if r.violation:
        ck.violation("spec:MC_VM:" + str(r.violation), "context / memory invariant violated in the specification", {"tlc": r.out[-3000:]})
    if replay:
        with open(replay) as f:
            progs = [json.load(f)["replay"]["program"]]
    else:
        n = 500 if thorough else 70
        progs = progen.corpus(seed() + 7, n, classes=["calls", "mem", "calls", "mixed"], nstmts=14 if thorough else 10)
        progs += progen.depth_sweep(depths=(0, 17, 18, 24) if thorough else (0, 17), groups=["control", "memory"], rng_seed=seed())
        progs += [{"src": s, "kernel": k, "inputs": list(range(1, 25)), "class": "pos:" + nm} for nm, s, k in POS]
        progs += [{"src": KPOS[1], "kernel": KPOS[2], "inputs": [1, 2, 3], "class": "pos:" + KPOS[0]}]
        progs += vmtrace.callee_shape_programs() + vmtrace.ctx_switch_programs()
        progs += [{"src": s, "kernel": None, "inputs": [], "adv": adv, "class": "neg:" + nm} for nm, s, adv in NEG]
        # a syscall cannot create a new context, however the call / syscall is reached (execution_contexts.md)
        progs += [{"src": s, "kernel": k, "inputs": [], "adv": [], "class": "neg:" + nm} for nm, s, k in KNEG]
    stats = {}
    for prof in ("release", "checked"):
        rec = vmtrace.record(progs, wd, prof)
        rows, states, rejects, runs = vmtrace.validate(rec, wd, "c07_" + prof)
        ck.states += states
        ck.transitions += states
        ck.traces += len(runs)
        ck.extra["rows_validated_" + prof] = rows
        for p, run_ in zip(progs, runs):
            ck.note_case(p["src"] + str(p["inputs"]) + str(p.get("kernel")))
            end = json.loads(run_[-1])
            stats[end.get("outcome")] = stats.get(end.get("outcome"), 0) + 1
            if p["class"].startswith("neg:") and end.get("outcome") == "ok":
                ck.violation("neg:%s:%s" % (p["class"], prof), "execution succeeds although the reference says it fails | program: " + p["src"],
                             {"kind": "vm", "profile": prof, "program": p})
            if p["class"].startswith("pos:") and end.get("outcome") != "ok":
                ck.violation("pos:%s:%s" % (p["class"], prof), "execution fails (%s) | program: %s" % (end.get("err", end.get("msg")), p["src"]),
                             {"kind": "vm", "profile": prof, "program": p})
        for rj in rejects:
            sig, ev = vmtrace.reject_signature(rj, runs)
            p = progs[rj["run"]]
            ck.violation(sig + ":" + p["class"].split(":")[0] + ":" + prof, "event %d (row %s) is not a step of the specification: %s | program: %s" % (
                rj["event"], ev.get("t"), rj["text"][:600], p["src"].replace("\n", " ")[:300]),
                {"kind": "vm", "profile": prof, "program": p, "event": rj["event"], "detail": rj["text"]})
    ck.extra["outcomes"] = stats
    ck.sample({"program": POS[0][1], "what": "same address written in caller and callee"})
    ck.sample({"program": KPOS[1], "kernel": KPOS[2]})
    ck.sample({"negative": [n for n, _, _ in NEG]})
    return ck.finish()
