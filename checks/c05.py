"""C05 — instruction semantics match the instruction reference on every stack state.

M : MC_Felt / MC_U32 (the limb-level arithmetic of the specification is the field / the integer functions,
    exhaustively at HB = 2) and MC_Stack (depth >= 16, zero fill, LIFO of the overflow).
R : GEN_Masm behaviours: every instruction variant x boundary operand tuples x stack depths (model-checking mode),
    plus random instruction sequences (simulation mode), each with the outcome predicted by Masm.tla, replayed
    on the real assembler + VM in two build profiles.
"""
import json, os, concurrent.futures as cf
from lib.common import *
from lib.masm_render import Renderer

KIND_ANY = "any"


def expected_vs_actual(exp, res):
    """None if the implementation's outcome conforms to the specification's prediction."""
    if exp["ok"] == "ok":
        if res["outcome"] != "ok":
            return "spec: succeeds; impl: %s %s" % (res["outcome"], json.dumps(res.get("err", res.get("msg", "")))[:300])
        if res["stack"] != exp["stack"]:
            # positions below the stack read as zeros: stacks are compared up to trailing zeros beyond depth 16
            # (DESIGN.md appendix E #16: `drop` at depth 16 followed by a push leaves an explicit zero at the bottom)
            n = max(len(exp["stack"]), len(res["stack"]))
            z = [0, 0, 0, 0]
            ea = exp["stack"] + [z] * (n - len(exp["stack"]))
            ia = res["stack"] + [z] * (n - len(res["stack"]))
            for i, (a, b) in enumerate(zip(ea, ia)):
                if a != b:
                    return "final stack differs at position %d: spec %s impl %s (depth spec %d impl %d)" % (
                        i, a, b, len(exp["stack"]), len(res["stack"]))
        return None
    if exp["ok"] == "fail":
        if res["outcome"] == "ok":
            return "spec: fails with %s(code %s); impl: succeeds" % (exp["kind"], exp["code"])
        if res["outcome"] != "err":
            return "spec: fails with %s; impl: %s %s (an error is required, not a panic / assembly failure)" % (
                exp["kind"], res["outcome"], str(res.get("msg", ""))[:200])
        if exp["kind"] != KIND_ANY:
            if res["err"]["kind"] != exp["kind"]:
                return "spec: error kind %s; impl: %s" % (exp["kind"], res["err"])
            if exp["kind"] in ("FailedAssertion", "NotU32") and int(res["err"].get("code", 0)) != int(exp["code"]):
                return "spec: error code %s; impl: %s" % (exp["code"], res["err"])
        return None
    return "SKIP"


def sig_of(sc):
    i = sc["prog"][-1] if len(sc["prog"]) == 1 else None
    if i:
        return "%s.p%d.%s" % (i["op"], i.get("p", 0), i.get("form", "dec"))
    return "seq:" + ",".join(i["op"] for i in sc["prog"])[:120]


def gen_unit(level, shards, wd):
    def one(sh):
        cfgp = os.path.join(wd, "GEN_Masm_unit_%d.cfg" % sh)
        with open(cfgp, "w") as f:
            f.write('CONSTANTS MODE = "unit" LEVEL = %d SHARD = %d NSHARDS = %d SEQLEN = 40\nINIT Init\nNEXT Next\nCHECK_DEADLOCK FALSE\n' % (level, sh, shards))
        return tlc_or_die("GEN_Masm.tla", cfg=cfgp, cwd=os.path.join(SPEC, "gen"), workers=4, timeout=3000, heap="6g")
    with cf.ThreadPoolExecutor(max_workers=min(shards, 4)) as ex:
        return list(ex.map(one, range(shards)))


PREC = {"+": 1, "-": 1, "*": 2, "/": 2, "//": 2}


def render_expr(t, parent=0, right=False):
    """the tree with the fewest parentheses (usual precedence, equal precedence associates to the left)"""
    if t[0] == "n":
        return str(t[1])
    p = PREC[t[0]]
    s = render_expr(t[1], p, False) + t[0] + render_expr(t[2], p, True)
    return "(" + s + ")" if p < parent or (p == parent and right) else s


def const_part(ck, wd, thorough):
    """constant expressions (GEN_Const): push.<constant> pushes the value of the expression tree"""
    shards = 8 if thorough else 4

    def one(sh):
        cfgp = os.path.join(wd, "GEN_Const_%d.cfg" % sh)
        with open(cfgp, "w") as f:
            f.write('CONSTANTS DEPTH = 3 LEAVES = %s OPS = %s SHARD = %d NSHARDS = %d\nINIT Init\nNEXT Next\nCHECK_DEADLOCK FALSE\n' % (
                "{2, 7}", '{"+", "-", "*", "//", "/"}' if thorough else '{"+", "-", "*", "//"}', sh, shards))
        return tlc_or_die("GEN_Const.tla", cfg=cfgp, cwd=os.path.join(SPEC, "gen"), workers=2, timeout=3000, heap="4g")
    cases = []
    with cf.ThreadPoolExecutor(max_workers=4) as ex:
        for r in ex.map(one, range(shards)):
            ck.add_tlc(r)
            cases += json_prints(r, "const")
    if len(cases) < 3000:
        raise ToolError("GEN_Const produced only %d expressions" % len(cases))
    cases.sort(key=lambda c: json.dumps(c["tree"]))
    recs, meta = [], []
    for i, c in enumerate(cases):
        t = c["tree"]
        recs.append({"src": "const.X=%s\nbegin\n  push.X\nend\n" % render_expr(t), "inputs": [], "adv": []})
        meta.append((c, "direct"))
        if i % 3 == 0 and t[0] != "n":
            # the same tree with its two operands routed through earlier constants
            recs.append({"src": "const.A=%s\nconst.B=%s\nconst.X=A%sB\nbegin\n  push.X\nend\n" % (render_expr(t[1]), render_expr(t[2]), t[0]), "inputs": [], "adv": []})
            meta.append((c, "named"))
    inp = os.path.join(wd, "const_scenarios.ndjson")
    with open(inp, "w") as f:
        for r_ in recs:
            f.write(json.dumps(r_) + "\n")
    for prof in ("release", "checked"):
        outp = os.path.join(wd, "const_results_%s.ndjson" % prof)
        run_harness(prof, ["replay-masm", inp, outp])
        results = [json.loads(l) for l in open(outp)]
        if len(results) != len(recs):
            raise ToolError("replay returned %d results for %d constant programs" % (len(results), len(recs)))
        for (c, how), rec, res in zip(meta, recs, results):
            ck.traces += 1
            ck.note_case(rec["src"])
            exp = {"ok": "ok", "stack": [c["value"]] + [[0, 0, 0, 0]] * 15}
            d = expected_vs_actual(exp, res)
            if d:
                ck.violation("const:%s:%s:%s" % (prof, how, c["tree"][0]), d + " | expression " + rec["src"].split("\nbegin")[0].replace("\n", " ; "),
                             {"kind": "const", "profile": prof, "tree": c["tree"], "src": rec["src"], "impl": res})
    ck.extra["constant_expressions"] = len(cases)


def run(tier, replay=None):
    ck = Check("C05", tier)
    ck.rule = ("a case = (instruction variant incl. immediate / rendering, operand tuple from the boundary set, initial depth) "
               "or one random instruction sequence; distinct = distinct (program text, inputs)")
    wd = workdir("C05", clean=True)
    thorough = tier == "thorough"
    scs = []
    if replay:
        with open(replay) as f:
            scs = [json.load(f)["replay"]["scenario"]]
    else:
        # --- M ---------------------------------------------------------------------------------
        for mod, cfg, to in (("MC_U32.tla", "MC_U32.cfg", 900), ("MC_Stack.tla", "MC_Stack.cfg", 900)) + \
                (("MC_Felt.tla", "MC_Felt.cfg", 1800),) * (1 if thorough else 0):
            r = tlc_or_die(mod, cfg=cfg, cwd=os.path.join(SPEC, "mc"), workers=8, timeout=to)
            ck.add_tlc(r)
            if r.violation:
                ck.violation("spec:" + mod + ":" + r.violation, "specification-level invariant violated", {"tlc": r.out[-3000:]})
            ck.extra.setdefault("model_runs", []).append({"module": mod, "distinct": r.distinct})
        # --- R: generation ----------------------------------------------------------------------
        for r in gen_unit(2 if thorough else 1, 8 if thorough else 4, wd):
            ck.add_tlc(r)
            scs += json_prints(r, "masm")
        nseq = 4000 if thorough else 400
        r = tlc_or_die("GEN_Masm.tla", cfg="GEN_Masm_seq.cfg", cwd=os.path.join(SPEC, "gen"), workers=1,
                       simulate=nseq, depth=140, seed_=seed(), timeout=3000)
        ck.add_tlc(r)
        seqs = json_prints(r, "masm")
        scs += seqs
        # memory / advice instructions as short write-then-read programs (GEN_MasmIO)
        r = tlc_or_die("GEN_MasmIO.tla", cfg="GEN_MasmIO.cfg", cwd=os.path.join(SPEC, "gen"), workers=2, timeout=1800)
        ck.add_tlc(r)
        io = json_prints(r, "masm")
        if len(io) < 100:
            raise ToolError("GEN_MasmIO produced only %d scenarios" % len(io))
        scs += io
        ck.extra["io_scenarios"] = len(io)
        ck.extra["unit_scenarios"] = len(scs) - len(seqs) - len(io)
        ck.extra["sequence_scenarios"] = len(seqs)
    # --- render ------------------------------------------------------------------------------------
    inp = os.path.join(wd, "masm_scenarios.ndjson")
    rendered = []
    with open(inp, "w") as f:
        for sc in scs:
            src = Renderer().program(sc["prog"])
            rec = {"src": src, "inputs": sc["init"], "adv": sc.get("adv", [])}
            rendered.append(rec)
            f.write(json.dumps(rec) + "\n")
    ops_seen = set()
    for prof in ("release", "checked"):
        outp = os.path.join(wd, "masm_results_%s.ndjson" % prof)
        run_harness(prof, ["replay-masm", inp, outp])
        results = [json.loads(l) for l in open(outp)]
        if len(results) != len(scs):
            raise ToolError("replay returned %d results for %d scenarios" % (len(results), len(scs)))
        for sc, rec, res in zip(scs, rendered, results):
            d = expected_vs_actual(sc["expect"], res)
            if d == "SKIP":
                continue
            ck.traces += 1
            ck.note_case(rec["src"] + json.dumps(rec["inputs"]))
            for i in sc["prog"]:
                ops_seen.add(i["op"])
            if d:
                ck.violation("masm:%s:%s" % (prof, sig_of(sc)), d + " | program: " + rec["src"].replace("\n", " ")[:300],
                             {"kind": "masm", "profile": prof, "scenario": sc, "src": rec["src"], "impl": res})
    if not replay:
        const_part(ck, wd, thorough)
    ck.extra["instructions_covered"] = sorted(ops_seen)
    for sc, rec in list(zip(scs, rendered))[:: max(1, len(scs) // 5)][:5]:
        ck.sample({"src": rec["src"], "inputs_top_first": [unlimbs(x) for x in rec["inputs"]][:8], "expect": sc["expect"]["ok"],
                   "expected_top": [unlimbs(x) for x in sc["expect"].get("stack", [])[:4]]})
    ck.assumptions = ["instruction reference (docs/src/user_docs/assembly) is the specification; operand combinations it calls undefined are not generated"]
    return ck.finish()
