"""C15 — the cycle limit is enforced exactly.

M : CycleLimit.tla — safety (never passes the limit, exactness, closed form) and liveness (AlwaysStops, incl. a
    non-terminating program) under weak fairness, no state constraint; proofs/CycleLimitProof.tla: TLAPS proof that
    the safety properties hold for every program length and every limit (inductive invariant, unbounded).
R : GEN_Cycle scenarios: for every program of the corpus (cycle count n measured by an unlimited run and, for the
    non-terminating program, n = infinity) every limit m around n x every expected-cycles hint e <= m; expected:
    success iff n <= m, otherwise CycleLimitExceeded(m); option sets (max, expected): accepted iff max >= 64 and
    max >= expected, and an accepted option set reports exactly the maximum it was given.
"""
import json, os
from lib.common import *

BASE_PROGRAMS = [
    ("loop_forever", "begin push.1 while.true push.1 end end", None),
    # a procedure whose body is `dynexec`, invoked with its own hash on top of the stack: unbounded dynamic recursion
    ("dyn_forever", "proc.f dynexec end begin procref.f dynexec end", None),
    ("rep30", "begin repeat.30 push.1 drop end end", None),
    ("rep47", "begin repeat.47 push.7 drop end end", None),
    ("rep64", "begin repeat.64 push.1 add end end", None),
    ("counter", "begin push.20 dup.0 neq.0 while.true sub.1 dup.0 neq.0 end drop end", None),
    ("ifs", "begin push.1 if.true repeat.20 push.3 drop end else push.5 drop end push.0 if.true push.1 drop else repeat.25 push.2 drop end end end", None),
    ("calls", "proc.f push.1 push.2 add drop end begin repeat.9 call.f end end", None),
    ("mem", "begin repeat.12 push.1.2.3.4 mem_storew.5 dropw push.5 mem_load drop end end", None),
    ("big", "begin repeat.400 push.1 drop end end", None),
]


NINF = 2          # the first NINF programs do not terminate


def run(tier, replay=None):
    global PROGRAMS
    from lib import progen
    # generated programs of every feature class (their cycle counts are measured; limits are placed around them)
    extra = progen.corpus(seed() + 15, 80 if tier == "thorough" else 8, nstmts=12 if tier == "thorough" else 8)
    PROGRAMS = [(n, s_, k, []) for n, s_, k in BASE_PROGRAMS] + [("gen%d-%s" % (i, p["class"]), p["src"], p.get("kernel"), p["inputs"]) for i, p in enumerate(extra)]
    ck = Check("C15", tier)
    ck.rule = "a case = (program, limit m, expected-cycles hint e) or an option set (max, expected); distinct = distinct tuples"
    wd = workdir("C15", clean=True)
    r = tlc_or_die("MC_CycleLimit.tla", cfg="MC_CycleLimit.cfg", cwd=os.path.join(SPEC, "mc"), workers=4, timeout=900)
    ck.add_tlc(r)
    if r.violation:
        ck.violation("spec:MC_CycleLimit:" + str(r.violation), "specification-level property violated", {"tlc": r.out[-3000:]})
    # unbounded (TLAPS) proof that NeverPassesLimit and Exact hold for every program length and every limit
    import subprocess, shutil
    pdir = os.path.join(SPEC, "proofs")
    shutil.rmtree(os.path.join(pdir, ".tlacache"), ignore_errors=True)
    try:
        pr = subprocess.run(["timeout", "600", "tlapm", "--threads", "4", "-I", "..", "CycleLimitProof.tla"], cwd=pdir,
                            capture_output=True, text=True)
    except OSError as e:
        raise ToolError("tlapm not runnable: %s" % e)
    pout = pr.stdout + pr.stderr
    import re as _re
    m = _re.search(r"All (\d+) obligations? proved", pout)
    if pr.returncode == 124:
        raise ToolError("tlapm timed out")
    if not m:
        if "obligations failed" in pout or "obligation failed" in pout:
            ck.violation("spec:CycleLimitProof", "the inductive invariant of the cycle-limit model is no longer provable", {"tlapm": pout[-3000:]})
        else:
            raise ToolError("tlapm: " + pout[-1500:])
    else:
        ck.extra["tlaps_obligations_proved"] = int(m.group(1))
    shutil.rmtree(os.path.join(pdir, ".tlacache"), ignore_errors=True)
    # measure the cycle count of every program (unlimited run)
    meas = os.path.join(wd, "measure.ndjson")
    with open(meas, "w") as f:
        for name, src, kern, inputs in PROGRAMS[NINF:]:
            f.write(json.dumps({"src": src, "kernel": kern, "inputs": [limbs(x) for x in inputs], "adv": []}) + "\n")
    need = {}
    for prof in ("release", "checked"):
        outp = os.path.join(wd, "measure_%s.ndjson" % prof)
        run_harness(prof, ["replay-masm", meas, outp])
        for (name, src, _, _), l in zip(PROGRAMS[NINF:], open(outp)):
            res = json.loads(l)
            if res["outcome"] != "ok":
                raise ToolError("corpus program %s does not run: %s" % (name, res))
            if need.setdefault(name, res["cycles"]) != res["cycles"]:
                ck.violation("cycles-differ-between-profiles:" + name, "cycle count differs between build profiles", {"program": src})
    for name, _, _, _ in PROGRAMS[:NINF]:
        need[name] = 0
    needs = sorted(set(need.values()))
    cfgp = os.path.join(wd, "GEN_Cycle.cfg")
    with open(cfgp, "w") as f:
        f.write("CONSTANT NEEDS = {%s}\nINIT GInit\nNEXT GNext\n" % ", ".join(map(str, needs)))
    r = tlc_or_die("GEN_Cycle.tla", cfg=cfgp, cwd=os.path.join(SPEC, "gen"), timeout=900)
    ck.add_tlc(r)
    table = json_prints(r, "cycle")[0]
    by_n = {}
    for s in table["runs"]:
        by_n.setdefault(s["n"], []).append(s)
    scs, recs = [], []
    for name, src, kern, inputs in PROGRAMS:
        for s in by_n[need[name]]:
            scs.append((name, src, s))
            recs.append({"src": src, "kernel": kern, "inputs": [limbs(x) for x in inputs], "adv": [], "max_cycles": s["m"], "expected_cycles": s["e"]})
    for o in table["options"]:
        scs.append(("options", None, o))
        recs.append({"src": "begin push.1 drop end", "inputs": [], "adv": [], "max_cycles": o["max"], "expected_cycles": o["expected"]})
    # default maximum (None) must accept every expectation
    inp = os.path.join(wd, "cycle_scenarios.ndjson")
    with open(inp, "w") as f:
        for rec in recs:
            f.write(json.dumps(rec) + "\n")
    for prof in ("release", "checked"):
        outp = os.path.join(wd, "cycle_results_%s.ndjson" % prof)
        run_harness(prof, ["replay-masm", inp, outp])
        results = [json.loads(l) for l in open(outp)]
        for (name, src, s), rec, res in zip(scs, recs, results):
            ck.traces += 1
            ck.note_case([name, rec["max_cycles"], rec["expected_cycles"]])
            d = None
            if name == "options":
                acc = res["outcome"] not in ("opt_err",)
                if res["outcome"] == "opt_panic" or res["outcome"] == "panic":
                    d = "option set (max %d, expected %d): panic" % (s["max"], s["expected"])
                elif acc != s["accepted"]:
                    d = "option set (max %d, expected %d): spec accepted=%s impl outcome %s" % (s["max"], s["expected"], s["accepted"], res["outcome"])
                elif acc and res.get("opt_max") != s["max"]:
                    d = "option set (max %d, expected %d) reports max_cycles %s" % (s["max"], s["expected"], res.get("opt_max"))
            else:
                if res["outcome"] in ("panic", "opt_err", "opt_panic", "asm_err"):
                    d = "unexpected outcome %s %s" % (res["outcome"], res.get("msg"))
                elif s["expect"] == "ok":
                    if res["outcome"] != "ok":
                        d = "needs %d cycles, limit %d, hint %d: spec succeeds; impl %s" % (s["n"], s["m"], s["e"], res.get("err"))
                    elif res["cycles"] != s["n"]:
                        d = "cycle count %d differs from the unlimited run (%d)" % (res["cycles"], s["n"])
                else:
                    if res["outcome"] == "ok":
                        d = "needs %s cycles, limit %d, hint %d: spec CycleLimitExceeded; impl succeeds" % (s["n"] or "infinitely many", s["m"], s["e"])
                    elif res["err"]["kind"] != "CycleLimitExceeded":
                        d = "spec CycleLimitExceeded; impl %s" % res["err"]
                    elif res["err"].get("limit") != s["m"]:
                        d = "stopped at limit %s instead of %d" % (res["err"].get("limit"), s["m"])
            if d:
                ck.violation("cycle:%s:%s:m=%s:e=%s" % (prof, name, rec["max_cycles"], rec["expected_cycles"]), d,
                             {"kind": "cycle", "profile": prof, "scenario": rec, "expect": s, "impl": res})
    # non-terminating programs under a large limit, each in its own process (a crash of the process is an outcome here)
    for name, src, kern, inputs in PROGRAMS[:NINF]:
        for m in (100000,) + ((1000000,) if tier == "thorough" else ()):
            one = os.path.join(wd, "large_%s_%d.ndjson" % (name, m))
            with open(one, "w") as f:
                f.write(json.dumps({"src": src, "kernel": kern, "inputs": [], "adv": [], "max_cycles": m, "expected_cycles": 64}) + "\n")
            outp = one + ".out"
            if os.path.exists(outp):
                os.remove(outp)
            r_ = run_harness("release", ["replay-masm", one, outp], check=False, timeout=1800)
            ck.traces += 1
            ck.note_case([name, m, 64])
            res = None
            if r_.returncode == 0 and os.path.exists(outp):
                lines = open(outp).read().splitlines()
                res = json.loads(lines[0]) if lines else None
            if res is None:
                ck.violation("cycle:process-abort:%s" % name, "limit %d: the process died (exit %s: %s) instead of stopping with the cycle-limit error" % (
                    m, r_.returncode, (r_.stderr or "").strip().splitlines()[-1:] ), {"kind": "cycle-large", "program": src, "max_cycles": m})
            elif res["outcome"] != "err" or res["err"]["kind"] != "CycleLimitExceeded" or res["err"].get("limit") != m:
                ck.violation("cycle:large:%s:m=%d" % (name, m), "non-terminating program under limit %d: %s" % (m, str(res)[:200]), {"kind": "cycle-large", "program": src, "max_cycles": m})
    ck.extra["cycle_counts_measured"] = need
    ck.sample({"program": PROGRAMS[NINF][1], "needs": need["rep30"], "limits": sorted({s["m"] for s in by_n[need["rep30"]]})})
    ck.sample({"program": PROGRAMS[0][1], "needs": "infinite", "limits": sorted({s["m"] for s in by_n[0]})})
    ck.assumptions = ["the cycle count n of each terminating corpus program is measured by an unlimited run of the implementation "
                      "(the decoder-level specification predicts op streams, see C13); what is judged is exactness around n"]
    return ck.finish()
