"""C19 — decoders of untrusted bytes never panic and accept only what they can re-encode.

M : Wire.tla — byte-level layout of StackInputs / StackOutputs / Kernel / ProgramInfo; TLC enumerates byte strings
    (declared counts x element encodings 0, 1, p-1, p, 2^64-1 x truncation at the tail x trailing bytes) and checks on the
    model that an accepted value re-encodes to the consumed prefix and that every proper prefix of it is rejected.
    Text containers: the LibraryPath grammar (special first component, "::" delimiter, label characters, length limits);
    TLC enumerates every sequence of <= 3 (thorough: 4) syntax tokens x declared lengths (GEN_WirePath); each string is
    decoded as a LibraryPath and as the import path spliced into a serialised module.
R : every string is fed to the real decoder: no panic; an accepted value must re-serialise to bytes that decode to an
    equal value; a well-formed encoding (model: ok) must be accepted and re-encode to the same bytes; every decoded
    statement part is handed to `verify` together with a valid proof and must not make it panic.  Large formats
    (execution proofs, program / module ASTs) are covered by structured mutation of valid encodings (bit flips,
    truncations) with the monitor "error, or a value that re-encodes and decodes to an equal value; never a panic".
    Integer constructors must reject exactly the values the model calls non-canonical.
"""
import json, os, random, re, subprocess
from lib.common import *


def run_codec(prof, recs, wd, tag):
    """runs the codec harness; a dying process (allocation failure) is recorded for the offending input and the run resumes"""
    inp = os.path.join(wd, "%s.in" % tag)
    if not os.path.exists(inp):
        with open(inp, "w") as f:
            for r_ in recs:
                f.write(json.dumps(r_) + "\n")
    results = []
    deaths = 0
    binp = build_harness(prof)
    while len(results) < len(recs):
        outp = os.path.join(wd, "%s_%s_%d.out" % (tag, prof, len(results)))
        pr = subprocess.run([binp, "codec", inp, outp, str(len(results))], stdout=subprocess.DEVNULL, stderr=subprocess.DEVNULL)
        got = [json.loads(l) for l in open(outp)] if os.path.exists(outp) else []
        results += got
        if pr.returncode != 0 and len(results) < len(recs):
            deaths += 1
            if deaths > 50:
                raise ToolError("codec harness keeps dying (last at input %d)" % len(results))
            results.append({"outcome": "abort", "type": recs[len(results)]["type"]})
    return results


def mutations(rng, hexs, n):
    b = bytes.fromhex(hexs)
    out = []
    L = len(b)
    for _ in range(n):
        k = rng.randrange(4)
        m = bytearray(b)
        if k == 0:
            i = rng.randrange(L)
            m[i] ^= 1 << rng.randrange(8)
        elif k == 1:
            m = m[: rng.randrange(L)]
        elif k == 2:
            i = rng.randrange(min(L, 64))       # headers / length fields live at the front
            m[i] = rng.choice([0, 1, 2, 0x7F, 0xFF, (m[i] + 1) % 256])
        else:
            i = rng.randrange(L)
            m[i] = rng.randrange(256)
            if rng.random() < 0.3:
                m = m[: max(1, L - rng.randrange(1, 9))]
        out.append(bytes(m).hex())
    # runs of bytes that are not text (whole fields overwritten): long runs matter for length-limited text fields
    for _ in range(max(4, n // 10)):
        m = bytearray(b)
        i = rng.randrange(L)
        k = min(L - i, rng.choice([1, 2, 3, 16, 300, 5000, 22000, 30000, 65535]))
        fill = rng.choice([0xFF, 0x80, 0xC3, 0xE2, 0xF0])
        m[i:i + k] = bytes([fill]) * k
        out.append(bytes(m).hex())
    return out


def run(tier, replay=None):
    ck = Check("C19", tier)
    ck.rule = "a case = (decoder, byte string) or (integer constructor, values); distinct = distinct pairs"
    wd = workdir("C19", clean=True)
    thorough = tier == "thorough"
    recs, expect = [], []
    canon = None
    for cont in ("StackInputs", "StackOutputs", "Kernel", "ProgramInfo"):
        cfgp = os.path.join(wd, "GEN_Wire_%s.cfg" % cont)
        with open(cfgp, "w") as f:
            f.write('CONSTANTS CONTAINER = "%s" LEVEL = %d\nINIT Init\nNEXT Next\nINVARIANTS ModelReEncode ModelPrefixes\nCHECK_DEADLOCK FALSE\n' % (cont, 2 if thorough else 1))
        r = tlc_or_die("GEN_Wire.tla", cfg=cfgp, cwd=os.path.join(SPEC, "gen"), workers=8, timeout=3000, heap="6g")
        ck.add_tlc(r)
        if r.violation:
            ck.violation("spec:Wire:" + r.violation, "wire model property violated", {"tlc": r.out[-2000:]})
        for s in json_prints(r, "wire"):
            recs.append({"type": cont, "hex": bytes(s["bytes"]).hex()})
            expect.append(s)
        c = json_prints(r, "canon")
        if c:
            canon = c[0]["vals"]
    # text container: library paths (the decoder of imports / module paths inside module ASTs and library files)
    cfgp = os.path.join(wd, "GEN_WirePath.cfg")
    with open(cfgp, "w") as f:
        f.write("CONSTANTS N = %d\nINIT Init\nNEXT Next\nINVARIANT ModelReEncode\nCHECK_DEADLOCK FALSE\n" % (4 if thorough else 3))
    r = tlc_or_die("GEN_WirePath.tla", cfg=cfgp, cwd=os.path.join(SPEC, "gen"), workers=4, timeout=3000, heap="6g")
    ck.add_tlc(r)
    if r.violation:
        ck.violation("spec:Wire:" + r.violation, "wire model property violated", {"tlc": r.out[-2000:]})
    paths = json_prints(r, "wire")
    if len(paths) < 1000:
        raise ToolError("GEN_WirePath produced only %d strings" % len(paths))
    for s_ in paths:
        recs.append({"type": "LibraryPath", "hex": bytes(s_["bytes"]).hex()})
        expect.append(s_)
        recs.append({"type": "ModuleAst:import", "hex": bytes(s_["bytes"]).hex()})
        expect.append(None)
    # large formats
    cpath = os.path.join(wd, "corpus.ndjson")
    run_harness("release", ["codec-corpus", cpath], timeout=600)
    rng = random.Random(seed())
    nmut = 1500 if thorough else 250
    for l in open(cpath):
        d = json.loads(l)
        recs.append(d)
        expect.append({"ok": True, "valid_encoding": True})
        if d["type"] == "ExecutionProof":
            # the proof header (trace layout / context / options) : every byte x a set of values
            b0 = bytes.fromhex(d["hex"])
            for i in range(0, 48):
                for v in ((0, 1, 3, 7, 16, 33, 64, 255) if not thorough else range(0, 256, 3)):
                    m = bytearray(b0)
                    m[i] = v
                    recs.append({"type": d["type"], "hex": bytes(m).hex()})
                    expect.append(None)
        # Wire!PrefixesRejected carried over to the large formats: every prefix of 0 .. 64 bytes (the empty string included)
        # and the prefixes ending at every 32nd part of the encoding must decode to an error or a value, never panic
        b0 = bytes.fromhex(d["hex"])
        cuts = sorted(set(list(range(0, min(65, len(b0)))) + [len(b0) * k // 32 for k in range(1, 32)] + [max(0, len(b0) - k) for k in (1, 2, 3, 4, 8)]))
        for c in cuts:
            recs.append({"type": d["type"], "hex": b0[:c].hex()})
            expect.append(None)
        for h in mutations(rng, d["hex"], nmut if not d.get("big") else max(40, nmut // 6)):
            recs.append({"type": d["type"], "hex": h})
            expect.append(None)
    stats = {}
    for prof in ("release", "checked"):
        results = run_codec(prof, recs, wd, "codec")
        if len(results) != len(recs):
            raise ToolError("codec harness returned %d results for %d inputs" % (len(results), len(recs)))
        for rec, exp, res in zip(recs, expect, results):
            ck.traces += 1
            ck.note_case([rec["type"], rec["hex"]])
            key = rec["type"] + ":" + res["outcome"]
            stats[key] = stats.get(key, 0) + 1
            rep = {"kind": "codec", "profile": prof, "input": rec, "impl": res}
            if res["outcome"] in ("panic", "reencode_panic"):
                what = "decode-panic" if res["outcome"] == "panic" else "reencode-panic"
                slug = re.sub(r"[^a-z0-9]+", "-", str(res.get("msg")).lower())[:60].strip("-")
                ck.violation("%s:%s:%s:%s" % (what, rec["type"], slug, prof), "%s: %s | input %s" % (
                    "decoder panicked" if what == "decode-panic" else "accepted value cannot be re-serialised (panic)", res.get("msg"), rec["hex"][:80]), rep)
                continue
            if res["outcome"] == "abort":
                stats["abort"] = stats.get("abort", 0) + 1
                continue
            if res["outcome"] == "ok":
                if not res["redecode_equal"]:
                    ck.violation("reencode:%s:%s" % (rec["type"], prof), "accepted value does not re-serialise to bytes that decode to an equal value | input %s" % rec["hex"][:80], rep)
                v = res.get("verify")
                if isinstance(v, dict) and "panic" in v:
                    ck.violation("verify-panic:%s:%s" % (rec["type"], prof),
                                 "a decoded %s makes verify() panic: %s | input %s" % (rec["type"], v["panic"], rec["hex"][:80]), rep)
            # agreement with the byte-level model is recorded (a structurally well-formed string need not encode a valid
            # value, and the property lets a decoder accept or reject what the model calls malformed); encodings produced
            # by the real encoder from real values are judged in C10
            if exp is not None and "used" in exp:
                agree = (res["outcome"] == "ok") == bool(exp.get("ok"))
                stats["model_agreement:" + rec["type"] + (":same" if agree else ":differs")] = stats.get("model_agreement:" + rec["type"] + (":same" if agree else ":differs"), 0) + 1
            elif exp is not None and exp.get("valid_encoding") and res["outcome"] != "ok":
                ck.violation("rejects-valid:%s:%s" % (rec["type"], prof), "encoding produced by the encoder is rejected: %s" % res.get("msg"), rep)
    # integer constructors
    crecs, cexp = [], []
    for limbs_s, ok in canon.items():
        v = unlimbs(json.loads(limbs_s.replace("<<", "[").replace(">>", "]")))
        for ctor in ("StackInputs::try_from_values", "StackOutputs::new(stack)", "StackOutputs::new(addrs)", "AdviceInputs::with_stack_values"):
            for pos in (0, 1):
                vals = [5, 6]
                vals[pos] = v
                crecs.append({"ctor": ctor, "values": [str(x) for x in vals]})
                cexp.append(ok)
    cin = os.path.join(wd, "ctors.ndjson")
    with open(cin, "w") as f:
        for r_ in crecs:
            f.write(json.dumps(r_) + "\n")
    for prof in ("release", "checked"):
        cout = os.path.join(wd, "ctors_%s.ndjson" % prof)
        run_harness(prof, ["ctors", cin, cout])
        for rec, ok, line in zip(crecs, cexp, open(cout)):
            res = json.loads(line)
            ck.traces += 1
            ck.note_case([rec["ctor"], rec["values"]])
            if res["outcome"] == "panic":
                ck.violation("ctor-panic:%s:%s" % (rec["ctor"], prof), "constructor panicked on %s: %s" % (rec["values"], res.get("msg")), {"kind": "ctor", "input": rec})
            elif ok and res["outcome"] != "ok":
                ck.violation("ctor-rejects-canonical:%s:%s" % (rec["ctor"], prof), "canonical values %s rejected" % rec["values"], {"kind": "ctor", "input": rec})
            elif not ok and res["outcome"] == "ok":
                ck.violation("ctor-accepts-noncanonical:%s:%s" % (rec["ctor"], prof), "non-canonical value accepted: %s" % rec["values"], {"kind": "ctor", "input": rec})
    ck.extra["outcomes"] = stats
    ck.sample({"type": recs[0]["type"], "hex": recs[0]["hex"], "model_ok": expect[0]["ok"]})
    ck.sample({"type": recs[-1]["type"], "hex": recs[-1]["hex"][:120] + "...", "mutation": True})
    ck.assumptions = ["large formats (proofs, ASTs) are covered by the monitor only (structured mutation), the small containers by the byte-level model"]
    return ck.finish()
