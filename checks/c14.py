"""C14 — execution is deterministic and step-through agrees with the trace.

M : StepIter.tla cursor model (all Next/Back words up to MaxLen): cursor stays in range, reports move by one row.
R : every word of the model is replayed on the real VmStateIterator over several programs; every returned state
    for clock t must equal row t of the trace (stack top, depth, fmp, ctx) and the forward-pass state for t (deep
    stack, memory); no call may panic.
T : each program is executed under all configurations (expected-cycle hints, tracing flag, debug / non-debug
    assembly with decorators, execute / execute_iter): program hash, outputs, cycle count, padded length and a digest
    of the whole main trace must coincide; `clk` must push the clock of its row.
"""
import json, os
from lib.common import *

DECOS = """
begin
  push.5 push.7 debug.stack add emit.3 trace.2 push.11 drop
  push.1 push.0 push.1.2.3.4 adv.insert_mem adv.push_mapval dropw drop drop adv_push.4 dropw
  push.10 push.0 push.3 push.0 adv.push_u64div dropw adv_push.2 drop drop clk clk drop drop
  push.1 if.true debug.mem push.2 emit.1 drop else push.9 drop end
  repeat.3 clk debug.stack.4 drop trace.7 end
end
"""
PROGRAMS = [
    ("arith", "begin push.3 push.4 add push.5 mul dup.0 neg add clk swap drop end", [1, 2, 3], []),
    ("deep", "begin repeat.5 dup.15 end push.9 mem_store.3 push.1.2.3.4 mem_storew.7 dropw repeat.3 drop end mem_load.3 clk drop drop end",
     list(range(1, 21)), []),
    ("calls", "proc.f.2 push.5 loc_store.0 push.6 loc_store.1 loc_load.0 loc_load.1 add end proc.g exec.f push.1 mem_store.0 drop end begin call.g exec.f add clk drop drop end",
     [9, 8, 7], []),
    ("decorators", DECOS, [4, 5, 6], [0] * 4),
    ("loop", "begin push.4 dup.0 neq.0 while.true sub.1 clk drop dup.0 neq.0 end drop end", [], []),
    # memory cells written several times (the state between two writes must show the earlier one), counters and accumulators
    # kept in memory / in locals, the same address in two contexts
    ("memcell", "begin push.1 mem_store.5 push.2 mem_store.5 mem_load.5 drop push.3 mem_store.5 push.4 mem_store.5 mem_load.5 drop "
                "push.1.2.3.4 mem_storew.6 dropw push.5.6.7.8 mem_storew.6 dropw push.9 mem_store.6 padw mem_loadw.6 dropw end", [], []),
    ("memloop", "begin push.3 mem_store.9 push.1 while.true mem_load.9 sub.1 dup.0 mem_store.9 neq.0 end mem_load.9 drop end", [], []),
    ("memctx", "proc.f push.7 mem_store.5 push.8 mem_store.5 push.9 mem_store.5 mem_load.5 drop end "
               "begin push.1.2.3.4 mem_storew.5 dropw call.f push.6 mem_store.5 call.f push.5 mem_store.5 mem_load.5 drop end", [], []),
    ("memlocal", "proc.f.2 push.1 loc_store.0 repeat.3 loc_load.0 add.1 loc_store.0 end push.4.3.2.1 loc_storew.1 dropw loc_load.0 drop end "
                 "begin call.f exec.f end", [], []),
]
# advice map for adv.push_mapval (key = top word after the pushes) is not provided: use keys that exist


def configs():
    out = []
    for e in (64, 128, 1024, 16384):
        for tracing in (False, True):
            for debug in (False, True):
                out.append({"expected_cycles": e, "tracing": tracing, "debug": debug, "via": "execute", "rows": e == 64 and not tracing and not debug})
    for debug in (False, True):
        out.append({"expected_cycles": 64, "tracing": False, "debug": debug, "via": "iter"})
    return out


def cmp_state_row(st, rows):
    """(kind, description) of the first difference between a reported state and row clk of the trace, or None.
    kind 'lag' / 'init' identify the two faces of the recorded finding KF-C14-overflow (see known_findings.json)."""
    t = st["clk"]
    if t >= len(rows):
        return ("range", "reported clock %d beyond the trace" % t)
    row = rows[t]
    if st["clk"] != row["clk"]:
        return ("clk", "clk %s vs row clk %s" % (st["clk"], row["clk"]))
    if st["fmp"] != row["fmp"]:
        return ("fmp", "fmp %s vs row %s" % (st["fmp"], row["fmp"]))
    if st["ctx"] != row["ctx"]:
        return ("ctx", "ctx %s vs row %s" % (st["ctx"], row["ctx"]))
    if st["stack"][:16] != row["top"]:
        return ("top", "stack top differs from the trace row")
    n = len(st["stack"])
    if n != row["depth"]:
        d = "stack depth %d vs b0 %d at clock %d" % (n, row["depth"], t)
        if t + 1 < len(rows) and n == rows[t + 1]["depth"]:
            return ("lag", d + " (the overflow part is that of row %d)" % (t + 1))
        if n == 16 and all(r["depth"] == rows[0]["depth"] for r in rows[: t + 2]):
            return ("init", d + " (initial overflow rows are not reported before the first overflow update)")
        return ("depth", d)
    return None


def mem_at(memrows, ctx, t):
    """memory of context ctx as the trace holds it at row t: for every address the word of the last memory-chiplet row with
    a clock below t (rows: [ctx, addr, clk, read?, word])"""
    m = {}
    for r in sorted((r for r in memrows if r[0] == ctx and r[2] < t), key=lambda r: r[2]):
        m[unlimbs(r[1])] = r[4]
    return m


def cmp_state_mem(st, memrows):
    want = mem_at(memrows, st["ctx"], st["clk"])
    got = {a: w for a, w in st["mem"]}
    if got != want:
        bad = sorted(a for a in set(got) | set(want) if got.get(a) != want.get(a))
        return ("mem", "memory reported for clock %d differs from the memory chiplet rows of the trace at address(es) %s: %s vs %s" % (
            st["clk"], bad[:3], [got.get(a) and [unlimbs(x) for x in got[a]] for a in bad[:3]], [want.get(a) and [unlimbs(x) for x in want[a]] for a in bad[:3]]))
    return None


def run(tier, replay=None):
    ck = Check("C14", tier)
    ck.rule = "a case = (program, configuration) for determinism, or (program, Next/Back word) for the iterator; distinct = distinct pairs"
    wd = workdir("C14", clean=True)
    thorough = tier == "thorough"
    maxlen = 10 if thorough else 7
    cfgp = os.path.join(wd, "GEN_Iter.cfg")
    with open(cfgp, "w") as f:
        f.write("CONSTANTS T = 4  MaxLen = %d\nINIT Init\nNEXT Next\nINVARIANTS InRange ReportedInRange Adjacent Emit\nCHECK_DEADLOCK FALSE\n" % maxlen)
    r = tlc_or_die("GEN_Iter.tla", cfg=cfgp, cwd=os.path.join(SPEC, "gen"), workers=4, timeout=1500)
    ck.add_tlc(r)
    if r.violation:
        ck.violation("spec:StepIter:" + str(r.violation), "cursor model invariant violated", {"tlc": r.out[-3000:]})
    words = json_prints(r, "iter")
    # ---- determinism ------------------------------------------------------------------------------
    cfgs = configs()
    dinp = os.path.join(wd, "det.ndjson")
    with open(dinp, "w") as f:
        for name, src, inputs, adv in PROGRAMS:
            f.write(json.dumps({"src": src, "inputs": [limbs(x) for x in inputs], "adv": [limbs(x) for x in adv], "configs": cfgs}) + "\n")
    ref_rows, fwd_states, ref_mem, nmem = {}, {}, {}, [0]
    for prof in ("release", "checked"):
        outp = os.path.join(wd, "det_%s.ndjson" % prof)
        run_harness(prof, ["determinism", dinp, outp])
        for (name, src, inputs, adv), line in zip(PROGRAMS, open(outp)):
            results = json.loads(line)["results"]
            ref = results[0]
            if ref["outcome"] != "ok":
                raise ToolError("corpus program %s does not run in the reference configuration: %s" % (name, str(ref)[:300]))
            for cfg, res in zip(cfgs, results):
                ck.traces += 1
                ck.note_case([name, cfg["expected_cycles"], cfg["tracing"], cfg["debug"], cfg["via"]])
                sig = "det:%s:%s:e=%d:tracing=%s:debug=%s:%s" % (prof, name, cfg["expected_cycles"], cfg["tracing"], cfg["debug"], cfg["via"])
                rep = {"kind": "det", "profile": prof, "program": src, "inputs": inputs, "config": cfg}
                if res["outcome"] != "ok":
                    ck.violation(sig, "configuration does not run: %s %s (reference configuration succeeds)" % (res["outcome"], res.get("err", res.get("msg"))), rep)
                    continue
                if res["hash"] != ref["hash"]:
                    ck.violation(sig, "program hash depends on the configuration", rep)
                if cfg["via"] == "execute":
                    for fld in ("digest", "cycles", "trace_len", "out_stack", "out_addrs"):
                        if res[fld] != ref[fld]:
                            ck.violation(sig, "%s differs from the reference configuration (%s vs %s)" % (fld, str(res[fld])[:80], str(ref[fld])[:80]), rep)
                            break
                    if cfg["rows"]:
                        ref_rows[(prof, name)] = res["rows"]
                        ref_mem[(prof, name)] = res["memrows"]
                else:
                    rows = ref_rows[(prof, name)]
                    sts = res["states"]
                    if len(sts) != len(rows):
                        ck.violation(sig, "iterator yields %d states for a trace of %d rows" % (len(sts), len(rows)), rep)
                    seen_kinds = set()
                    for st in sts:
                        nmem[0] += 1
                        # (the memory comparison is independent of the stack comparison: the recorded overflow finding must not mask it)
                        for d in (cmp_state_row(st, rows), cmp_state_mem(st, ref_mem[(prof, name)])):
                            if d and d[0] not in seen_kinds:
                                seen_kinds.add(d[0])
                                ck.violation("iterstate:%s:%s:%s" % (d[0], prof, name), "forward pass, state at clk %d: %s" % (st["clk"], d[1]), rep)
                        if st["op"] == "CLK" and unlimbs(st["stack"][0]) != st["clk"] - 1:
                            ck.violation(sig, "clk pushed %d at clock %d" % (unlimbs(st["stack"][0]), st["clk"] - 1), rep)
                            break
                    key = (prof, name)
                    stripped = [{k: v for k, v in s.items() if k != "asmop"} for s in sts]
                    if key in fwd_states and fwd_states[key] != stripped:
                        ck.violation(sig, "iterator states differ between debug and non-debug assembly", rep)
                    fwd_states.setdefault(key, stripped)
    ck.extra["iterator_states_compared_with_trace_memory"] = nmem[0]
    if not replay and nmem[0] == 0:
        raise ToolError("no iterator state was compared with the memory rows of the trace")
    # ---- iterator walks ---------------------------------------------------------------------------
    winp = os.path.join(wd, "walks.ndjson")
    wl = ["".join(w["word"]) for w in words]
    # the same cursor model started further into the execution: the words of the model after a run of Next calls that ends
    # just behind a memory / context-changing operation, so that Back steps cross it
    MEMOPS = ("MLOAD", "MLOADW", "MSTORE", "MSTOREW", "MSTREAM", "PIPE", "CALL", "SYSCALL", "END", "FMPUPDATE")
    tails = sorted({x for x in wl if x.startswith("B") and len(x) <= 4} | {"B", "BB", "BBB", "BNB", "BBNN"})
    deep_words = {}
    for name, src, inputs, adv in PROGRAMS[:3]:
        ops_at = [st_.get("op") for st_ in fwd_states.get(("release", name), [])]
        offs = [t for t, o in enumerate(ops_at) if o in MEMOPS][:10]
        deep_words[name] = ["N" * (t + k) + tl for t in offs for k in (1, 2) for tl in tails]
    with open(winp, "w") as f:
        for name, src, inputs, adv in PROGRAMS[:3]:
            f.write(json.dumps({"src": src, "inputs": [limbs(x) for x in inputs], "adv": [limbs(x) for x in adv], "walks": wl + deep_words[name]}) + "\n")
    agree = total = 0
    for prof in ("release", "checked"):
        outp = os.path.join(wd, "walks_%s.ndjson" % prof)
        run_harness(prof, ["iter-walk", winp, outp])
        for (name, src, inputs, adv), line in zip(PROGRAMS[:3], open(outp)):
            res = json.loads(line)
            rows = ref_rows[(prof, name)]
            fwd = fwd_states[(prof, name)]
            allw = list(words) + [{"word": list(x), "rows": None} for x in deep_words[name]]
            if len(res["walks"]) != len(allw):
                raise ToolError("iter-walk returned %d walks for %d words" % (len(res["walks"]), len(allw)))
            for w, wr in zip(allw, res["walks"]):
                ck.traces += 1
                word = "".join(w["word"])
                ck.note_case([name, word])
                sig = "iter:%s:%s:%s" % (prof, name, word)
                rep = {"kind": "iter", "profile": prof, "program": src, "inputs": inputs, "word": word}
                if "panic" in wr:
                    ck.violation("iter:%s:%s" % (prof, word), "iterator panicked on word %s: %s" % (word, wr["panic"]), rep)
                    continue
                got = []
                lagseen = False
                for it in wr["items"]:
                    if it["r"] != "state":
                        got.append(-1)
                        continue
                    st = it["s"]
                    got.append(st["clk"])
                    d = cmp_state_row(st, rows)
                    if not d or d[0] in ("lag", "init"):
                        f_ = fwd[st["clk"]]
                        d2 = None
                        if st["stack"] != f_["stack"]:
                            d2 = ("deep", "deep stack differs from the forward pass")
                        elif st["mem"] != f_["mem"]:
                            d2 = ("mem", "memory differs from the forward pass")
                        d = d2 or d
                    if d and d[0] in ("lag", "init"):
                        # the recorded overflow finding is reported once per walk and does not end the comparison
                        if not lagseen:
                            ck.violation("iterstate:%s:%s:%s:%s" % (d[0], prof, name, word), "word %s, state reported for clock %d: %s" % (word, st["clk"], d[1]), rep)
                        lagseen = True
                    elif d:
                        ck.violation("iterstate:%s:%s:%s:%s" % (d[0], prof, name, word), "word %s, state reported for clock %d: %s" % (word, st["clk"], d[1]), rep)
                        break
                if w["rows"] is not None:
                    total += 1
                    agree += got == w["rows"]
    ck.extra["cursor_discipline_agreement"] = {"words": total, "same_rows_as_model": agree,
                                               "note": "recorded only; the property does not fix which clock a call reports"}
    ck.extra["configurations"] = len(cfgs)
    ck.sample({"program": PROGRAMS[0][1], "configs": cfgs[:3]})
    ck.sample({"program": PROGRAMS[1][1], "words": wl[:6]})
    return ck.finish()
