"""C17 — standard-library hash functions agree with their reference definitions.

M : MC_Hashes — the TLA+ transcription of SHA-256 (FIPS 180-4), BLAKE3 (single block) and Keccak-256 / SHA3-256
    (FIPS 202) in Hashes.tla reproduces the published digests (empty message, "abc", messages around the padding
    boundaries, multi-block messages); the constants of Keccak are computed from their definitions inside the spec.
R : GEN_Hash — word / byte patterns (constant, counting, alternating, one-hot at word and byte boundaries,
    pseudo-random) x every exported hash procedure (sha256::hash_2to1 / hash_1to1 / hash_memory, blake3::hash_2to1 /
    hash_1to1, keccak256::hash / to_bit_interleaved / from_bit_interleaved, native::hash_memory / hash_memory_even /
    state_to_digest) with the digest the
    specification prescribes; each is run on the real VM (both build profiles, sentinels underneath) and compared.
    The native RPO helper is compared with the specification's sponge recipe evaluated with the permutation the
    VM's hasher uses, and with hash_elements.
X : the specification's digests are also compared with the sha2 / sha3 / blake3 crates: a disagreement there is a
    transcription error of the model (tool error), never reported as a finding.
"""
import json, os, concurrent.futures as cf
from lib.common import *
from checks.c05 import expected_vs_actual

SENTINELS = [limbs(x) for x in (0xDEADBEEF, 0x1234567890ABCDEF % P, 7, P - 1, 1 << 32)]
MEM = 10000


def w2l(w):
    return [w[0], w[1], 0, 0]


def w2i(w):
    return w[0] + (w[1] << 16)


def build(c):
    """(masm source, stack inputs top-first, expected top of the stack or None for recipe cases)"""
    m, p, x = c["mod"], c["proc"], c["x"]
    path = "std::crypto::hashes::" + m
    pre = ""
    if m == "seq":
        body, out = "", []
        for cl in x["calls"]:
            body += "  push.%s\n  exec.%s::%s\n" % (".".join(str(w2i(w)) for w in reversed(cl["inw"])), cl["mod"], cl["proc"])
            out = [w2l(w) for w in cl["out"]] + out
        src = "use.std::crypto::hashes::sha256\nuse.std::crypto::hashes::blake3\nuse.std::crypto::hashes::keccak256\nbegin\n%send\n" % body
        return src, [], out
    if m == "sha256" and p == "hash_memory":
        ws = [w2i(w) for w in x["mem"]]
        ws += [0] * ((-len(ws)) % 4)
        base = c["pat"][3] if len(c["pat"]) > 3 else MEM
        for k in range(0, len(ws), 4):
            pre += "  push.%d.%d.%d.%d push.%d mem_storew dropw\n" % (ws[k + 3], ws[k + 2], ws[k + 1], ws[k], base + k // 4)
        ins = [limbs(base), limbs(x["len"])]
        out = [w2l(w) for w in x["out"]]
    elif m == "native" and p == "state_to_digest":
        # [C, B, A, ...]: the state in reverse order, its last element on top
        ins = list(reversed(x["state"]))
        out = list(reversed(x["digest"]))
    elif m == "native":
        es = [unlimbs(e) for e in x["elems"]]
        base = c["pat"][3] if len(c["pat"]) > 3 else MEM
        for k in range(0, len(es), 4):
            pre += "  push.%d.%d.%d.%d push.%d mem_storew dropw\n" % (es[k], es[k + 1], es[k + 2], es[k + 3], base + k // 4)
        ins = [limbs(base), limbs(base + len(es) // 4)]
        if p == "hash_memory_even":
            ins = list(reversed(x["state"])) + ins
        out = None
    else:
        ins = [w2l(w) for w in x["inw"]]
        out = [w2l(w) for w in x["out"]]
    src = "use.%s\nbegin\n%s  exec.%s::%s\nend\n" % (path, pre, m, p)
    return src, ins, out


def run(tier, replay=None):
    ck = Check("C17", tier)
    ck.rule = "a case = (procedure, input pattern); distinct = distinct (procedure, input words)"
    wd = workdir("C17", clean=True)
    thorough = tier == "thorough"
    cases = []
    if replay:
        with open(replay) as f:
            cases = [json.load(f)["replay"]["case"]]
    else:
        r = tlc_or_die("MC_Hashes.tla", cfg="MC_Hashes.cfg", cwd=os.path.join(SPEC, "mc"), workers=1, timeout=1800)
        ck.add_tlc(r)
        if not r.ok:
            raise ToolError("MC_Hashes: the transcription no longer reproduces the published digests: " + str(r.error or r.violation))
        shards = 12 if thorough else 6

        def one(sh):
            cfgp = os.path.join(wd, "GEN_Hash_%d.cfg" % sh)
            with open(cfgp, "w") as f:
                f.write("CONSTANTS LEVEL = %d SHARD = %d NSHARDS = %d\nINIT Init\nNEXT Next\nCHECK_DEADLOCK FALSE\n" % (2 if thorough else 1, sh, shards))
            return tlc_or_die("GEN_Hash.tla", cfg=cfgp, cwd=os.path.join(SPEC, "gen"), workers=1, timeout=3000, heap="3g")
        with cf.ThreadPoolExecutor(max_workers=6) as ex:
            for r in ex.map(one, range(shards)):
                ck.add_tlc(r)
                cases += json_prints(r, "hash")
        cases.sort(key=lambda c: json.dumps([c["mod"], c["proc"], c["pat"]]))
    if not cases:
        raise ToolError("no cases generated")
    # cross-check of the model against reference implementations + evaluation of the RPO recipe
    cin = os.path.join(wd, "hash_cases.ndjson")
    with open(cin, "w") as f:
        for c in cases:
            f.write(json.dumps(c) + "\n")
    refp = os.path.join(wd, "hash_ref.ndjson")
    run_harness("release", ["hash-ref", cin, refp])
    refs = [json.loads(l) for l in open(refp)]
    if len(refs) != len(cases):
        raise ToolError("hash-ref returned %d results for %d cases" % (len(refs), len(cases)))
    for c, rf in zip(cases, refs):
        if "ref" in rf and rf["ref"] != c["x"]["out"]:
            raise ToolError("Hashes.tla disagrees with the reference crate on %s::%s %s: spec %s ref %s" % (c["mod"], c["proc"], c["pat"], c["x"]["out"], rf["ref"]))
    inp = os.path.join(wd, "hash_scenarios.ndjson")
    recs, exps = [], []
    with open(inp, "w") as f:
        for c, rf in zip(cases, refs):
            src, ins, out = build(c)
            if out is None and c["proc"] == "hash_memory_even":
                # [C', B', A', end_addr, end_addr, ...]
                end = limbs((c["pat"][3] if len(c["pat"]) > 3 else MEM) + len(c["x"]["elems"]) // 4)
                out = list(reversed(rf["state"])) + [end, end]
            elif out is None:
                # digest word on the stack: element 3 on top (the hperm convention: [C, B, A] with the last state element on top)
                out = list(reversed(rf["recipe"]))
            rec = {"src": src, "stdlib": True, "inputs": ins + SENTINELS, "adv": []}
            recs.append(rec)
            exps.append(out)
            f.write(json.dumps(rec) + "\n")
    procs = set()
    for prof in ("release", "checked"):
        outp = os.path.join(wd, "hash_results_%s.ndjson" % prof)
        run_harness(prof, ["replay-masm", inp, outp])
        results = [json.loads(l) for l in open(outp)]
        if len(results) != len(cases):
            raise ToolError("replay returned %d results for %d cases" % (len(results), len(cases)))
        for c, rf, rec, out, res in zip(cases, refs, recs, exps, results):
            ck.traces += 1
            ck.note_case([c["mod"], c["proc"], c["pat"]])
            procs.add(c["mod"] + "::" + c["proc"] if c["mod"] != "seq" else "two calls in one context")
            st = out + SENTINELS
            exp = {"ok": "ok", "stack": st + [[0, 0, 0, 0]] * max(0, 16 - len(st))}
            d = expected_vs_actual(exp, res)
            if not d and "hash_elements" in rf and rf["recipe"] != rf["hash_elements"]:
                d = "hash_elements of the VM's hasher differs from the sponge definition: recipe %s hash_elements %s" % (rf["recipe"], rf["hash_elements"])
            if d:
                ck.violation("hash:%s:%s::%s" % (prof, c["mod"], c["proc"]), d + " | pattern " + json.dumps(c["pat"]),
                             {"kind": "hash", "profile": prof, "case": c, "src": rec["src"], "impl": res})
    ck.extra["procedures_covered"] = sorted(procs)
    for c in cases[:: max(1, len(cases) // 5)][:5]:
        ck.sample({"proc": c["mod"] + "::" + c["proc"], "pattern": c["pat"],
                   "digest_words": [w2i(w) for w in c["x"].get("out", [])]})
    ck.assumptions = [
        "word / byte conventions are those of the procedures' doc comments (sha256: big-endian 32-bit words; blake3: little-endian "
        "words; keccak256: (high, low) halves of little-endian 64-bit lanes); sha256::hash_memory reads the message as big-endian words, "
        "four per memory word with the first of them in element 3 (the layout its doc comment leaves implicit)",
        "native::hash_memory is judged against the sponge definition evaluated with the VM hasher's permutation; the RPO round "
        "function itself is a primitive (DESIGN.md §5)"]
    return ck.finish()
