"""C10 — serialised code and data round-trip and recompile to the same program.

M/R: GEN_Ast.tla enumerates abstract syntax trees: kind (program / library module) x a window into the table of
     instruction forms (every instruction with every immediate form, lib/masm_table.py) x nesting shape, and every
     combination of boundary values of the length-prefixed fields of the encoding (doc comments 0 / 1 / 65000,
     procedure names 1 / 40 / 255, import paths 10 / 255 / 256 / 700 / 1023, locals 0 / 1 / 3 / 65535, repeat counts,
     number of procedures, re-exports), and bodies whose number of direct child nodes is 1 / 127 / 128 / 255 / 256 / 32767 /
     32768 / 40000 / 65535 as main body, procedure body and body of a nested block.  Each is rendered to Miden assembly and put through the real code:
     parse -> to_bytes -> from_bytes must give an equal AST that re-encodes to the same bytes (with imports and without),
     source locations written separately and reloaded must restore equality, compiling the round-tripped AST must give
     the same MAST root, kernel and execution outcome as compiling the original, the library file holding the imported
     module must round-trip (with and without source locations); the data containers (stack inputs / outputs, kernels,
     program info) are round-tripped over boundary values, execution proofs in C01.
     Coverage of the AST node variants is measured against the Instruction enum of the tree under test.
"""
import json, os, random, re
from lib.common import *
from lib import ast_render, masm_table


def render_big(c):
    """a body of c["count"] direct child nodes (plain instructions) in the place c["place"]"""
    nodes = " ".join(["neg"] * c["count"])
    wrapped = {"main": nodes, "proc": "exec.f", "repeat": "repeat.2 %s end" % nodes, "if": "push.1 if.true %s end" % nodes,
               "else": "push.0 if.true neg else %s end" % nodes, "while": "push.1 while.true %s push.0 end" % (" ".join(["neg"] * (c["count"] - 1)))}[c["place"]]
    pre = "proc.f %s end\n" % nodes if c["place"] == "proc" else ""
    if c["kind"] == "program":
        src = pre + "begin %s end\n" % wrapped
    else:
        src = pre + "export.g %s end\n" % wrapped
    return {"kind": c["kind"], "src": src, "lib": None, "kernel": None}


def run(tier, replay=None):
    ck = Check("C10", tier, level="exploration")
    ck.rule = "a case = one abstract AST (scenario of GEN_Ast) or one data value; distinct = distinct scenarios"
    wd = workdir("C10", clean=True)
    thorough = tier == "thorough"
    cfg = os.path.join(wd, "GEN_Ast.cfg")
    with open(cfg, "w") as f:
        f.write("CONSTANTS NInstr = %d Window = 8\nINIT Init\nNEXT Next\nINVARIANT Emit\nCHECK_DEADLOCK FALSE\n" % len(masm_table.ALL))
    r = tlc_or_die("GEN_Ast.tla", cfg=cfg, cwd=os.path.join(SPEC, "gen"), workers=4, timeout=1200)
    ck.add_tlc(r)
    scs = json_prints(r, "ast")
    if not scs:
        raise ToolError("GEN_Ast produced no scenarios")
    if replay:
        with open(replay) as f:
            scs = [json.load(f)["replay"]["scenario"]]
    elif not thorough:
        # slice A (instruction windows x shapes) entirely for programs, sampled for modules; slice B sampled so that every
        # value of every field dimension occurs with every kind
        rng = random.Random(seed())
        a = [s for s in scs if s["docs"] == 1 and s["proc_docs"] == 1 and s["name_len"] == 40 and s["path_len"] == 10 and s["locals"] == 3 and s["nprocs"] == 3]
        b = [s for s in scs if s not in a]
        keep = [s for s in a if s["kind"] == "program" and s["body"] and (s["shape"] + s["window"]) % 2 == 0]
        keep += rng.sample([s for s in a if s not in keep], 150)
        need = {}
        for s in b:
            for dim in ("docs", "proc_docs", "name_len", "path_len", "locals", "nprocs", "reexport"):
                need.setdefault((s["kind"], dim, s[dim]), []).append(s)
        for k, lst in sorted(need.items(), key=lambda kv: str(kv[0])):
            keep += rng.sample(lst, min(6, len(lst)))
        keep += rng.sample(b, 200)
        scs = keep
    # (C) bodies with a number of direct child nodes at the boundaries of the node-count encodings
    if not replay:
        big = [c for b in json_prints(r, "astbig") for c in b["cases"]]
        if not thorough:
            big = [c for c in big if c["count"] in (1, 255, 256, 32767, 32768, 65535) and (c["kind"] == "program" or c["place"] in ("main", "proc", "repeat"))]
        if len(big) < 50:
            raise ToolError("GEN_Ast printed only %d large-body cases" % len(big))
        for c in big:
            scs.append(dict(c, big=True, docs=0, proc_docs=0, name_len=1, path_len=0, locals=0))
    inp = os.path.join(wd, "ast_scenarios.ndjson")
    with open(inp, "w") as f:
        for s in scs:
            f.write(json.dumps(render_big(s) if s.get("big") else ast_render.render(s)) + "\n")
    stats = {}
    for prof in ("release", "checked"):
        outp = os.path.join(wd, "ast_%s.out" % prof)
        run_harness(prof, ["ast-roundtrip", inp, outp], timeout=7200)
        for s, line in zip(scs, open(outp)):
            res = json.loads(line)
            ck.note_case(s)
            ck.traces += 1
            tagk = "%s:docs=%d/%d:name=%d:path=%d:locals=%d" % (s["kind"], s["docs"], s["proc_docs"], s["name_len"], s["path_len"], s["locals"])
            rep = {"kind": "ast", "scenario": s, "profile": prof}
            stats[res["outcome"]] = stats.get(res["outcome"], 0) + 1
            if res["outcome"] in ("parse_panic", "lib_panic"):
                ck.violation("panic:%s:%s" % (res["outcome"], prof), "%s: %s | %s" % (res["outcome"], res.get("msg"), tagk), rep)
                continue
            if res["outcome"] != "ok":
                continue        # the parser / library constructor refuses the source (e.g. a doc comment over the limit): nothing to round-trip
            for key in ("lib_rt", "lib_rt_loc", "rt", "rt_noimports"):
                v = res.get(key)
                if v is None:
                    continue
                if v["o"] != "ok" or not v.get("eq"):
                    ck.violation("%s:%s:%s:path=%d:docs=%s:%s" % (key, v["o"], s["kind"], s["path_len"], s["docs"] >= 65000 or s["proc_docs"] >= 65000, prof),
                                 "%s round trip: %s %s | %s" % (key, v["o"], v.get("msg", "not equal"), tagk), rep)
                    continue
                if key == "rt" and "compile_orig" in v:
                    a, b = v["compile_orig"], v["compile_rt"]
                    stats["compile:" + a["o"]] = stats.get("compile:" + a["o"], 0) + 1
                    if a["o"] == "panic" or b["o"] == "panic":
                        ck.violation("compile-panic:%s" % prof, "compiling panicked: %s | %s" % (a.get("msg") or b.get("msg"), tagk), rep)
                    elif a != b:
                        ck.violation("recompile:%s:%s" % (s["kind"], prof), "compiling the round-tripped AST differs from compiling the original: %s vs %s | %s" % (
                            str(a)[:200], str(b)[:200], tagk), rep)
    # coverage of the Instruction enum
    text = open("/repo/assembly/src/ast/nodes/mod.rs").read()
    m = re.search(r"pub enum Instruction \{(.*?)\n\}", text, re.S)
    variants = set(re.findall(r"^\s{4}([A-Z][A-Za-z0-9]*)", m.group(1), re.M)) if m else set()
    ck.extra.update({"scenarios": len(scs), "outcomes": stats, "instruction_forms": len(masm_table.ALL), "instruction_enum_variants": len(variants)})
    # data containers
    P_ = 2**64 - 2**32 + 1
    vals = [0, 1, 2**32 - 1, 2**32, P_ - 1]
    drecs = []
    for n in (0, 1, 15, 16, 17, 40):
        for v in vals:
            drecs.append({"type": "StackInputs", "values": [str((v + i) % P_) for i in range(n)]})
            drecs.append({"type": "StackOutputs", "values": [str((v + i) % P_) for i in range(max(n, 16))]})
    for n in (0, 1, 2, 255):
        drecs.append({"type": "Kernel", "values": [str(1000 + i) for i in range(4 * n)]})
    din = os.path.join(wd, "data.ndjson")
    with open(din, "w") as f:
        for d in drecs:
            f.write(json.dumps(d) + "\n")
    dout = os.path.join(wd, "data.out")
    run_harness("release", ["data-roundtrip", din, dout])
    for d, line in zip(drecs, open(dout)):
        res = json.loads(line)
        ck.note_case(d)
        ck.traces += 1
        if res["o"] == "panic":
            ck.violation("data-panic:%s" % d["type"], "round trip of %s panicked: %s" % (d["type"], res.get("msg")), {"kind": "data", "input": d})
        elif res["o"] == "ok" and not res["eq"]:
            ck.violation("data:%s" % d["type"], "%s does not round-trip (n = %d)" % (d["type"], len(d["values"])), {"kind": "data", "input": d})
    ck.sample({"scenario": {k: v for k, v in scs[0].items() if k != "body"}, "source": ast_render.render(scs[0])["src"][:300]})
    ck.sample({"scenario": {k: v for k, v in scs[-1].items() if k != "body"}})
    ck.assumptions = ["the oracle is identity (decode . encode = id, compile . decode . encode = compile); the specification contributes the enumeration of the space and its coverage accounting",
                      "sources the parser itself refuses (e.g. doc comments over its limit) are not round-tripped"]
    return ck.finish()
