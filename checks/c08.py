"""C08 — the program commitment is the specified MAST hash of the executable code.

M : SpanBatch.tla batching rules model-checked over every push/non-push pattern (reduced and real constants).
R : GEN_Span behaviours (exhaustive patterns + random operation sequences) replayed on the real Span::new;
    groups, op counts, group numbers and the span hash (HashElems of the spec's groups) compared.
T : MAST hash recipes of assembled programs (see mast part, added by checks/c08 mast section).
"""
import json, os
from lib.common import *


def compare_span(sc, res):
    """returns None or a description of the first difference."""
    if res["outcome"] != "ok":
        return "implementation panicked: " + res.get("msg", "")
    imp = res["impl"]
    eb, ib = sc["batches"], imp["batches"]
    if len(eb) != len(ib):
        return "number of batches: spec %d impl %d" % (len(eb), len(ib))
    for k, (e, i) in enumerate(zip(eb, ib)):
        for fld in ("groups", "counts", "ng", "ops"):
            if e[fld] != i[fld]:
                return "batch %d field %s: spec %s impl %s" % (k, fld, e[fld], i[fld])
    if sc["gc"] != imp["gc"]:
        return "group count: spec %d impl %d" % (sc["gc"], imp["gc"])
    if imp["hash"] != res["recipe_hash"]:
        return "span hash is not HashElems(groups of all batches)"
    if imp["block_hash"] != imp["hash"]:
        return "CodeBlock::hash differs from Span::hash"
    return None


def pattern(sc):
    return "".join("p" if o["imm"] else "n" for o in sc["ops"])


def run(tier, replay=None):
    ck = Check("C08", tier)
    ck.rule = ("a case = one operation sequence; exhaustive: every push/non-push pattern up to length N "
               "(opcodes and immediates vary with position); random: TLC -simulate sequences up to length 300 over "
               "all span operations; distinct = distinct (opcode, immediate) sequences")
    wd = workdir("C08", clean=True)
    if replay:
        with open(replay) as f:
            rp = json.load(f)["replay"]
        scs = [rp["scenario"]]
    else:
        scs = None
    thorough = tier == "thorough"
    # --- M: batching rules -----------------------------------------------------------------------
    if scs is None:
        for cfg, n in (("MC_SpanBatch_small.cfg", None), ("MC_SpanBatch_real.cfg", None)):
            r = tlc_or_die("MC_SpanBatch.tla", cfg=cfg, cwd=os.path.join(SPEC, "mc"), workers=8 if thorough else 4, timeout=1500)
            ck.add_tlc(r)
            if r.violation:
                ck.violation("spec:" + cfg + ":" + r.violation, "batching rule violated in the specification itself", {"tlc": r.out[-3000:]})
            ck.extra.setdefault("model_runs", []).append({"cfg": cfg, "distinct": r.distinct, "depth": r.depth})
        # --- opcode table ------------------------------------------------------------------------
        r = tlc_or_die("GEN_Opcodes.tla", cfg="GEN_Opcodes.cfg", cwd=os.path.join(SPEC, "gen"))
        spec_ops = {d["name"]: d for d in json_prints(r)[0]["ops"]}
        hp = os.path.join(wd, "opcodes.ndjson")
        run_harness("release", ["opcodes", hp])
        impl_ops = {d["name"]: d for d in map(json.loads, open(hp))}
        for n in sorted(set(spec_ops) | set(impl_ops)):
            ck.note_case("opcode:" + n)
            s, i = spec_ops.get(n), impl_ops.get(n)
            if s is None or i is None or s["code"] != i["code"] or s["imm"] != i["imm"] or s["control"] != i["control"]:
                ck.violation("opcode:" + n, "opcode table entry differs: spec %s impl %s" % (s, i), {"op": n})
        # --- R: generate scenarios -----------------------------------------------------------------
        scs = []
        n_exh = 15 if thorough else 11
        cfgp = os.path.join(wd, "GEN_Span_exh.cfg")
        with open(cfgp, "w") as f:
            f.write('CONSTANTS N = %d  MODE = "exh"\nINIT Init\nNEXT Next\nINVARIANT Emit\nCHECK_DEADLOCK FALSE\n' % n_exh)
        r = tlc_or_die("GEN_Span.tla", cfg=cfgp, cwd=os.path.join(SPEC, "gen"), workers=8, timeout=3000, heap="8g")
        ck.add_tlc(r)
        scs += json_prints(r, "span")
        nrnd = 3000 if thorough else 300
        r = tlc_or_die("GEN_Span.tla", cfg="GEN_Span_rnd.cfg", cwd=os.path.join(SPEC, "gen"), workers=1,
                       simulate=nrnd, depth=301, seed_=seed(), timeout=3000)
        ck.add_tlc(r)
        rnd = json_prints(r, "span")
        scs += rnd
        ck.extra["exhaustive_pattern_length"] = n_exh
        ck.extra["random_sequences"] = len(rnd)
    inp = os.path.join(wd, "span_scenarios.ndjson")
    with open(inp, "w") as f:
        for sc in scs:
            f.write(json.dumps(sc) + "\n")
    for prof in ("release", "checked"):
        outp = os.path.join(wd, "span_results_%s.ndjson" % prof)
        run_harness(prof, ["replay-span", inp, outp])
        results = [json.loads(l) for l in open(outp)]
        if len(results) != len(scs):
            raise ToolError("span replay returned %d results for %d scenarios" % (len(results), len(scs)))
        for sc, res in zip(scs, results):
            ck.traces += 1
            ck.note_case([(o["c"], o["imm"]) for o in sc["ops"]])
            d = compare_span(sc, res)
            if d:
                ck.violation("span:%s:%s" % (prof, pattern(sc)[:80]), d, {"kind": "span", "profile": prof, "scenario": sc, "impl": res})
    for sc in scs[:2] + scs[-2:]:
        ck.sample({"pattern": pattern(sc), "batches": len(sc["batches"]), "group_count": sc["gc"],
                   "first_batch_groups": sc["batches"][0]["groups"]})
    ck.assumptions = ["RPO hash_elements of miden-crypto is the specified hash (uninterpreted in the spec)"]
    return ck.finish()
