"""C08 — the program commitment is the specified MAST hash of the executable code.

M : SpanBatch.tla batching rules model-checked over every push/non-push pattern (reduced and real constants).
R : GEN_Span behaviours (exhaustive patterns + random operation sequences) replayed on the real Span::new;
    groups, op counts, group numbers and the span hash (HashElems of the spec's groups) compared.
T : MAST hash recipes of assembled programs (see mast part, added by checks/c08 mast section).
"""
import json, os
from lib.common import *


def compare_span(sc, res):
    """returns None or a description of the first difference."""
    if res["outcome"] != "ok":
        return "implementation panicked: " + res.get("msg", "")
    imp = res["impl"]
    eb, ib = sc["batches"], imp["batches"]
    if len(eb) != len(ib):
        return "number of batches: spec %d impl %d" % (len(eb), len(ib))
    for k, (e, i) in enumerate(zip(eb, ib)):
        for fld in ("groups", "counts", "ng", "ops"):
            if e[fld] != i[fld]:
                return "batch %d field %s: spec %s impl %s" % (k, fld, e[fld], i[fld])
    if sc["gc"] != imp["gc"]:
        return "group count: spec %d impl %d" % (sc["gc"], imp["gc"])
    if imp["hash"] != res["recipe_hash"]:
        return "span hash is not HashElems(groups of all batches)"
    if imp["block_hash"] != imp["hash"]:
        return "CodeBlock::hash differs from Span::hash"
    return None


def pattern(sc):
    return "".join("p" if o["imm"] else "n" for o in sc["ops"])


NOOPS = ["add.0", "mul.1", "sub.0", "div.1", "u32shl.0", "u32rotl.0"]
DECOS = [("emit", "emit.1"), ("trace", "trace.2"), ("dbg", "debug.stack"), ("adv", "adv.push_mapval"), ("comment", "# c\n ")]


def isolated(c):
    """GEN_Deco!Isolated; at top level a following tail operation is a neighbour of the body's last element"""
    b = list(c["body"]) + (["O"] if c["wrap"] == "top" and c["tail"] == "O" else [])
    if c["wrap"] in ("execloc", "callloc"):        # GEN_Deco!Framed: prologue / epilogue operations surround the body
        b = ["O"] + b + ["O"]

    def reach(i, d):
        while 0 <= i < len(b) and b[i] == "D":
            i += d
        return b[i] if 0 <= i < len(b) else "end"
    return any(e == "D" and reach(i, -1) in ("end", "C") and reach(i, 1) in ("end", "C") for i, e in enumerate(b))


CBLOCK = "if.true neg end"       # a control-flow block: its neighbours in a body have no span to share with it


def deco_programs(ck, thorough):
    """programs of GEN_Deco: (programs, groups) with groups[id] = (class of the erased base or None, classes of the variants, description)"""
    cfgp = os.path.join(workdir("C08"), "GEN_Deco.cfg")
    with open(cfgp, "w") as f:
        f.write("CONSTANT MAXLEN = %d\nINIT Init\nNEXT Next\nCHECK_DEADLOCK FALSE\n" % (4 if thorough else 3))
    r = tlc_or_die("GEN_Deco.tla", cfg=cfgp, cwd=os.path.join(SPEC, "gen"), timeout=1200)
    ck.add_tlc(r)
    cases = json_prints(r, "deco")
    cases.sort(key=lambda c: json.dumps([c["wrap"], c["body"], c["tail"]]))

    def text(elems, deco):
        out = []
        for i, e in enumerate(elems):
            out.append({"N": NOOPS[i % len(NOOPS)], "O": "swap" if i % 2 else "neg", "P": "push.7", "D": deco, "C": CBLOCK}[e])
        return " ".join(out)

    def wrap(w, body, tail):
        t = "neg" if tail == "O" else ""
        return {"top": "begin\n %s %s\nend\n" % (body, t),
                "repeat": "begin\n repeat.2\n %s\n end %s\nend\n" % (body, t),
                "exec": "proc.f\n %s\nend\nbegin\n neg exec.f %s\nend\n" % (body, t),
                "branch": "begin\n push.1 if.true\n %s\n else\n neg\n end %s\nend\n" % (body, t),
                "loop": "begin\n push.0 while.true\n %s\n push.0\n end %s\nend\n" % (body, t),
                "call": "proc.f\n %s\nend\nbegin\n call.f %s\nend\n" % (body, t),
                "execloc": "proc.f.2\n %s\nend\nbegin\n neg exec.f %s\nend\n" % (body, t),
                "callloc": "proc.f.3\n %s\nend\nbegin\n call.f %s\nend\n" % (body, t)}[w]
    progs, groups = [], {}
    for gi, c in enumerate(cases):
        # positions of N / O elements must not shift between a body and its erasure: render the erasure from the same indices
        idx = [i for i, e in enumerate(c["body"]) if e != "D"]
        er = " ".join({"N": NOOPS[i % len(NOOPS)], "O": "swap" if i % 2 else "neg", "P": "push.7", "C": CBLOCK}[c["body"][i]] for i in idx)
        base = None
        if er:
            base = "deco:%d:base:off" % gi
            progs.append({"src": wrap(c["wrap"], er, c["tail"]), "kernel": None, "inputs": [], "class": base})
        members = []
        for dn, dt in DECOS:
            for dbg in (False, True):
                cls = "deco:%d:%s:%s" % (gi, dn, "on" if dbg else "off")
                p = {"src": wrap(c["wrap"], text(c["body"], dt), c["tail"]), "kernel": None, "inputs": [], "class": cls}
                if dbg:
                    p["debug"] = True
                progs.append(p)
                members.append(cls)
        groups[gi] = (base, members, {"wrap": c["wrap"], "body": c["body"], "tail": c["tail"], "isolated": isolated(c) and bool(er)})
    return progs, groups


def mast_part(ck, wd, thorough):
    """T: Mast.tla's hash recipe (hash_domain(children) with domain = opcode, span = HashElems(groups)) evaluated with the
    primitives on every node of assembled programs of every control-flow shape, compared with CodeBlock::hash(),
    Program::hash(), the trace's program hash; metamorphic pairs (decorators / debug mode / layout do not change the hash,
    a changed operation or immediate does)."""
    from lib import vmtrace, progen
    r = tlc_or_die("GEN_Mast.tla", cfg="GEN_Mast.cfg", cwd=os.path.join(SPEC, "gen"), timeout=600)
    ck.add_tlc(r)
    recipe = json_prints(r, "recipe")[0]
    progs = progen.corpus(seed() + 8, 200 if thorough else 40, nstmts=12) + progen.depth_sweep(depths=(0,), rng_seed=seed())
    base = "proc.f\n  push.1 drop\nend\nbegin\n  push.5 push.7 add\n  if.true\n    push.3 drop call.f\n  else\n    push.4 drop\n  end\n  push.0\n  while.true\n    push.0\n  end\n  procref.f dynexec dropw\nend\n"
    variants = [("base", base, {}),
                ("layout", "# a comment\n" + base.replace("\n", "\n\n").replace("  ", "\t"), {}),
                ("debug-mode", base, {"debug": True}),
                ("decorators", base.replace("push.5 push.7 add", "debug.stack push.5 emit.1 push.7 trace.2 add adv.push_mapval"), {}),
                ("renamed", base.replace("proc.f", "proc.other").replace("call.f", "call.other").replace("procref.f", "procref.other"), {}),
                ("changed-op", base.replace("push.5 push.7 add", "push.5 push.7 mul"), {}),
                ("changed-imm", base.replace("push.3 drop", "push.9 drop"), {}),
                ("swapped-branches", base.replace("push.3 drop call.f", "@@").replace("push.4 drop", "push.3 drop call.f").replace("@@", "push.4 drop"), {})]
    meta = [{"src": src, "kernel": None, "inputs": [], "class": "meta:" + nm, **kw} for nm, src, kw in variants]
    deco, groups = deco_programs(ck, thorough)
    allp = progs + meta + deco
    inp = os.path.join(wd, "mast_scenarios.ndjson")
    vmtrace.write_scenarios(allp, inp)
    lines = open(inp).read().split("\n")
    for i, p in enumerate(allp):
        if p.get("debug"):
            d = json.loads(lines[i])
            d["debug"] = True
            lines[i] = json.dumps(d)
    with open(inp, "w") as f:
        f.write(json.dumps(recipe) + "\n" + "\n".join(lines))
    outp = os.path.join(wd, "mast.out")
    run_harness("release", ["mast-recipe", inp, outp])
    hashes, nodes = {}, 0
    for p, line in zip(allp, open(outp)):
        res = json.loads(line)
        ck.traces += 1
        ck.note_case("mast:" + p["src"])
        if res["outcome"] != "ok" and p["class"].startswith("deco:"):
            continue            # judged per group below (an erased body may be an empty block)
        if res["outcome"] != "ok":
            raise ToolError("program for the MAST recipe check does not assemble: %s | %s" % (str(res)[:200], p["src"][:200]))
        nodes += res["nodes"]
        for mm in res["mismatches"]:
            ck.violation("mast:%s" % mm["kind"], "hash of a %s node is not what the recipe of programs.md gives (class %s)" % (mm["kind"], p["class"]),
                         {"kind": "mast", "program": p, "mismatch": mm})
        hashes[p["class"]] = res["hash"]
    same = ["meta:layout", "meta:debug-mode", "meta:decorators", "meta:renamed"]
    diff = ["meta:changed-op", "meta:changed-imm", "meta:swapped-branches"]
    for c in same:
        if hashes[c] != hashes["meta:base"]:
            ck.violation("mast:metamorphic:%s" % c, "%s changes the program hash" % c, {"kind": "mast", "variant": c})
    for c in diff:
        if hashes[c] == hashes["meta:base"]:
            ck.violation("mast:metamorphic:%s" % c, "%s does not change the program hash" % c, {"kind": "mast", "variant": c})
    # decorator / debug-mode invariance on the generated bodies (GEN_Deco): every variant of a group hashes like its erasure
    byclass = {p["class"]: json.loads(line) for p, line in zip(allp, open(outp))}
    ngroups = skipped = 0
    for gid, (basecls, members, desc) in groups.items():
        hs = {}
        for m in members + ([basecls] if basecls else []):
            r_ = byclass[m]
            if r_["outcome"] == "ok":
                hs[m] = r_["hash"]
            else:
                skipped += 1
        if basecls and basecls not in hs:
            continue          # the erased body is not a program the assembler accepts (e.g. an empty block): nothing to compare with
        ref = hs[basecls] if basecls else (sorted(hs.values())[0] if hs else None)
        ngroups += 1
        for m, h in hs.items():
            if h != ref:
                ck.violation("mast:%s:%s:%s" % ("deco-isolated" if desc.get("isolated") else "deco", desc["wrap"], m.split(":")[-2]), "the program hash depends on decorators / debug mode: %s (variant %s) hashes differently from %s" % (
                    json.dumps(desc), m, basecls or "the other variants"), {"kind": "mast", "variant": m, "group": desc})
                break
    if ngroups < 300:
        raise ToolError("decorator invariance: only %d groups could be compared" % ngroups)
    ck.extra["decorator_groups_compared"] = ngroups
    ck.extra["decorator_variants_not_assembled"] = skipped
    ck.extra["mast_nodes_checked_against_recipe"] = nodes
    ck.extra["mast_programs"] = len(allp)


def run(tier, replay=None):
    ck = Check("C08", tier)
    ck.rule = ("a case = one operation sequence; exhaustive: every push/non-push pattern up to length N "
               "(opcodes and immediates vary with position); random: TLC -simulate sequences up to length 300 over "
               "all span operations; distinct = distinct (opcode, immediate) sequences")
    wd = workdir("C08", clean=True)
    if replay:
        with open(replay) as f:
            rp = json.load(f)["replay"]
        scs = [rp["scenario"]]
    else:
        scs = None
    thorough = tier == "thorough"
    # --- M: batching rules -----------------------------------------------------------------------
    if scs is None:
        for cfg, n in (("MC_SpanBatch_small.cfg", None), ("MC_SpanBatch_real.cfg", None)):
            r = tlc_or_die("MC_SpanBatch.tla", cfg=cfg, cwd=os.path.join(SPEC, "mc"), workers=8 if thorough else 4, timeout=1500)
            ck.add_tlc(r)
            if r.violation:
                ck.violation("spec:" + cfg + ":" + r.violation, "batching rule violated in the specification itself", {"tlc": r.out[-3000:]})
            ck.extra.setdefault("model_runs", []).append({"cfg": cfg, "distinct": r.distinct, "depth": r.depth})
        # --- opcode table ------------------------------------------------------------------------
        r = tlc_or_die("GEN_Opcodes.tla", cfg="GEN_Opcodes.cfg", cwd=os.path.join(SPEC, "gen"))
        spec_ops = {d["name"]: d for d in json_prints(r)[0]["ops"]}
        hp = os.path.join(wd, "opcodes.ndjson")
        run_harness("release", ["opcodes", hp])
        impl_ops = {d["name"]: d for d in map(json.loads, open(hp))}
        for n in sorted(set(spec_ops) | set(impl_ops)):
            ck.note_case("opcode:" + n)
            s, i = spec_ops.get(n), impl_ops.get(n)
            if s is None or i is None or s["code"] != i["code"] or s["imm"] != i["imm"] or s["control"] != i["control"]:
                ck.violation("opcode:" + n, "opcode table entry differs: spec %s impl %s" % (s, i), {"op": n})
        # --- R: generate scenarios -----------------------------------------------------------------
        scs = []
        n_exh = 15 if thorough else 11
        cfgp = os.path.join(wd, "GEN_Span_exh.cfg")
        with open(cfgp, "w") as f:
            f.write('CONSTANTS N = %d  MODE = "exh"\nINIT Init\nNEXT Next\nINVARIANT Emit\nCHECK_DEADLOCK FALSE\n' % n_exh)
        r = tlc_or_die("GEN_Span.tla", cfg=cfgp, cwd=os.path.join(SPEC, "gen"), workers=8, timeout=3000, heap="8g")
        ck.add_tlc(r)
        scs += json_prints(r, "span")
        nrnd = 3000 if thorough else 300
        r = tlc_or_die("GEN_Span.tla", cfg="GEN_Span_rnd.cfg", cwd=os.path.join(SPEC, "gen"), workers=1,
                       simulate=nrnd, depth=301, seed_=seed(), timeout=3000)
        ck.add_tlc(r)
        rnd = json_prints(r, "span")
        scs += rnd
        # covering set of the batching automaton (every reachable batch shape x kind of next operation, two / three batches)
        cfgp = os.path.join(wd, "GEN_SpanCover.cfg")
        with open(cfgp, "w") as f:
            f.write("CONSTANTS NB = 2 FINE = %d FULL = TRUE\nINIT Init\nNEXT Next\nVIEW Shape\nCHECK_DEADLOCK FALSE\n" % (2 if thorough else 0))
        r = tlc_or_die("GEN_SpanCover.tla", cfg=cfgp, cwd=os.path.join(SPEC, "gen"), workers=1, timeout=3000, heap="6g")
        ck.add_tlc(r)
        cover = json_prints(r, "span")
        if len(cover) < 1000:
            raise ToolError("covering set of span patterns is unexpectedly small (%d)" % len(cover))
        scs += cover
        ck.extra["covering_patterns"] = len(cover)
        ck.extra["exhaustive_pattern_length"] = n_exh
        ck.extra["random_sequences"] = len(rnd)
    inp = os.path.join(wd, "span_scenarios.ndjson")
    with open(inp, "w") as f:
        for sc in scs:
            f.write(json.dumps(sc) + "\n")
    for prof in ("release", "checked"):
        outp = os.path.join(wd, "span_results_%s.ndjson" % prof)
        run_harness(prof, ["replay-span", inp, outp])
        results = [json.loads(l) for l in open(outp)]
        if len(results) != len(scs):
            raise ToolError("span replay returned %d results for %d scenarios" % (len(results), len(scs)))
        for sc, res in zip(scs, results):
            ck.traces += 1
            ck.note_case([(o["c"], o["imm"]) for o in sc["ops"]])
            d = compare_span(sc, res)
            if d:
                ck.violation("span:%s:%s" % (prof, pattern(sc)[:80]), d, {"kind": "span", "profile": prof, "scenario": sc, "impl": res})
    if not replay:
        mast_part(ck, wd, thorough)
    for sc in scs[:2] + scs[-2:]:
        ck.sample({"pattern": pattern(sc), "batches": len(sc["batches"]), "group_count": sc["gc"],
                   "first_batch_groups": sc["batches"][0]["groups"]})
    ck.assumptions = ["RPO hash_elements of miden-crypto is the specified hash (uninterpreted in the spec)"]
    return ck.finish()
