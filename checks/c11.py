"""C11 — assembly is deterministic, history-independent and self-contained.

M : Assembler.tla models one assembler instance at the granularity of its methods (module provider, procedure cache
    with ids / aliases / callsets, per-compilation context) next to a declarative layer (what a source means: name
    resolution through re-exports, pasted `exec` bodies, statically reachable call / syscall / procref targets,
    validity).  MC_Assembler explores every history of library additions and compilations (failing ones included) of
    bounded length over universes of modules, kernels and programs, and monitors HistoryIndependence (= result of a
    freshly configured instance) and Declarative (success iff valid, prescribed root, code-block table contains every
    static target, kernel = the kernel's exports).
R : every maximal history is replayed on one real Assembler instance.  After each compilation: outcome (ok / error,
    never a panic) as prescribed; hash and kernel equal to those of a freshly configured real instance; sources with
    the same prescribed root term have the same real MAST root (re-exports, pasted bodies, local copies); the code-block
    table is statically closed; the program is executed (every static reference of these straight-line programs is
    reached) and must not fail for a missing procedure body.
    Invalid sources with boundary parameters (parameter / local index out of range, call / syscall / caller where
    forbidden, division by a zero immediate, export in an executable, undefined procedure) must be rejected with an
    error in both build profiles - not accepted, not a panic.
"""
import json, os, random, concurrent.futures as cf
from lib.common import *
from lib import asm_univ


def rejects_table():
    """(label, source, kwargs, must_fail) - invalid sources from the user docs' parameter ranges + valid neighbours"""
    t = []

    def prog(body, pre=""):
        return pre + "begin\n " + body + "\nend\n"
    inv = [("push.17", "push." + ".".join(["1"] * 17)), ("dup.16", "dup.16"), ("swap.16", "swap.16"), ("swap.0", "swap.0"), ("movup.16", "movup.16"),
           ("movup.1", "movup.1"), ("movdn.16", "movdn.16"), ("movdn.1", "movdn.1"), ("swapw.4", "swapw.4"), ("swapw.0", "swapw.0"), ("dupw.4", "dupw.4"),
           ("movupw.4", "movupw.4"), ("movupw.1", "movupw.1"), ("movdnw.4", "movdnw.4"), ("adv_push.0", "adv_push.0"), ("adv_push.17", "adv_push.17"),
           ("u32shl.32", "u32shl.32"), ("u32shr.32", "u32shr.32"), ("u32rotl.32", "u32rotl.32"), ("u32rotr.32", "u32rotr.32"),
           ("exp.u65", "exp.u65"), ("pow2-imm", "push.1 u32shl.64"), ("div.0", "div.0"), ("u32div.0", "u32div.0"), ("u32mod.0", "u32mod.0"), ("u32divmod.0", "u32divmod.0"),
           ("repeat.0", "repeat.0 push.1 end"), ("mem_load.2^32", "mem_load.4294967296"), ("mem_store.2^32", "mem_store.4294967296"),
           ("u32wrapping_add.2^32", "u32wrapping_add.4294967296"), ("push.p", "push.18446744069414584321"),
           ("exec.undefined", "exec.nothere"), ("call.undefined", "call.nothere"), ("procref.undefined", "procref.nothere"),
           ("exec.unimported", "exec.mm::f"), ("syscall.nokernel", "syscall.foo"), ("caller.outside", "caller"),
           ("loc_load.main", "loc_load.0"), ("loc_store.main", "loc_store.0"), ("loc_loadw.main", "loc_loadw.0"), ("loc_storew.main", "loc_storew.0"), ("locaddr.main", "locaddr.0")]
    for lab, body in inv:
        t.append((lab, prog(body), {}, True))
    ok = [("dup.15", "dup.15 drop"), ("swap.15", "swap.15"), ("movup.15", "movup.15"), ("movdn.15", "movdn.15"), ("swapw.3", "swapw.3"), ("dupw.3", "dupw.3 dropw"),
          ("u32shl.31", "push.1 u32shl.31 drop"), ("u32rotr.31", "push.1 u32rotr.31 drop"), ("exp.u64", "push.2 push.3 exp.u64 drop"), ("div.1", "push.4 div.1 drop"),
          ("push.16", "push." + ".".join(["1"] * 16) + " dropw dropw dropw dropw"), ("adv_push.16-parse", "push.1 drop"), ("repeat.1", "repeat.1 push.1 drop end"),
          ("mem_load.2^32-1", "mem_load.4294967295 drop"), ("push.p-1", "push.18446744069414584320 drop")]
    for lab, body in ok:
        t.append((lab, prog(body), {}, False))
    # locals: index == number of locals, and procedures without locals
    for n in (0, 1, 2, 5):
        for k in sorted({0, max(n - 1, 0), n, n + 1, 65535}):
            for ins, tail in (("loc_load", " drop"), ("loc_store", ""), ("loc_loadw", ""), ("loc_storew", ""), ("locaddr", " drop")):
                pre = "proc.f%s\n %s%s.%d%s\nend\n" % (".%d" % n if n else "", "push.1 " if ins == "loc_store" else "", ins, k, tail)
                t.append(("%s.%d/locals=%d" % (ins, k, n), prog("exec.f", pre), {}, k >= n))
    t.append(("export-in-program", "export.f\n push.1 drop\nend\nbegin\n exec.f\nend\n", {}, True))
    t.append(("proc-in-program", "proc.f\n push.1 drop\nend\nbegin\n exec.f\nend\n", {}, False))
    kern = "export.k1\n push.1 drop\nend\n"
    t.append(("syscall.kernel-proc", prog("syscall.k1"), {"kernel": kern}, False))
    t.append(("syscall.not-in-kernel", prog("syscall.k2"), {"kernel": kern}, True))
    t.append(("caller.in-program-with-kernel", prog("padw caller dropw"), {"kernel": kern}, True))
    t.append(("kernel:caller", "export.k1\n padw caller dropw\nend\n", {"as_kernel": True}, False))
    t.append(("kernel:call", "proc.a\n push.1 drop\nend\nexport.k1\n call.a\nend\n", {"as_kernel": True}, True))
    t.append(("kernel:procref", "proc.a\n push.1 drop\nend\nexport.k1\n procref.a dropw\nend\n", {"as_kernel": True}, True))
    t.append(("kernel:exec", "proc.a\n push.1 drop\nend\nexport.k1\n exec.a\nend\n", {"as_kernel": True}, False))
    t.append(("kernel:syscall", "export.k0\n push.1 drop\nend\nexport.k1\n syscall.k0\nend\n", {"as_kernel": True}, True))
    t.append(("kernel:loc.0/locals=0", "export.k1\n loc_load.0 drop\nend\n", {"as_kernel": True}, True))
    return t


def reaches(u, p, kinds):
    """item kinds (of `kinds`) that program p reaches through pasted / called / referenced procedures"""
    mods = {m["name"]: m for m in u["mods"]}
    if u["kernel"]:
        mods["#sys"] = u["kernel"][0]
    seen, out = set(), set()

    def res(m, n, fuel=8):
        md = mods.get(m)
        if md is None or fuel == 0:
            return None
        for r in md["reexp"]:
            if r["name"] == n:
                return res(r["fm"], r["fn"], fuel - 1)
        for i, pr in enumerate(md["procs"]):
            if pr["name"] == n:
                return (m, i)
        return None

    def walk(procs, body, mname):
        for x in body:
            if x["t"] in kinds:
                out.add(x["t"])
            if x["t"] in ("exec", "call", "ref") and 1 <= x["i"] <= len(procs):
                key = (mname, x["i"] - 1)
                if key not in seen:
                    seen.add(key)
                    walk(procs, procs[x["i"] - 1]["body"], mname)
            elif x["t"] in ("xexec", "xcall", "xref"):
                d = res(x["m"], x["n"])
                if d and d not in seen:
                    seen.add(d)
                    walk(mods[d[0]]["procs"], mods[d[0]]["procs"][d[1]]["body"], d[0])
            elif x["t"] == "sys" and "#sys" in mods:
                d = res("#sys", x["n"])
                if d and d not in seen:
                    seen.add(d)
                    walk(mods["#sys"]["procs"], mods["#sys"]["procs"][d[1]]["body"], "#sys")
    walk(p["procs"], p["body"], "#exec")
    for pr in p["procs"]:
        walk(p["procs"], pr["body"], "#exec")
    return out


def caller_only_in_kernel_loaded_modules(u, p):
    """the program text itself has no `caller`; every imported module with a `caller` is also imported by the kernel"""
    if not u["kernel"] or any(x["t"] == "caller" for pr in p["procs"] for x in pr["body"]) or any(x["t"] == "caller" for x in p["body"]):
        return False
    mods = {m["name"]: m for m in u["mods"]}
    loaded, todo = set(), [u["kernel"][0]]
    while todo:
        md = todo.pop()
        for x in [y for pr in md["procs"] for y in pr["body"]] + [{"t": "xexec", "m": r["fm"]} for r in md["reexp"]]:
            if x["t"] in ("xexec", "xcall", "xref") and x["m"] in mods and x["m"] not in loaded:
                loaded.add(x["m"])
                todo.append(mods[x["m"]])
    with_caller = {m["name"] for m in u["mods"] if any(x["t"] == "caller" for pr in m["procs"] for x in pr["body"])}
    return with_caller <= loaded


def run(tier, replay=None):
    ck = Check("C11", tier)
    ck.rule = "a case = one compilation on a long-lived assembler instance (a step of a history) or one invalid / boundary source; distinct = distinct (universe, history prefix)"
    wd = workdir("C11", clean=True)
    thorough = tier == "thorough"
    rng = random.Random(seed() * 7919 + 11)
    us = asm_univ.hand_universes()
    nrand = 60 if thorough else 10
    for _ in range(nrand):
        us.append(asm_univ.random_universe(rng, nmods=rng.choice([2, 3, 4]), nprogs=rng.choice([3, 4])))
    if replay:
        with open(replay) as f:
            rp = json.load(f)["replay"]
        if rp.get("kind") == "history":
            us = [rp["universe"]]
    upath = os.path.join(wd, "universes.ndjson")
    with open(upath, "w") as f:
        for u in us:
            f.write(json.dumps(u) + "\n")
    maxlen = 4

    def model(i):
        return i, tlc("MC_Assembler.tla", cfg="MC_Assembler.cfg", cwd=os.path.join(SPEC, "mc"), workers=2, timeout=1500, heap="3g",
                      env_extra={"UNIV": upath, "UIDX": str(i + 1)})
    hists, modelviols = {}, {}
    with cf.ThreadPoolExecutor(max_workers=6) as ex:
        for i, r in ex.map(model, range(len(us))):
            if r.error:
                sys.stderr.write(r.out[-3000:])
                raise ToolError("TLC failed on universe %d: %s" % (i, r.error))
            ck.add_tlc(r)
            if r.violation:
                ck.violation("spec:MC_Assembler:%s:u%d" % (r.violation, i), "model invariant violated (kernel configuration does not conform)", {"kind": "model", "universe": us[i], "tlc": r.out[-1500:]})
            hists[i] = [h["hist"] for h in json_prints(r, "history")]
            modelviols[i] = json_prints(r, "modelviol")
    # replay
    cap = 4000 if thorough else 600
    scen_path = os.path.join(wd, "histories.ndjson")
    index = []
    with open(scen_path, "w") as f:
        for i, u in enumerate(us):
            hs = hists[i]
            if replay and rp.get("kind") == "history":
                hs = [rp["hist"]]
            elif len(hs) > cap:
                hs = random.Random(seed() + i).sample(hs, cap)
            f.write(json.dumps({"univ": asm_univ.render(u)}) + "\n")
            for h in hs:
                f.write(json.dumps({"u": i, "hist": h}) + "\n")
                index.append((i, h))
    nsteps = 0
    drift = 0
    confirmed_model = 0
    for prof in ("release", "checked"):
        outp = os.path.join(wd, "histories_%s.out" % prof)
        run_harness(prof, ["asm-history", scen_path, outp], timeout=7200)
        classes = {}    # (universe, root term) -> real hash
        for (ui, h), line in zip(index, open(outp)):
            res = json.loads(line)
            u = us[ui]
            tag = "hand%d" % (ui + 1) if ui < len(asm_univ.hand_universes()) and not replay else "rnd"
            rep = {"kind": "history", "universe": u, "hist": h, "profile": prof}
            if res["outcome"] != "done":
                raise ToolError("asm-history could not set up universe %d: %s" % (ui, res.get("msg")))
            steps = res["steps"]
            c0 = steps[0]
            if c0["outcome"] == "panic":
                ck.violation("config:panic:%s" % tag, "configuring the assembler panicked: %s" % c0.get("msg"), rep)
                continue
            if (c0["outcome"] == "ok") != h[0]["dok"]:
                ck.violation("config:%s:%s" % ("accepts-invalid-kernel" if c0["outcome"] == "ok" else "rejects-valid-kernel", tag),
                             "kernel / library configuration: prescribed %s, implementation %s %s" % (h[0]["dok"], c0["outcome"], c0.get("msg", "")), rep)
                continue
            for k, (hs, st) in enumerate(zip(h[1:], steps[1:])):
                if hs["act"] != "compile":
                    if st["outcome"] != "ok":
                        ck.violation("lib:%s:%s" % (st["outcome"], tag), "adding a library failed: %s" % st.get("msg"), rep)
                    continue
                nsteps += 1
                ck.note_case([ui, [(x.get("act"), x.get("prog"), x.get("lib")) for x in h[: k + 2]], prof])
                here, fresh, d = st["here"], st["fresh"], hs["d"]
                where = "step %d (program %d) of history %s" % (k + 1, hs["prog"], [(x.get("lib") or x.get("prog") or x.get("libs")) for x in h[: k + 2]])
                if here["outcome"] == "panic":
                    ck.violation("compile:panic:%s" % tag, "compilation panicked at %s: %s" % (where, here.get("msg")), rep)
                    continue
                if (here["outcome"] == "ok") != d["ok"]:
                    why = "+".join(sorted(reaches(u, u["progs"][hs["prog"] - 1], {"caller", "loc", "sys", "lit"}))) or "imports"
                    if why == "caller" and caller_only_in_kernel_loaded_modules(u, u["progs"][hs["prog"] - 1]):
                        why = "caller-in-library-module-loaded-by-kernel"
                    ck.violation("compile:%s:%s:kernel=%d" % ("accepts-invalid" if here["outcome"] == "ok" else "rejects-valid", why, len(u["kernel"])),
                                 "%s: prescribed %s, implementation %s %s" % (where, "ok" if d["ok"] else "error", here["outcome"], here.get("kind", "")), rep)
                if here["outcome"] != fresh["outcome"] or (here["outcome"] == "ok" and (here["hash"] != fresh["hash"] or here["kernel"] != fresh["kernel"])):
                    ck.violation("history:%s->%s:%s" % (fresh["outcome"], here["outcome"], tag),
                                 "%s: a freshly configured assembler gives %s %s, this instance gives %s %s" % (
                                     where, fresh["outcome"], fresh.get("hash", fresh.get("kind", "")), here["outcome"], here.get("hash", here.get("kind", ""))), rep)
                if (here["outcome"] == "ok") != (hs["mech"] == "ok"):
                    drift += 1
                if here["outcome"] != "ok":
                    continue
                if d["ok"]:
                    key = (ui, json.dumps(d["root"]))
                    if classes.setdefault(key, here["hash"]) != here["hash"]:
                        ck.violation("root:same-meaning-different-root:%s" % tag, "%s: sources standing for the same code have different MAST roots" % where, rep)
                if here["missing_static"]:
                    ck.violation("closure:static:%s" % tag, "%s: call targets %s are not in the code-block table" % (where, here["missing_static"][:2]), rep)
                run_ = here.get("run", {})
                if run_.get("outcome") == "panic":
                    ck.violation("run:panic:%s" % tag, "%s: execution panicked: %s" % (where, run_.get("msg")), rep)
                elif run_.get("outcome") == "err":
                    kind = run_["err"]["kind"]
                    if kind in ("CodeBlockNotFound", "DynamicCodeBlockNotFound"):
                        if d["ok"] and d["runok"]:
                            ck.violation("closure:%s:%s" % (kind, tag), "%s: execution fails because a statically referenced procedure body is missing (%s)" % (where, kind), rep)
                    else:
                        if d["ok"]:     # (a source the specification calls invalid is reported above; its run is not judged)
                            ck.violation("run:%s:%s" % (kind, tag), "%s: execution failed with %s" % (where, run_["err"]), rep)
        # distinct root terms must normally have distinct roots (recorded, not judged)
        inv = {}
        for (ui, term), hsh in classes.items():
            inv.setdefault((ui, hsh), set()).add(term)
        ck.extra["root_terms_sharing_a_real_root_recorded_not_judged"] = sum(1 for v in inv.values() if len(v) > 1)
    ck.traces += len(index)
    nviol_model = sum(len(v) for v in modelviols.values())
    ck.extra.update({"universes": len(us), "hand_universes": len(asm_univ.hand_universes()), "histories_replayed": len(index), "history_length": maxlen,
                     "compilations_checked": nsteps, "mechanism_model_vs_declarative_disagreements": nviol_model,
                     "mechanism_model_vs_implementation_outcome_mismatches": drift})
    if nviol_model:
        # the mechanism model (a transcription of the implementation's cache discipline) deviates from the declarative
        # meaning: a design-level finding; it counts only through the replay above (the real code decides)
        ex = None
        for i, v in modelviols.items():
            if v:
                ex = {"universe": i, "hist": [(x.get("act"), x.get("prog"), x.get("lib")) for x in v[0]["hist"]], "hi": v[0]["hi"], "de": v[0]["de"]}
                break
        ck.extra["mechanism_model_finding_example"] = ex
        print("NOTE: the mechanism model deviates from the declarative layer on %d steps (e.g. %s); the replay on the real assembler decides" % (nviol_model, ex))
    # invalid sources
    table = rejects_table()
    rin = os.path.join(wd, "rejects.ndjson")
    with open(rin, "w") as f:
        for lab, src, kw, must in table:
            d = {"src": src}
            d.update(kw)
            f.write(json.dumps(d) + "\n")
    for prof in ("release", "checked"):
        rout = os.path.join(wd, "rejects_%s.out" % prof)
        run_harness(prof, ["asm-rejects", rin, rout])
        for (lab, src, kw, must), line in zip(table, open(rout)):
            res = json.loads(line)
            ck.note_case(["reject", lab, prof])
            rep = {"kind": "reject", "label": lab, "src": src, "opts": kw, "profile": prof}
            if res["outcome"] == "panic":
                ck.violation("reject:panic:%s" % lab.split("/")[0].split(".")[0], "%s [%s]: the assembler panicked: %s" % (lab, prof, res.get("msg")), rep)
            elif must and res["outcome"] == "ok":
                ck.violation("reject:accepted:%s" % lab.split("/")[0].split(".")[0], "%s [%s]: invalid source was assembled" % (lab, prof), rep)
            elif not must and res["outcome"] != "ok":
                ck.violation("reject:valid-rejected:%s" % lab, "%s [%s]: valid source rejected: %s" % (lab, prof, res.get("msg")), rep)
    ck.extra["invalid_and_boundary_sources"] = len(table)
    if index:
        ck.sample({"universe_modules": [m["name"] for m in us[index[0][0]]["mods"]], "history": index[0][1]})
        ck.sample({"universe_modules": [m["name"] for m in us[index[-1][0]]["mods"]], "history": index[-1][1]})
    ck.assumptions = ["programs of the universes are straight-line, so executing them reaches every static reference",
                      "distinct code terms are assumed (not judged) to have distinct MAST roots"]
    return ck.finish()
