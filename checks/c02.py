"""C02 — a proof binds to its statement; altered statements or proofs are rejected.  See checks/c01.py (shared machinery)."""
from lib.common import Check
from checks.c01 import run_pipeline


def run(tier, replay=None):
    ck = Check("C02", tier)
    ck.rule = "a case = (program, option set, transport, tamper kind, position); distinct = distinct tuples"
    return run_pipeline(ck, "C02", tier, replay)
