"""C18 — standard-library memory, stack and collection utilities keep their contracts.

M/R: StdLib.tla states the contracts (truncate_stack = the original top 16 elements; memcopy = n words copied one after
     the other; pipe_words_to_memory = the advice words in order + pointer + RPO hash of the moved elements; Merkle
     mountain range: one peak per set bit of the leaf count, each peak the Merkle root of its leaves, get(pos) = the
     pos-th leaf; sparse Merkle tree = a key -> value map whose `set` returns the old value).  GEN_Std enumerates
     scenarios with the prescribed results: every stack depth 16..40, every (n, read_ptr, write_ptr) with n <= 5 over
     overlapping ranges, every word count 0..5 for the pipes, every leaf count up to 9 (thorough: 20) with every
     position, accumulators given by their peaks for every peak count 1..32 (pack = hash of the peak words padded to an even
     count of at least 16, unpack restores them), every initial map x every history of get / set / remove of length 2 (thorough: 3) over three keys two of
     which share a leaf.  Each scenario is compiled into a program calling the real std:: procedures and run on the VM;
     stack, memory and roots are compared with the prescription and with the native miden-crypto Mmr / Smt.
"""
import json, os
from lib.common import *


def W(i):
    return [10 * i + 1, 10 * i + 2, 10 * i + 3, 10 * i + 4]


def pw(w):
    return "push." + ".".join(str(x) for x in w)


KEYS = {1: [1, 0, 0, 5], 2: [2, 0, 0, 9], 3: [3, 0, 0, 9]}
VALS = {0: [0, 0, 0, 0], 1: [11, 0, 0, 7], 2: [22, 5, 0, 7]}
PRELOAD = "".join("  %s mem_storew.%d dropw\n" % (pw(W(a - 99)), a) for a in range(100, 112))


def gen(kind, wd, maxleaves=9, histlen=2):
    cfg = os.path.join(wd, "GEN_Std_%s.cfg" % kind)
    with open(cfg, "w") as f:
        f.write('CONSTANTS KIND = "%s" MaxLeaves = %d HistLen = %d\nINIT Init\nNEXT Next\nINVARIANTS Emit MmrPeaks\nCHECK_DEADLOCK FALSE\n' % (kind, maxleaves, histlen))
    r = tlc_or_die("GEN_Std.tla", cfg=cfg, cwd=os.path.join(SPEC, "gen"), workers=2, timeout=1800)
    return r, json_prints(r, "std")


def render(s):
    k = s["kind"]
    if k == "truncate":
        return {"src": "use.std::sys\nbegin\n  exec.sys::truncate_stack\nend\n", "inputs": [str(i) for i in range(1, s["depth"] + 1)]}
    if k == "memcopy":
        return {"src": "use.std::mem\nbegin\n%s  push.%d push.%d push.%d exec.mem::memcopy\nend\n" % (PRELOAD, s["w"], s["r"], s["n"]), "inputs": [], "mem_dump": list(range(100, 112))}
    if k == "pipe":
        adv = [x for j in range(1, s["n"] + 1) for x in W(20 + j)]
        return {"src": "use.std::mem\nbegin\n%s  push.%d push.%d exec.mem::pipe_words_to_memory\nend\n" % (PRELOAD, s["w"], s["n"]), "inputs": [], "adv_stack": [str(x) for x in adv],
                "hash_elems": [str(x) for x in adv], "mem_dump": list(range(100, 112))}
    if k == "pipe_preimage":
        adv = [x for j in range(1, s["n"] + 1) for x in W(20 + j)]
        return {"src": "use.std::mem\nbegin\n%s  push.{{COM}} push.%d push.%d exec.mem::pipe_preimage_to_memory\nend\n" % (PRELOAD, s["w"], s["n"]), "inputs": [], "adv_stack": [str(x) for x in adv],
                "hash_elems": [str(x) for x in (adv if s["good"] else adv[:-1] + [adv[-1] + 1])], "mem_dump": list(range(100, 112))}
    if k == "pipe2":
        adv = [x for j in range(1, s["n"] + 1) for x in W(20 + j)]
        state = list(range(31, 43))              # hasher state, capacity first; on the stack its last element is on top
        return {"src": "use.std::mem\nbegin\n%s  exec.mem::pipe_double_words_to_memory\nend\n" % PRELOAD,
                "inputs": [str(x) for x in reversed(state)] + [str(s["w"]), str(s["w"] + s["n"]), "77"], "adv_stack": [str(x) for x in adv],
                "absorb": {"init": [str(x) for x in state], "elems": [str(x) for x in adv]}, "mem_dump": list(range(100, 112))}
    if k == "mmrfn":
        arg = sum(v << (16 * i) for i, v in enumerate(s["arg"]))
        return {"src": "use.std::collections::mmr\nbegin\n  exec.mmr::%s\nend\n" % s["fn"], "inputs": [str(arg), "7", "8", "9"]}
    if k == "mmr":
        n = s["n"]
        body = "".join("  push.1000 %s exec.mmr::add\n" % pw(W(i)) for i in range(1, n + 1))
        body += "".join("  push.1000 push.%d exec.mmr::get mem_storew.%d dropw\n" % (p, 2000 + p) for p in range(n))
        # pack the accumulator (hash kept at 2500), unpack it at another address, read every leaf position through the copy
        body += "  push.1000 exec.mmr::pack mem_storew.2500 push.1500 movdn.4 exec.mmr::unpack\n"
        body += "".join("  push.1500 push.%d exec.mmr::get mem_storew.%d dropw\n" % (p, 2600 + p) for p in range(n))
        body += "  push.%d exec.mmr::num_leaves_to_num_peaks\n" % n
        return {"src": "use.std::collections::mmr\nbegin\n%send\n" % body, "inputs": [], "mmr_leaves": [[str(x) for x in W(i)] for i in range(1, n + 1)],
                "mem_dump": [1000] + list(range(1001, 1001 + 8)) + list(range(2000, 2000 + n)) + [2500] + list(range(1500, 1509)) + list(range(2600, 2600 + n))}
    if k == "mmrpack":
        np_, nl = s["np"], s["leaves"][0] + (s["leaves"][1] << 16)
        body = "  push.%d.0.0.0 mem_storew.1000 dropw\n" % nl
        body += "".join("  %s mem_storew.%d dropw\n" % (pw(W(i)), 1000 + i) for i in range(1, np_ + 1))
        body += "  push.1000 exec.mmr::pack mem_storew.2500 push.3000 movdn.4 exec.mmr::unpack\n"
        padded = [x for w in s["padded"] for x in (W(w) if w else [0, 0, 0, 0])]
        return {"src": "use.std::collections::mmr\nbegin\n%send\n" % body, "inputs": [], "hash_elems": [str(x) for x in padded],
                "mmr_peaks": {"num_leaves": str(nl), "peaks": [[str(x) for x in W(i)] for i in range(1, np_ + 1)]},
                "mem_dump": [2500] + list(range(3000, 3001 + np_)) + [3001 + np_, 3002 + np_]}
    if k == "smt_forged":
        r_ = render(dict(s, kind="smt"))
        r_["smt_forge"] = True
        return r_
    if k == "smt":
        items = s["init"].items() if isinstance(s["init"], dict) else enumerate(s["init"], 1)
        init = [[KEYS[int(kk)], VALS[v]] for kk, v in sorted(items) if v != 0]
        ops, body = [], "  push.{{ROOT0}}\n"
        for i, op in enumerate(s["ops"]):
            if op[0] == "get":
                body += "  %s exec.smt::get mem_storew.%d dropw\n" % (pw(KEYS[op[1]]), 3000 + i)
                ops.append(["get", [str(x) for x in KEYS[op[1]]]])
            else:
                body += "  %s %s exec.smt::set mem_storew.%d dropw\n" % (pw(KEYS[op[1]]), pw(VALS[op[2]]), 3000 + i)
                ops.append(["set", [str(x) for x in KEYS[op[1]]], [str(x) for x in VALS[op[2]]]])
        return {"src": "use.std::collections::smt\nbegin\n%send\n" % body, "inputs": [], "smt": [[[str(x) for x in a], [str(x) for x in b]] for a, b in init], "smt_ops": ops,
                "mem_dump": [3000 + i for i in range(len(s["ops"]))]}
    raise ValueError(k)


def run(tier, replay=None):
    ck = Check("C18", tier)
    ck.rule = "a case = one scenario of GEN_Std (a call or a history of calls of std:: procedures with the prescribed result); distinct = distinct scenarios"
    wd = workdir("C18", clean=True)
    thorough = tier == "thorough"
    scs = []
    for kind in ("truncate", "memcopy", "pipe", "pipe2", "mmrfn", "mmr", "mmrpack", "smt"):
        r, ss = gen(kind, wd, maxleaves=20 if thorough else 9, histlen=3 if thorough else 2)
        ck.add_tlc(r)
        if r.violation:
            ck.violation("spec:StdLib:" + str(r.violation), "contract model inconsistent", {"tlc": r.out[-1500:]})
        scs += ss
    # commitment check of pipe_preimage_to_memory: the right and a wrong commitment
    scs += [{"kind": "pipe_preimage", "n": n, "w": 100, "good": g} for n in (1, 2, 3, 4) for g in (True, False)]
    # sparse Merkle tree under a dishonest advice map (every leaf hash answered with another leaf's preimage): the
    # procedures must fail or still return what the native tree returns (the map is only a hint, like the inputs of C09)
    forged = []
    for s_ in scs:
        if s_["kind"] == "smt":
            items = s_["init"].items() if isinstance(s_["init"], dict) else enumerate(s_["init"], 1)
            if sum(1 for _, v in items if v != 0) >= 2 and len(forged) < (400 if thorough else 120):
                f_ = dict(s_)
                f_["kind"] = "smt_forged"
                forged.append(f_)
    scs += forged
    if replay:
        with open(replay) as f:
            scs = [json.load(f)["replay"]["scenario"]]
    recs = [render(s) for s in scs]
    inp = os.path.join(wd, "std.ndjson")
    # placeholders that need values only the primitives can compute are resolved by a first pass of the harness
    with open(inp, "w") as f:
        for r_ in recs:
            d = dict(r_)
            d["src"] = d["src"].replace("{{COM}}", "1.2.3.4").replace("{{ROOT0}}", "1.2.3.4")
            f.write(json.dumps(d) + "\n")
    pre = os.path.join(wd, "std_pre.out")
    run_harness("release", ["std-run", inp, pre], timeout=7200)
    for r_, line in zip(recs, open(pre)):
        nat = json.loads(line).get("native", {})
        if "{{COM}}" in r_["src"]:
            r_["src"] = r_["src"].replace("{{COM}}", ".".join(nat["hash"]))
            good_adv = r_["adv_stack"]
            r_["hash_elems"] = good_adv
        if "{{ROOT0}}" in r_["src"]:
            r_["src"] = r_["src"].replace("{{ROOT0}}", ".".join(nat["smt"]["root0"]))
    with open(inp, "w") as f:
        for r_ in recs:
            f.write(json.dumps(r_) + "\n")
    for prof in ("release", "checked"):
        outp = os.path.join(wd, "std_%s.out" % prof)
        run_harness(prof, ["std-run", inp, outp], timeout=7200)
        for s, r_, line in zip(scs, recs, open(outp)):
            res = json.loads(line)
            ck.note_case(s)
            ck.traces += 1
            k = s["kind"]
            rep = {"kind": "std", "scenario": s, "profile": prof, "program": r_["src"][:1500]}

            def bad(sig, msg):
                ck.violation("%s:%s:%s" % (k, sig, prof), msg, rep)
            if res["outcome"] == "panic" or res["outcome"].startswith("asm"):
                bad(res["outcome"], "%s: %s" % (res["outcome"], res.get("msg")))
                continue
            if k == "pipe_preimage" and not s["good"]:
                if res["outcome"] == "ok":
                    bad("wrong-commitment-accepted", "pipe_preimage_to_memory accepted data that does not match the commitment (n = %d)" % s["n"])
                continue
            if k == "smt_forged":
                if res["outcome"] == "ok":
                    want = [[str(x) for x in VALS[v]] for v in s["results"]]
                    if res.get("mem", []) != want:
                        bad("forged-advice", "with a forged advice map smt results are %s instead of failing or returning %s (ops %s on %s)" % (res.get("mem"), want, s["ops"], s["init"]))
                continue
            if k == "mmrfn" and not s["ok"]:
                if res["outcome"] == "ok":
                    bad("accepts:" + s["fn"], "mmr::%s(%s) succeeded, the documentation says it fails" % (s["fn"], r_["inputs"][0]))
                continue
            if res["outcome"] != "ok":
                bad("failed", "the call failed: %s | %s" % (res.get("err"), {x: s[x] for x in s if x not in ("expect", "tag", "results", "final", "peaks", "gets")}))
                continue
            st, mem, nat = res["stack"], res.get("mem", []), res.get("native", {})
            words = lambda ids: [[str(x) for x in W(i)] for i in ids]
            if k == "truncate":
                if st != [str(x) for x in s["expect"]]:
                    bad("stack", "depth %d: stack after truncate_stack is %s" % (s["depth"], st))
            elif k == "memcopy":
                if mem != words(s["expect"]):
                    bad("memory:n=%d:%s" % (s["n"], "overlap" if abs(s["r"] - s["w"]) < s["n"] and s["r"] != s["w"] else "disjoint"),
                        "memcopy(n=%d, read_ptr=%d, write_ptr=%d): memory 100..111 holds words %s, prescribed %s" % (s["n"], s["r"], s["w"], [m[0] if m else None for m in mem], [W(i)[0] for i in s["expect"]]))
                if st[:1] and any(x != "0" for x in st):
                    bad("stack", "memcopy left %s on the stack" % st)
            elif k == "pipe":
                if mem != words(s["expect"]):
                    bad("memory", "pipe_words_to_memory(n=%d, write_ptr=%d): memory differs from the advice words in order" % (s["n"], s["w"]))
                if st[4] != str(s["ptr"]):
                    bad("pointer", "returned pointer %s, prescribed %d" % (st[4], s["ptr"]))
                if list(reversed(st[:4])) != nat["hash"]:
                    bad("hash", "returned hash %s is not the RPO hash of the moved elements %s" % (list(reversed(st[:4])), nat["hash"]))
            elif k == "pipe2":
                if mem != words(s["expect"]):
                    bad("memory", "pipe_double_words_to_memory(write_ptr=%d, end_ptr=%d): memory differs from the advice words in order" % (s["w"], s["w"] + s["n"]))
                if st[12] != str(s["ptr"]) or st[13] != "77":
                    bad("pointer", "returned [.., %s, %s], prescribed write_ptr' = %d above the untouched element 77" % (st[12], st[13], s["ptr"]))
                if list(reversed(st[:12])) != nat["absorb"]:
                    bad("state", "returned hasher state %s is not the state after absorbing the moved words %s" % (list(reversed(st[:12])), nat["absorb"]))
            elif k == "mmrfn":
                want = [str(sum(v << (16 * i) for i, v in enumerate(e))) for e in s["expect"]] + ["7", "8", "9"]
                if st[:len(want)] != want or any(x != "0" for x in st[len(want):]):
                    bad("value:" + s["fn"], "mmr::%s(%s) left %s on the stack, prescribed %s" % (s["fn"], r_["inputs"][0], st[:len(want) + 1], want))
            elif k == "pipe_preimage":
                if st[0] != str(s["w"] + s["n"]):
                    bad("pointer", "returned pointer %s" % st[0])
            elif k == "mmr":
                n = s["n"]
                if mem[0] != [str(n), "0", "0", "0"]:
                    bad("num_leaves", "num_leaves word is %s after %d adds" % (mem[0], n))
                npk = len(nat["mmr"]["peaks"])
                if npk != s["npeaks"]:
                    bad("native-peaks", "native Mmr has %d peaks, contract says %d" % (npk, s["npeaks"]))
                if mem[1:1 + npk] != nat["mmr"]["peaks"]:
                    bad("peaks", "peaks in memory differ from the native Mmr's for %d leaves" % n)
                gets = mem[9:9 + n]
                want = [[str(x) for x in W(s["gets"][str(p)] if isinstance(s["gets"], dict) else s["gets"][p])] for p in range(n)]
                if gets != want:
                    bad("get", "mmr::get returns %s, prescribed the leaves in order" % [g[0] if g else None for g in gets])
                # pack / unpack: the hash is the accumulator's peak hash; the unpacked copy equals the original
                hsh, copy, gets2 = mem[9 + n], mem[10 + n:19 + n], mem[19 + n:19 + 2 * n]
                if hsh != nat["mmr"]["hash_peaks"]:
                    bad("pack-hash", "mmr::pack returned %s, the native accumulator's peak hash is %s (%d leaves)" % (hsh, nat["mmr"]["hash_peaks"], n))
                z = ["0", "0", "0", "0"]
                if [m or z for m in copy] != [m or z for m in mem[0:9]]:
                    bad("unpack", "the MMR unpacked from the advice map differs from the packed one (%d leaves): %s vs %s" % (n, [m and m[0] for m in copy], [m and m[0] for m in mem[0:9]]))
                if gets2 != want:
                    bad("get-unpacked", "mmr::get on the unpacked copy returns %s, prescribed the leaves in order" % [g[0] if g else None for g in gets2])
                if st[0] != str(s["npeaks"]):
                    bad("num_peaks", "num_leaves_to_num_peaks(%d) = %s, prescribed %d" % (n, st[0], s["npeaks"]))
            elif k == "mmrpack":
                np_, nl = s["np"], s["leaves"][0] + (s["leaves"][1] << 16)
                z = ["0", "0", "0", "0"]
                if mem[0] != nat["hash"]:
                    bad("pack-hash", "mmr::pack of %d peaks (%d leaves) returned %s; the hash of the %d padded peak words is %s" % (np_, nl, mem[0], s["words"], nat["hash"]))
                if "mmr_peaks" in nat and mem[0] != nat["mmr_peaks"]["hash_peaks"]:
                    bad("pack-native", "mmr::pack of %d peaks (%d leaves) returned %s; native MmrPeaks::hash_peaks gives %s" % (np_, nl, mem[0], nat["mmr_peaks"]["hash_peaks"]))
                want = [[str(nl), "0", "0", "0"]] + [[str(x) for x in W(i)] for i in range(1, np_ + 1)]
                got = [m or z for m in mem[1:2 + np_]]
                if got != want:
                    bad("unpack", "the accumulator unpacked from the advice map differs from the packed one (%d peaks): %s" % (np_, [g[0] for g in got]))
            elif k == "smt":
                want = [[str(x) for x in VALS[v]] for v in s["results"]]
                if mem != want:
                    bad("values", "smt results %s, prescribed %s for ops %s on %s" % (mem, want, s["ops"], s["init"]))
                if nat["smt"]["results"] != want:
                    bad("native-values", "native Smt disagrees with the map contract")
                if list(reversed(st[:4])) != nat["smt"]["root"]:
                    bad("root", "final root differs from the native Smt's for ops %s on %s" % (s["ops"], s["init"]))
    kinds = {}
    for s in scs:
        kinds[s["kind"]] = kinds.get(s["kind"], 0) + 1
    ck.extra["scenarios_by_kind"] = kinds
    ck.sample({k_: v for k_, v in scs[30].items() if k_ != "tag"})
    ck.sample({k_: v for k_, v in scs[-20].items() if k_ != "tag"})
    ck.assumptions = ["miden-crypto's Mmr / Smt / RPO are the native data structures the procedures mirror", "pipe_double_words_to_memory is exercised through pipe_words_to_memory / pipe_preimage_to_memory"]
    return ck.finish()
