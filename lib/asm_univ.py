"""Universes for the assembler model (spec/Assembler.tla): modules in libraries, an optional kernel, programs.
Hand-written universes aim at the cache mechanism (re-export chains, internal procedures cached by index, equal MAST
roots with different callsets, modules that fail half-way, import cycles); random universes widen the net.
`render` turns a universe into Miden assembly texts for the harness (asm-history)."""
import json, random


def op(k):
    return {"t": "op", "k": k}


def it(t, **kw):
    d = {"t": t}
    d.update(kw)
    return d


def proc(name, body, export=True, locals_=0):
    return {"name": name, "export": export, "locals": locals_, "body": body}


def mod(name, procs, reexp=()):
    return {"name": name, "lib": name.split("::")[0], "procs": list(procs), "reexp": [{"name": a, "fm": b, "fn": c} for a, b, c in reexp]}


def prog(body, procs=()):
    return {"procs": list(procs), "body": body}


def X(t, m, n):
    return it(t, m=m, n=n)


def hand_universes():
    us = []
    # 1 basic: exec / call of local and imported procedures, re-export, internal procedure cached by index, locals
    us.append({"mods": [
        mod("la::a", [proc("f", [op(1)]), proc("g", [op(2), it("loc", k=1)], export=False, locals_=2),
                      proc("h", [it("exec", i=1), it("call", i=2)])], reexp=[("r", "lb::b", "q")]),
        mod("lb::b", [proc("q", [op(3)])])],
        "kernel": [],
        "progs": [prog([X("xexec", "la::a", "h")]), prog([X("xcall", "la::a", "r")]),
                  prog([X("xref", "lb::b", "q"), op(4), it("exec", i=1)], [proc("z", [op(9)], export=False)])]})
    # 2 equal MAST roots, different callsets: A = procref.x dynexec dropw ; B = the same four literals
    us.append({"mods": [
        mod("lx::x", [proc("x", [op(5)])]),
        mod("la::a", [proc("pa", [X("xref", "lx::x", "x")])]),
        mod("lb::b", [proc("pb", [X("lit", "lx::x", "x")])])],
        "kernel": [],
        "progs": [prog([X("xexec", "lb::b", "pb")]), prog([X("xexec", "la::a", "pa")]), prog([X("xcall", "la::a", "pa")])]})
    # 3 a module that fails after its re-exports were processed
    us.append({"mods": [
        mod("la::a", [proc("bad", [X("xexec", "lz::none", "nothing")]), proc("good", [op(1)])], reexp=[("r", "lb::b", "q")]),
        mod("lb::b", [proc("q", [op(3)])])],
        "kernel": [],
        "progs": [prog([X("xexec", "la::a", "bad")]), prog([X("xexec", "la::a", "r")]), prog([X("xcall", "la::a", "good")])]})
    # 4 re-export chains and a diamond; re-export of a re-export; import of an internal name
    us.append({"mods": [
        mod("la::a", [proc("base", [op(1), it("call", i=0 + 1)] if False else [op(1)])], reexp=[]),
        mod("lb::b", [proc("mid", [X("xcall", "la::a", "base")])], reexp=[("r1", "la::a", "base")]),
        mod("lc::c", [proc("top", [X("xexec", "lb::b", "mid"), X("xexec", "lb::b", "r1")]), proc("hid", [op(7)], export=False)],
            reexp=[("r2", "lb::b", "r1")])],
        "kernel": [],
        "progs": [prog([X("xexec", "lc::c", "top")]), prog([X("xcall", "lc::c", "r2"), X("xcall", "la::a", "base")]),
                  prog([X("xexec", "lc::c", "hid")]), prog([X("xref", "lc::c", "r2")])]})
    # 5 kernel: syscalls, caller, forbidden uses
    us.append({"mods": [
        mod("la::a", [proc("u", [op(1), it("caller")]), proc("v", [op(2)])]),
        mod("la::b", [proc("w", [it("sys", n="k1")])]),
        mod("la::c", [proc("v", [op(3)])])],
        "kernel": [mod("#sys", [proc("k1", [op(11), it("caller")]), proc("k2", [op(12), X("xexec", "la::c", "v")]), proc("ki", [op(13)], export=False)])],
        "progs": [prog([it("sys", n="k1"), it("sys", n="k2")]), prog([it("sys", n="ki")]), prog([it("caller")]),
                  prog([X("xexec", "la::a", "u")]), prog([X("xcall", "la::b", "w"), it("sys", n="nope")]), prog([X("xexec", "la::b", "w")]), prog([X("xcall", "la::b", "w")])]})
    # 6 invalid sources: local index out of range, export in a program, import cycle
    us.append({"mods": [
        mod("la::a", [proc("f", [X("xexec", "lb::b", "g")])]),
        mod("lb::b", [proc("g", [X("xexec", "la::a", "f")]), proc("h", [op(1)])]),
        mod("lc::c", [proc("l0", [it("loc", k=0)]), proc("ok", [op(2)])]),
        mod("ld::d", [proc("l2", [it("loc", k=2)], locals_=2), proc("fine", [it("loc", k=1)], locals_=2)])],
        "kernel": [],
        "progs": [prog([X("xexec", "la::a", "f")]), prog([X("xexec", "lb::b", "h")]), prog([X("xexec", "lc::c", "ok")]),
                  prog([X("xexec", "ld::d", "fine")]), prog([op(1)], [proc("e", [op(2)], export=True)]),
                  prog([it("loc", k=0)]), prog([it("exec", i=1)], [proc("p", [it("loc", k=1)], export=False, locals_=1)])]})
    # 7 a kernel that itself is invalid (call inside the kernel)
    us.append({"mods": [mod("la::a", [proc("v", [op(2)])])],
               "kernel": [mod("#sys", [proc("k0", [op(1)], export=False), proc("k1", [it("call", i=1)])])],
               "progs": [prog([op(1)])]})
    # 8 equal bodies in different modules / local copies (same root reached in different ways), exec = pasted body
    us.append({"mods": [
        mod("la::a", [proc("f", [op(1), op(2)]), proc("g", [it("exec", i=1), op(3)])]),
        mod("lb::b", [proc("f2", [op(1), op(2)]), proc("g2", [op(1), op(2), op(3)]), proc("c", [X("xcall", "la::a", "f")])])],
        "kernel": [],
        "progs": [prog([X("xcall", "la::a", "g")]), prog([X("xcall", "lb::b", "g2")]), prog([X("xcall", "lb::b", "f2"), X("xexec", "lb::b", "c")]),
                  prog([it("call", i=1)], [proc("loc", [op(1), op(2), op(3)], export=False)])]})
    # 9 chains of non-inlined local references inside a library module (call -> call, procref -> call, call -> procref -> imported)
    us.append({"mods": [
        mod("lb::b", [proc("leaf", [op(4)])]),
        mod("la::a", [proc("r", [op(1)], export=False), proc("q", [it("call", i=1), op(2)], export=False), proc("p", [it("call", i=2)]),
                      proc("s", [it("ref", i=2)]), proc("t", [X("xcall", "lb::b", "leaf")], export=False), proc("v", [it("ref", i=5), op(3)], export=False),
                      proc("w", [it("call", i=6)]), proc("e", [it("exec", i=3), it("exec", i=7)])])],
        "kernel": [],
        "progs": [prog([X("xcall", "la::a", "p")]), prog([X("xexec", "la::a", "s")]), prog([X("xexec", "la::a", "w")]), prog([X("xref", "la::a", "e")]),
                  prog([it("call", i=3)], [proc("r", [op(1)], export=False), proc("q", [it("call", i=1)], export=False), proc("p", [it("ref", i=2)], export=False)])]})
    # 10 a wrapper around a procedure with locals has that procedure's MAST root (and no locals of its own)
    us.append({"mods": [
        mod("la::a", [proc("p", [op(1), it("loc", k=1)], locals_=2), proc("w", [it("exec", i=1)]), proc("w2", [it("exec", i=2)]), proc("c", [it("call", i=2)])]),
        mod("lb::b", [proc("v", [X("xexec", "la::a", "p")]), proc("u", [X("xcall", "la::a", "w2")], locals_=1)])],
        "kernel": [],
        "progs": [prog([X("xexec", "la::a", "w")]), prog([X("xcall", "la::a", "p")]), prog([X("xexec", "lb::b", "v"), X("xcall", "la::a", "c")]),
                  prog([X("xcall", "lb::b", "u")]), prog([it("call", i=2)], [proc("lp", [op(1), it("loc", k=0)], export=False, locals_=1), proc("lw", [it("exec", i=1)], export=False)])]})
    # 11 / 12 / 13 a kernel that imports from a library module which itself contains a call / a procref / a syscall
    # (every module loaded while a kernel is compiled is subject to the kernel's restrictions)
    for bad in ([it("call", i=1)], [it("ref", i=1)], [X("xcall", "lc::c", "leaf")]):
        us.append({"mods": [
            mod("lb::m", [proc("q", [op(1)]), proc("r", bad)]),
            mod("lc::c", [proc("leaf", [op(2)])])],
            "kernel": [mod("#sys", [proc("k1", [op(11), X("xexec", "lb::m", "q")])])],
            "progs": [prog([it("sys", n="k1")]), prog([X("xcall", "lb::m", "r")])]})
    # 14 a kernel that imports from a library module which uses `caller` (allowed in the kernel module only): the kernel is
    # invalid, whatever was compiled before; the same module is also rejected when a program imports it
    us.append({"mods": [
        mod("la::a", [proc("u", [op(1), it("caller")]), proc("v", [op(2)])]),
        mod("lc::c", [proc("leaf", [op(2)])])],
        "kernel": [mod("#sys", [proc("k1", [op(11), it("caller")]), proc("k2", [op(12), X("xexec", "la::a", "v")])])],
        "progs": [prog([it("sys", n="k1")]), prog([X("xexec", "la::a", "u")]), prog([X("xexec", "lc::c", "leaf")])]})
    # 15 private procedures that are targets of local call / procref / exec inside their module and are then imported from
    # outside (exec / call / procref / re-export): importing a non-exported procedure is an undefined reference, whatever
    # the module's own procedures did with it before
    us.append({"mods": [
        mod("la::a", [proc("helper", [op(1)], export=False), proc("pub1", [it("call", i=1)]), proc("pub2", [it("ref", i=1)]),
                      proc("priv2", [op(4)], export=False), proc("pub3", [it("exec", i=4)])]),
        mod("lb::b", [proc("x", [op(9)])], reexp=[("rh", "la::a", "helper")]),
        mod("lc::c", [proc("y", [X("xcall", "la::a", "helper")])])],
        "kernel": [],
        "progs": [prog([X("xexec", "la::a", "pub1")]), prog([X("xexec", "la::a", "helper")]), prog([X("xcall", "la::a", "helper")]),
                  prog([X("xref", "la::a", "helper")]), prog([X("xexec", "la::a", "pub2"), X("xcall", "la::a", "helper")]),
                  prog([X("xexec", "lb::b", "rh")]), prog([X("xexec", "lb::b", "x")]), prog([X("xexec", "la::a", "priv2")]),
                  prog([X("xexec", "la::a", "pub3"), X("xexec", "la::a", "priv2")]), prog([X("xexec", "lc::c", "y")])]})
    return us


def random_universe(rng, nmods=3, nprogs=4):
    """random but mostly valid universes (a few deliberate defects); literal roots only of procedures of modules that
    assemble on their own (the literal has to be computed from the target's root)"""
    libs = ["la", "lb", "lc"]
    mods = []
    exported = []   # (module, name, clean) of procedures that can be imported
    for mi in range(nmods):
        lib = libs[mi % len(libs)]
        name = "%s::m%d" % (lib, mi)
        procs, reexp = [], []
        clean = True
        if exported and rng.random() < 0.5:
            fm, fn, cl = rng.choice(exported)
            reexp.append(("re%d" % mi, fm, fn))
            clean = clean and cl
        for pi in range(rng.randrange(1, 5)):
            nl = rng.choice([0, 0, 2])
            body = []
            for _ in range(rng.randrange(1, 4)):
                x = rng.random()
                if x < 0.3 or (not procs and not exported):
                    body.append(op(rng.randrange(1, 6)))
                elif x < 0.6 and procs:
                    body.append(it(rng.choice(["exec", "call", "ref", "call"]), i=rng.randrange(1, len(procs) + 1)))
                elif exported:
                    fm, fn, cl = rng.choice(exported)
                    t = rng.choice(["xexec", "xcall", "xref", "xexec", "lit" if (cl and rng.random() < 0.3) else "xcall"])
                    body.append(X(t, fm, fn))
                    if t != "lit":
                        clean = clean and cl
                else:
                    body.append(op(rng.randrange(1, 6)))
                if nl and rng.random() < 0.3:
                    k = rng.randrange(0, nl + (1 if rng.random() < 0.1 else 0))
                    body.append(it("loc", k=k))
                    clean = clean and k < nl
            if rng.random() < 0.04:
                body.append(X("xexec", "lq::zz", "missing"))
                clean = False
            procs.append(proc("p%d_%d" % (mi, pi), body, export=rng.random() < 0.75, locals_=nl))
        mods.append(mod(name, procs, reexp))
        exported += [(name, p["name"], clean) for p in procs if p["export"]] + [(name, r[0], clean) for r in reexp]
    progs = []
    for _ in range(nprogs):
        body, lprocs = [], []
        if rng.random() < 0.4:
            lprocs.append(proc("lp", [op(rng.randrange(1, 6))] + ([X(rng.choice(["xcall", "xexec"]), *rng.choice(exported)[:2])] if exported else []), export=False))
        for _ in range(rng.randrange(1, 4)):
            x = rng.random()
            if x < 0.2:
                body.append(op(rng.randrange(1, 6)))
            elif x < 0.35 and lprocs:
                body.append(it(rng.choice(["exec", "call", "ref"]), i=1))
            elif exported:
                fm, fn, cl = rng.choice(exported)
                body.append(X(rng.choice(["xexec", "xcall", "xref", "lit" if (cl and rng.random() < 0.3) else "xexec"]), fm, fn))
        if not body:
            body = [op(1)]
        progs.append(prog(body, lprocs))
    return {"mods": mods, "kernel": [], "progs": progs}


# ---------------------------------------------------------------------------------------------------------------------
def render_items(items, modname, uses):
    out = []
    for x in items:
        t = x["t"]
        if t == "op":
            out.append("push.%d drop" % (100 + x["k"]))
        elif t == "loc":
            out.append("loc_load.%d drop" % x["k"])
        elif t == "caller":
            out.append("padw caller dropw")
        elif t in ("exec", "call"):
            out.append("%s.@L%d@" % (t, x["i"]))
        elif t == "ref":
            out.append("procref.@L%d@ dynexec dropw" % x["i"])
        elif t in ("xexec", "xcall", "xref"):
            uses.add(x["m"])
            short = x["m"].split("::")[-1]
            ins = {"xexec": "exec", "xcall": "call"}.get(t)
            if ins:
                out.append("%s.%s::%s" % (ins, short, x["n"]))
            else:
                out.append("procref.%s::%s dynexec dropw" % (short, x["n"]))
        elif t == "lit":
            out.append("push.{{ROOT:%s::%s}} dynexec dropw" % (x["m"], x["n"]))
        elif t == "sys":
            out.append("syscall.%s" % x["n"])
        else:
            raise ValueError(t)
    return out


def render_procs(procs, modname, uses, is_prog):
    txt = []
    for p in procs:
        body = render_items(p["body"], modname, uses)
        body = [b if "@L" not in b else _subst_local(b, procs) for b in body]
        head = ("export." if p["export"] else "proc.") + p["name"] + (".%d" % p["locals"] if p["locals"] else "")
        txt.append(head + "\n  " + "\n  ".join(body) + "\nend\n")
    return txt


def _subst_local(b, procs):
    import re
    def f(m):
        i = int(m.group(1))
        return procs[i - 1]["name"] if 1 <= i <= len(procs) else "undefined_local_%d" % i
    return re.sub(r"@L(\d+)@", f, b)


def render_module(m):
    uses = set()
    procs = render_procs(m["procs"], m["name"], uses, False)
    for r in m["reexp"]:
        uses.add(r["fm"])
    head = "".join("use.%s\n" % u for u in sorted(uses))
    rex = "".join("export.%s::%s->%s\n" % (r["fm"].split("::")[-1], r["fn"], r["name"]) for r in m["reexp"])
    return head + rex + "".join(procs)


def render_program(p):
    uses = set()
    procs = render_procs(p["procs"], "#exec", uses, True)
    body = render_items(p["body"], "#exec", uses)
    body = [b if "@L" not in b else _subst_local(b, p["procs"]) for b in body]
    return "".join("use.%s\n" % u for u in sorted(uses)) + "".join(procs) + "begin\n  " + "\n  ".join(body) + "\nend\n"


def render(u):
    """-> {"libs": {lib: [{"path", "src"}]}, "kernel": src | None, "progs": [src]}"""
    libs = {}
    for m in u["mods"]:
        libs.setdefault(m["lib"], []).append({"path": m["name"], "src": render_module(m)})
    k = render_module(u["kernel"][0]) if u["kernel"] else None
    return {"libs": libs, "kernel": k, "progs": [render_program(p) for p in u["progs"]]}


if __name__ == "__main__":
    import sys
    us = hand_universes()
    for u in us:
        print(json.dumps(render(u), indent=1))
