#!/bin/bash
# confirm_seeded.sh <tag> <worktree> <outdir> <demo-crate-dir> <cargo -p package>
# Confirms a seeded change: (1) demo fails with the patch, (2) existing suite passes with the patch,
# (3) demo passes without the patch. Writes <outdir>/confirm.log and copies the result into /verif/seeded/<tag>/.
set -u
TAG=$1; WT=$2; OUT=$3; DEMODIR=$4; PKG=$5
LOG=$OUT/confirm.log
cd "$WT" || exit 2
{
echo "== confirm $TAG $(date -u +%FT%TZ)"
git checkout -q -- . ; git clean -fdq -- . ':!target' ':!_out'
git apply "$OUT/patch.diff" || { echo "PATCH DOES NOT APPLY"; exit 1; }
mkdir -p "$DEMODIR/tests"; cp "$OUT/verif_demo.rs" "$DEMODIR/tests/verif_demo.rs"
echo "-- demo WITH patch (expect failure)"
cargo test --offline -p "$PKG" --test verif_demo 2>&1 | tail -8
echo "demo_with_patch_exit=${PIPESTATUS[0]}"
rm -f "$DEMODIR/tests/verif_demo.rs"
echo "-- suite WITH patch (expect 785 passed)"
cargo nextest run --workspace --no-fail-fast --offline --test-threads 6 2>&1 | tail -4
echo "suite_exit=${PIPESTATUS[0]}"
git checkout -q -- .
cp "$OUT/verif_demo.rs" "$DEMODIR/tests/verif_demo.rs"
echo "-- demo WITHOUT patch (expect pass)"
cargo test --offline -p "$PKG" --test verif_demo 2>&1 | tail -5
echo "demo_without_patch_exit=${PIPESTATUS[0]}"
rm -f "$DEMODIR/tests/verif_demo.rs"
} > "$LOG" 2>&1
grep -E "_exit=" "$LOG"
