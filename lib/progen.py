"""Seeded random generator of Miden assembly programs that execute successfully by construction.

A program is a sequence of *balanced statements*: every statement pushes its own operands of the right kind,
applies one or more instructions and consumes its results (drop / store / fold into an accumulator), so the shape of
the stack below is never disturbed.  Statements talk to each other through memory, procedure locals and a few
accumulators kept on the stack.  Feature classes select which statement kinds are used (C01/C03/C07/C12/C13 drivers).
"""
import random

P = 2**64 - 2**32 + 1
BOUND_F = [0, 1, 2, 2**16, 2**31, 2**32 - 1, 2**32, 2**32 + 1, P - 1]
BOUND_U = [0, 1, 2, 2**16, 2**31, 2**32 - 1]


class Gen:
    def __init__(self, seed, features=None):
        self.r = random.Random(seed)
        self.features = features or {"arith", "u32", "stack", "mem", "flow", "calls", "crypto"}
        self.procs = []      # (name, locals, body)
        self.kernel = []     # (name, body)
        self.addrs = [0, 1, 2, 3, 7, 100, 2**16, 2**32 - 3, 2**32 - 1]
        self.depth_budget = 3
        self.loop_id = 0

    # ---- values
    def felt(self):
        return self.r.choice(BOUND_F) if self.r.random() < 0.4 else self.r.randrange(P)

    def u32(self):
        return self.r.choice(BOUND_U) if self.r.random() < 0.4 else self.r.randrange(2**32)

    def nz(self):
        v = self.felt()
        return v if v else 1

    def addr(self):
        return self.r.choice(self.addrs)

    # ---- balanced statements (net stack effect zero, never reach below their own operands except accumulators)
    def st_arith(self):
        r = self.r
        k = r.randrange(12)
        a, b = self.felt(), self.felt()
        if k == 0:
            return ["push.%d push.%d %s drop" % (a, b, r.choice(["add", "sub", "mul", "eq", "neq"]))]
        if k == 1:
            return ["push.%d push.%d div drop" % (a, self.nz())]
        if k == 2:
            return ["push.%d %s drop" % (self.nz(), r.choice(["inv", "neg"]))]
        if k == 3:
            return ["push.%d push.%d %s drop" % (a, b, r.choice(["lt", "lte", "gt", "gte"]))]
        if k == 4:
            return ["push.%d %s drop" % (a, r.choice(["is_odd", "neg", "u32test drop", "ilog2" if a else "neg"]))]
        if k == 5:
            return ["push.%d push.%d %s drop" % (r.randrange(2), r.randrange(2), r.choice(["and", "or", "xor"]))]
        if k == 6:
            return ["push.%d not drop" % r.randrange(2)]
        if k == 7:
            return ["push.%d push.%d push.%d push.%d %s drop drop" % (a, b, self.felt(), self.felt(), r.choice(["ext2add", "ext2sub", "ext2mul"]))]
        if k == 8:
            return ["push.%d push.%d ext2inv drop drop" % (self.nz(), a)]
        if k == 9:
            return ["push.%d %s drop" % (a, r.choice(["add.%d" % b, "mul.%d" % b, "sub.%d" % b, "eq.%d" % b, "exp.%d" % r.choice([0, 1, 2, 5, 8, 255])]))]
        if k == 10:
            return ["push.%d pow2 drop" % r.randrange(64)]
        # accumulator update (position 0 is the accumulator while at top level of a statement list)
        return [r.choice(["push.%d add" % a, "push.%d mul" % self.nz(), "dup.0 mul", "neg", "push.%d sub" % a, "dup.0 add"])]

    def st_u32(self):
        r = self.r
        a, b, c = self.u32(), self.u32(), self.u32()
        k = r.randrange(10)
        if k == 0:
            return ["push.%d push.%d %s drop" % (a, b, r.choice(["u32wrapping_add", "u32wrapping_sub", "u32wrapping_mul", "u32and", "u32or", "u32xor",
                                                               "u32lt", "u32lte", "u32gt", "u32gte", "u32min", "u32max"]))]
        if k == 1:
            return ["push.%d push.%d %s drop drop" % (a, b, r.choice(["u32overflowing_add", "u32overflowing_sub", "u32overflowing_mul"]))]
        if k == 2:
            return ["push.%d push.%d push.%d %s drop drop" % (a, b, c, r.choice(["u32overflowing_add3", "u32overflowing_madd"]))]
        if k == 3:
            return ["push.%d push.%d push.%d %s drop" % (a, b, c, r.choice(["u32wrapping_add3", "u32wrapping_madd"]))]
        if k == 4:
            return ["push.%d push.%d %s drop" % (a, b or 1, r.choice(["u32div", "u32mod"]))]
        if k == 5:
            return ["push.%d push.%d u32divmod drop drop" % (a, b or 1)]
        if k == 6:
            return ["push.%d %s.%d drop" % (a, r.choice(["u32shl", "u32shr", "u32rotl", "u32rotr"]), r.randrange(32))]
        if k == 7:
            return ["push.%d %s drop" % (a, r.choice(["u32not", "u32popcnt", "u32clz", "u32ctz", "u32clo", "u32cto", "u32cast", "u32assert"]))]
        if k == 8:
            return ["push.%d u32split drop drop" % self.felt()]
        return ["push.%d push.%d u32assert2 push.%d %s drop drop" % (a, b, r.randrange(32), r.choice(["u32shl", "u32shr", "u32rotl", "u32rotr"]))]

    def st_stack(self):
        r = self.r
        k = r.randrange(8)
        vals = [self.felt() for _ in range(4)]
        if k == 0:
            n = r.randrange(16)
            return ["dup.%d drop" % n]
        if k == 1:
            n = r.randrange(1, 16)
            return ["swap.%d swap.%d" % (n, n)]
        if k == 2:
            n = r.randrange(2, 16)
            return ["movup.%d movdn.%d" % (n, n)]
        if k == 3:
            n = r.randrange(1, 4)
            return ["swapw.%d swapw.%d" % (n, n)] if r.random() < 0.7 else ["swapdw swapdw"]
        if k == 4:
            n = r.randrange(2, 4)
            return ["movupw.%d movdnw.%d" % (n, n)]
        if k == 5:
            return ["push.%d push.%d push.%d %s drop" % (vals[0], vals[1], r.randrange(2), "cdrop")] if r.random() < 0.5 else \
                   ["push.%d push.%d push.%d cswap drop drop" % (vals[0], vals[1], r.randrange(2))]
        if k == 6:
            return ["dupw.%d dropw" % r.randrange(4), "padw dropw"]
        return ["sdepth drop", "clk drop"]

    def st_mem(self, in_proc_locals=0):
        r = self.r
        a = self.addr()
        k = r.randrange(9)
        v = [self.felt() for _ in range(4)]
        if k == 0:
            return ["push.%d mem_store.%d" % (v[0], a)] if a < 2**32 else []
        if k == 1:
            return ["mem_load.%d drop" % a]
        if k == 2:
            return ["push.%d.%d.%d.%d mem_storew.%d dropw" % (v[0], v[1], v[2], v[3], a)]
        if k == 3:
            return ["padw mem_loadw.%d dropw" % a]
        if k == 4:
            return ["push.%d push.%d mem_store drop" % (v[0], a)] if False else ["push.%d push.%d mem_store" % (v[0], a)]
        if k == 5:
            a2 = min(a, 2**32 - 2)
            return ["push.%d padw padw padw mem_stream dropw dropw dropw drop" % a2]
        if k == 6 and in_proc_locals:
            i = r.randrange(in_proc_locals)
            return ["push.%d loc_store.%d loc_load.%d drop" % (v[0], i, i)]
        if k == 7 and in_proc_locals:
            i = r.randrange(in_proc_locals)
            return ["push.%d.%d.%d.%d loc_storew.%d dropw padw loc_loadw.%d dropw locaddr.%d drop" % (v[0], v[1], v[2], v[3], i, i, i)]
        return ["push.%d mem_load add" % a]   # folds memory into the accumulator

    def st_crypto(self):
        r = self.r
        v = [self.felt() for _ in range(12)]
        k = r.randrange(4)
        if k == 0:
            return ["push.%s hperm dropw dropw dropw" % ".".join(map(str, v[:4])) + "".join("" for _ in range(0))] if False else \
                   ["push.%s push.%s push.%s hperm dropw dropw dropw" % (".".join(map(str, v[:4])), ".".join(map(str, v[4:8])), ".".join(map(str, v[8:])))]
        if k == 1:
            return ["push.%s push.%s hmerge dropw" % (".".join(map(str, v[:4])), ".".join(map(str, v[4:8])))]
        if k == 2:
            return ["push.%s hash dropw" % ".".join(map(str, v[:4]))]
        return ["push.%s push.%s hmerge mem_storew.%d dropw" % (".".join(map(str, v[:4])), ".".join(map(str, v[4:8])), self.addr())]

    def statements(self, n, locals_=0, depth=0):
        out = []
        kinds = []
        for f, fn in (("arith", self.st_arith), ("u32", self.st_u32), ("stack", self.st_stack), ("crypto", self.st_crypto)):
            if f in self.features:
                kinds.append(fn)
        if "mem" in self.features:
            kinds.append(lambda: self.st_mem(locals_))
        for _ in range(n):
            x = self.r.random()
            if "flow" in self.features and depth < self.depth_budget and x < 0.12:
                out += self.st_flow(locals_, depth)
            elif "calls" in self.features and depth < self.depth_budget and x < 0.22 and self.procs:
                out += self.st_call()
            else:
                out += self.r.choice(kinds)()
        return out

    def st_flow(self, locals_, depth):
        r = self.r
        k = r.randrange(4)
        body = self.statements(r.randrange(1, 4), locals_, depth + 1)
        body2 = self.statements(r.randrange(1, 3), locals_, depth + 1)
        if k == 0:
            return ["push.%d if.true" % r.randrange(2)] + body + ["else"] + body2 + ["end"]
        if k == 1:
            return ["push.%d push.%d lt if.true" % (self.felt(), self.felt())] + body + ["end"]
        if k == 2:
            return ["repeat.%d" % r.randrange(1, 4)] + body + ["end"]
        n = r.randrange(0, 4)
        # counter loop: the counter lives in memory (one address per loop in the text, so nested loops and loops in
        # exec-ed procedures never share a counter)
        self.loop_id += 1
        c = 1000 + self.loop_id
        return ["push.%d mem_store.%d" % (n, c), "mem_load.%d neq.0 while.true" % c] + body + ["mem_load.%d sub.1 dup.0 mem_store.%d neq.0" % (c, c), "end"]

    def st_call(self):
        r = self.r
        name, nl, _ = r.choice(self.procs)
        k = r.randrange(6)
        if k == 0:
            return ["exec.%s" % name]
        if k == 1:
            return ["call.%s" % name]
        if k == 2 and self.kernel:
            return ["syscall.%s" % r.choice(self.kernel)[0]]
        if k == 3:
            return ["procref.%s dynexec dropw" % name]
        if k == 4:
            return ["procref.%s dyncall dropw" % name]
        return ["procref.%s dropw" % name]

    def program(self, nstmts=12, inputs=None, with_kernel=None):
        r = self.r
        nproc = r.randrange(0, 4) if "calls" in self.features else 0
        use_kernel = with_kernel if with_kernel is not None else ("calls" in self.features and r.random() < 0.5)
        feats = self.features
        if use_kernel:
            # kernel procedures may not call / syscall
            self.features = feats - {"calls"}
            for i in range(r.randrange(1, 3)):
                nl = r.choice([0, 2])
                body = self.statements(r.randrange(1, 4), nl, 2)
                if r.random() < 0.6:
                    body = ["padw caller dropw"] + body
                self.kernel.append(("k%d" % i, nl, body))
            self.features = feats
        for i in range(nproc):
            nl = r.choice([0, 0, 1, 3])
            self.procs.append(("p%d" % i, nl, self.statements(r.randrange(1, 5), nl, 1)))
        main = self.statements(nstmts, 0, 0)
        tail = []
        if r.random() < 0.3:
            tail = ["push.%d" % self.felt() for _ in range(r.randrange(1, 6))]     # deeper outputs
        ktext = None
        if use_kernel:
            ktext = "\n".join("export.%s%s\n  %s\nend" % (n, ".%d" % nl if nl else "", "\n  ".join(b)) for n, nl, b in self.kernel) + "\n"
        ptext = "".join("proc.%s%s\n  %s\nend\n" % (n, ".%d" % nl if nl else "", "\n  ".join(b)) for n, nl, b in self.procs)
        src = ptext + "begin\n  " + "\n  ".join(main + tail) + "\nend\n"
        if inputs is None:
            d = r.choice([0, 3, 16, 17, 24, 40])
            inputs = [self.felt() for _ in range(d)]
        return {"src": src, "kernel": ktext, "inputs": inputs, "adv": []}


FEATURE_CLASSES = {
    "arith": {"arith"}, "u32": {"u32"}, "stack": {"stack", "arith"}, "mem": {"mem", "arith"}, "flow": {"flow", "arith", "u32"},
    "calls": {"calls", "arith", "mem"}, "crypto": {"crypto", "mem"}, "mixed": {"arith", "u32", "stack", "mem", "flow", "calls", "crypto"},
}


def corpus(seed, n, classes=None, nstmts=12):
    out = []
    classes = classes or list(FEATURE_CLASSES)
    for i in range(n):
        cl = classes[i % len(classes)]
        g = Gen(seed * 100003 + i, set(FEATURE_CLASSES[cl]))
        p = g.program(nstmts=nstmts)
        p["class"] = cl
        out.append(p)
    return out
