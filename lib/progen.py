"""Seeded random generator of Miden assembly programs that execute successfully by construction.

A program is a sequence of *balanced statements*: every statement pushes its own operands of the right kind,
applies one or more instructions and consumes its results (drop / store / fold into an accumulator), so the shape of
the stack below is never disturbed.  Statements talk to each other through memory, procedure locals and a few
accumulators kept on the stack.  Feature classes select which statement kinds are used (C01/C03/C07/C12/C13 drivers).
"""
import random

P = 2**64 - 2**32 + 1
BOUND_F = [0, 1, 2, 2**16, 2**31, 2**32 - 1, 2**32, 2**32 + 1, P - 1]
BOUND_U = [0, 1, 2, 2**16, 2**31, 2**32 - 1]


class Gen:
    def __init__(self, seed, features=None):
        self.r = random.Random(seed)
        self.features = features or {"arith", "u32", "stack", "mem", "flow", "calls", "crypto"}
        self.procs = []      # (name, locals, body)
        self.kernel = []     # (name, body)
        self.addrs = [0, 1, 2, 3, 7, 100, 2**16, 2**32 - 3, 2**32 - 1]
        self.depth_budget = 3
        self.loop_id = 0

    # ---- values
    def felt(self):
        return self.r.choice(BOUND_F) if self.r.random() < 0.4 else self.r.randrange(P)

    def u32(self):
        return self.r.choice(BOUND_U) if self.r.random() < 0.4 else self.r.randrange(2**32)

    def nz(self):
        v = self.felt()
        return v if v else 1

    def addr(self):
        return self.r.choice(self.addrs)

    # ---- balanced statements (net stack effect zero, never reach below their own operands except accumulators)
    def st_arith(self):
        r = self.r
        k = r.randrange(12)
        a, b = self.felt(), self.felt()
        if k == 0:
            return ["push.%d push.%d %s drop" % (a, b, r.choice(["add", "sub", "mul", "eq", "neq"]))]
        if k == 1:
            return ["push.%d push.%d div drop" % (a, self.nz())]
        if k == 2:
            return ["push.%d %s drop" % (self.nz(), r.choice(["inv", "neg"]))]
        if k == 3:
            return ["push.%d push.%d %s drop" % (a, b, r.choice(["lt", "lte", "gt", "gte"]))]
        if k == 4:
            return ["push.%d %s drop" % (a, r.choice(["is_odd", "neg", "u32test drop", "ilog2" if a else "neg"]))]
        if k == 5:
            return ["push.%d push.%d %s drop" % (r.randrange(2), r.randrange(2), r.choice(["and", "or", "xor"]))]
        if k == 6:
            return ["push.%d not drop" % r.randrange(2)]
        if k == 7:
            return ["push.%d push.%d push.%d push.%d %s drop drop" % (a, b, self.felt(), self.felt(), r.choice(["ext2add", "ext2sub", "ext2mul"]))]
        if k == 8:
            return ["push.%d push.%d ext2inv drop drop" % (self.nz(), a)]
        if k == 9:
            return ["push.%d %s drop" % (a, r.choice(["add.%d" % b, "mul.%d" % b, "sub.%d" % b, "eq.%d" % b, "exp.%d" % r.choice([0, 1, 2, 5, 8, 255])]))]
        if k == 10:
            return ["push.%d pow2 drop" % r.randrange(64)]
        # accumulator update (position 0 is the accumulator while at top level of a statement list)
        return [r.choice(["push.%d add" % a, "push.%d mul" % self.nz(), "dup.0 mul", "neg", "push.%d sub" % a, "dup.0 add"])]

    def st_u32(self):
        r = self.r
        a, b, c = self.u32(), self.u32(), self.u32()
        k = r.randrange(10)
        if k == 0:
            return ["push.%d push.%d %s drop" % (a, b, r.choice(["u32wrapping_add", "u32wrapping_sub", "u32wrapping_mul", "u32and", "u32or", "u32xor",
                                                               "u32lt", "u32lte", "u32gt", "u32gte", "u32min", "u32max"]))]
        if k == 1:
            return ["push.%d push.%d %s drop drop" % (a, b, r.choice(["u32overflowing_add", "u32overflowing_sub", "u32overflowing_mul"]))]
        if k == 2:
            return ["push.%d push.%d push.%d %s drop drop" % (a, b, c, r.choice(["u32overflowing_add3", "u32overflowing_madd"]))]
        if k == 3:
            return ["push.%d push.%d push.%d %s drop" % (a, b, c, r.choice(["u32wrapping_add3", "u32wrapping_madd"]))]
        if k == 4:
            return ["push.%d push.%d %s drop" % (a, b or 1, r.choice(["u32div", "u32mod"]))]
        if k == 5:
            return ["push.%d push.%d u32divmod drop drop" % (a, b or 1)]
        if k == 6:
            return ["push.%d %s.%d drop" % (a, r.choice(["u32shl", "u32shr", "u32rotl", "u32rotr"]), r.randrange(32))]
        if k == 7:
            return ["push.%d %s drop" % (a, r.choice(["u32not", "u32popcnt", "u32clz", "u32ctz", "u32clo", "u32cto", "u32cast", "u32assert"]))]
        if k == 8:
            return ["push.%d u32split drop drop" % self.felt()]
        return ["push.%d push.%d u32assert2 push.%d %s drop drop" % (a, b, r.randrange(32), r.choice(["u32shl", "u32shr", "u32rotl", "u32rotr"]))]

    def st_stack(self):
        r = self.r
        k = r.randrange(8)
        vals = [self.felt() for _ in range(4)]
        if k == 0:
            n = r.randrange(16)
            return ["dup.%d drop" % n]
        if k == 1:
            n = r.randrange(1, 16)
            return ["swap.%d swap.%d" % (n, n)]
        if k == 2:
            n = r.randrange(2, 16)
            return ["movup.%d movdn.%d" % (n, n)]
        if k == 3:
            n = r.randrange(1, 4)
            return ["swapw.%d swapw.%d" % (n, n)] if r.random() < 0.7 else ["swapdw swapdw"]
        if k == 4:
            n = r.randrange(2, 4)
            return ["movupw.%d movdnw.%d" % (n, n)]
        if k == 5:
            return ["push.%d push.%d push.%d %s drop" % (vals[0], vals[1], r.randrange(2), "cdrop")] if r.random() < 0.5 else \
                   ["push.%d push.%d push.%d cswap drop drop" % (vals[0], vals[1], r.randrange(2))]
        if k == 6:
            return ["dupw.%d dropw" % r.randrange(4), "padw dropw"]
        return ["sdepth drop", "clk drop"]

    def st_mem(self, in_proc_locals=0):
        r = self.r
        a = self.addr()
        k = r.randrange(9)
        v = [self.felt() for _ in range(4)]
        if k == 0:
            return ["push.%d mem_store.%d" % (v[0], a)] if a < 2**32 else []
        if k == 1:
            return ["mem_load.%d drop" % a]
        if k == 2:
            return ["push.%d.%d.%d.%d mem_storew.%d dropw" % (v[0], v[1], v[2], v[3], a)]
        if k == 3:
            return ["padw mem_loadw.%d dropw" % a]
        if k == 4:
            return ["push.%d push.%d mem_store drop" % (v[0], a)] if False else ["push.%d push.%d mem_store" % (v[0], a)]
        if k == 5:
            a2 = min(a, 2**32 - 2)
            return ["push.%d padw padw padw mem_stream dropw dropw dropw drop" % a2]
        if k == 6 and in_proc_locals:
            i = r.randrange(in_proc_locals)
            return ["push.%d loc_store.%d loc_load.%d drop" % (v[0], i, i)]
        if k == 7 and in_proc_locals:
            i = r.randrange(in_proc_locals)
            return ["push.%d.%d.%d.%d loc_storew.%d dropw padw loc_loadw.%d dropw locaddr.%d drop" % (v[0], v[1], v[2], v[3], i, i, i)]
        return ["push.%d mem_load add" % a]   # folds memory into the accumulator

    def st_crypto(self):
        r = self.r
        v = [self.felt() for _ in range(12)]
        k = r.randrange(4)
        if k == 0:
            return ["push.%s hperm dropw dropw dropw" % ".".join(map(str, v[:4])) + "".join("" for _ in range(0))] if False else \
                   ["push.%s push.%s push.%s hperm dropw dropw dropw" % (".".join(map(str, v[:4])), ".".join(map(str, v[4:8])), ".".join(map(str, v[8:])))]
        if k == 1:
            return ["push.%s push.%s hmerge dropw" % (".".join(map(str, v[:4])), ".".join(map(str, v[4:8])))]
        if k == 2:
            return ["push.%s hash dropw" % ".".join(map(str, v[:4]))]
        return ["push.%s push.%s hmerge mem_storew.%d dropw" % (".".join(map(str, v[:4])), ".".join(map(str, v[4:8])), self.addr())]

    def statements(self, n, locals_=0, depth=0):
        out = []
        kinds = []
        for f, fn in (("arith", self.st_arith), ("u32", self.st_u32), ("stack", self.st_stack), ("crypto", self.st_crypto)):
            if f in self.features:
                kinds.append(fn)
        if "mem" in self.features:
            kinds.append(lambda: self.st_mem(locals_))
        for _ in range(n):
            x = self.r.random()
            if "flow" in self.features and depth < self.depth_budget and x < 0.12:
                out += self.st_flow(locals_, depth)
            elif "calls" in self.features and depth < self.depth_budget and x < 0.22 and self.procs:
                out += self.st_call()
            else:
                out += self.r.choice(kinds)()
        return out

    def st_flow(self, locals_, depth):
        r = self.r
        k = r.randrange(4)
        body = self.statements(r.randrange(1, 4), locals_, depth + 1)
        body2 = self.statements(r.randrange(1, 3), locals_, depth + 1)
        if k == 0:
            return ["push.%d if.true" % r.randrange(2)] + body + ["else"] + body2 + ["end"]
        if k == 1:
            return ["push.%d push.%d lt if.true" % (self.felt(), self.felt())] + body + ["end"]
        if k == 2:
            return ["repeat.%d" % r.randrange(1, 4)] + body + ["end"]
        n = r.randrange(0, 4)
        # counter loop: the counter lives in memory (one address per loop in the text, so nested loops and loops in
        # exec-ed procedures never share a counter)
        self.loop_id += 1
        c = 1000 + self.loop_id
        return ["push.%d mem_store.%d" % (n, c), "mem_load.%d neq.0 while.true" % c] + body + ["mem_load.%d sub.1 dup.0 mem_store.%d neq.0" % (c, c), "end"]

    def st_call(self):
        r = self.r
        name, nl, _ = r.choice(self.procs)
        k = r.randrange(6)
        if k == 0:
            return ["exec.%s" % name]
        if k == 1:
            return ["call.%s" % name]
        if k == 2 and self.kernel:
            return ["syscall.%s" % r.choice(self.kernel)[0]]
        if k == 3:
            return ["procref.%s dynexec dropw" % name]
        if k == 4:
            return ["procref.%s dyncall dropw" % name]
        return ["procref.%s dropw" % name]

    def program(self, nstmts=12, inputs=None, with_kernel=None):
        r = self.r
        nproc = r.randrange(0, 4) if "calls" in self.features else 0
        use_kernel = with_kernel if with_kernel is not None else ("calls" in self.features and r.random() < 0.5)
        feats = self.features
        if use_kernel:
            # kernel procedures may not call / syscall
            self.features = feats - {"calls"}
            for i in range(r.randrange(1, 3)):
                nl = r.choice([0, 2])
                body = self.statements(r.randrange(1, 4), nl, 2)
                if r.random() < 0.6:
                    body = ["padw caller dropw"] + body
                self.kernel.append(("k%d" % i, nl, body))
            self.features = feats
        for i in range(nproc):
            nl = r.choice([0, 0, 1, 3])
            self.procs.append(("p%d" % i, nl, self.statements(r.randrange(1, 5), nl, 1)))
        main = self.statements(nstmts, 0, 0)
        tail = []
        if r.random() < 0.3:
            tail = ["push.%d" % self.felt() for _ in range(r.randrange(1, 6))]     # deeper outputs
        ktext = None
        if use_kernel:
            ktext = "\n".join("export.%s%s\n  %s\nend" % (n, ".%d" % nl if nl else "", "\n  ".join(b)) for n, nl, b in self.kernel) + "\n"
        ptext = "".join("proc.%s%s\n  %s\nend\n" % (n, ".%d" % nl if nl else "", "\n  ".join(b)) for n, nl, b in self.procs)
        src = ptext + "begin\n  " + "\n  ".join(main + tail) + "\nend\n"
        if inputs is None:
            d = r.choice([0, 3, 16, 17, 24, 40])
            inputs = [self.felt() for _ in range(d)]
        return {"src": src, "kernel": ktext, "inputs": inputs, "adv": []}


FEATURE_CLASSES = {
    "arith": {"arith"}, "u32": {"u32"}, "stack": {"stack", "arith"}, "mem": {"mem", "arith"}, "flow": {"flow", "arith", "u32"},
    "calls": {"calls", "arith", "mem"}, "crypto": {"crypto", "mem"}, "mixed": {"arith", "u32", "stack", "mem", "flow", "calls", "crypto"},
}


def corpus(seed, n, classes=None, nstmts=12):
    out = []
    classes = classes or list(FEATURE_CLASSES)
    for i in range(n):
        cl = classes[i % len(classes)]
        g = Gen(seed * 100003 + i, set(FEATURE_CLASSES[cl]))
        p = g.program(nstmts=nstmts)
        p["class"] = cl
        out.append(p)
    return out


# ---------------------------------------------------------------------------------------------------------------------
# every operation kind in every stack-depth regime: one program per (group of balanced snippets, base depth)
SWEEP_KERNEL = "export.k0\n  push.5 mem_store.9 padw caller dropw\nend\nexport.k1.2\n  push.1 loc_store.0 loc_load.1 drop\nend\n"
SWEEP_PROCS = ("proc.leaf\n  push.3 drop\nend\nproc.withloc.2\n  push.7 loc_store.1 loc_load.1 drop padw loc_storew.0 loc_loadw.0 dropw\nend\n"
               "proc.nest\n  call.leaf exec.withloc syscall.k1\nend\nproc.deepuse\n  push.1 push.2 push.3 movup.2 drop drop drop\nend\n"
               # nested transfers of control made while the intermediate context holds more than 16 elements
               "proc.deepnest\n  push.1 push.2 call.leaf syscall.k0 procref.leaf dyncall dropw sdepth drop drop drop\nend\n")
SWEEP = {
    "control": ["call.deepnest", "call.leaf", "syscall.k0", "procref.leaf dyncall dropw", "procref.leaf dynexec dropw", "exec.withloc", "call.withloc", "call.nest",
                "syscall.k1", "call.deepuse", "procref.nest dyncall dropw",
                "push.1 if.true call.leaf else push.2 drop end", "push.0 if.true push.2 drop else syscall.k0 end", "push.0 if.true push.2 drop end",
                "push.1 while.true push.0 end", "push.0 while.true push.0 end", "push.1 push.1 push.0 movdn.2 while.true call.leaf end", "repeat.3 push.1 drop end",
                "push.1 if.true push.1 while.true push.0 end else call.leaf end"],
    "stack": ["push.0 drop", "push.9 drop", "dup.0 drop", "dup.7 drop", "dup.15 drop", "padw dropw", "dupw.3 dropw", "swap swap", "swap.15 swap.15", "swapw swapw", "swapw.3 swapw.3",
              "swapdw swapdw", "movup.2 movdn.2", "movup.15 movdn.15", "movupw.3 movdnw.3", "push.1 cswap", "push.0 cswap", "push.1 cswapw", "push.0 cswapw",
              "push.1 push.2 push.1 cdrop drop", "padw push.1 cdropw drop drop drop drop" if False else "padw padw push.1 cdropw dropw", "sdepth drop", "clk drop",
              "push.1 push.2 push.3 push.4 push.5 push.6 push.7 push.8 dropw dropw", "dup.15 dup.15 dup.15 drop drop drop"],
    "memory": ["push.5 mem_store.3", "mem_load.3 drop", "push.1.2.3.4 mem_storew.7 dropw", "padw mem_loadw.7 dropw", "push.4 push.100 mem_store", "push.100 mem_load drop",
               "padw push.100 mem_loadw dropw", "push.1.2.3.4 push.101 mem_storew dropw", "push.7 padw padw padw mem_stream dropw dropw dropw drop",
               "push.4294967295 mem_load drop", "push.8 mem_store.4294967295", "push.1.2.3.4 push.5.6.7.8 push.9.10.11.12 hperm dropw dropw dropw",
               "push.1.2.3.4 push.5.6.7.8 hmerge dropw", "push.1.2.3.4 hash dropw", "locaddr_free",
               "push.1.2.3.4 mem_storew.50 dropw push.5.6.0.0 mem_storew.60 dropw push.9 push.60 push.50 push.40 push.7.8.9.10 push.11.12.13.14.15.16.17.18 rcomb_base rcomb_base dropw dropw dropw dropw"],
    "arith": ["push.3 push.4 add drop", "push.3 push.4 mul drop", "push.3 neg drop", "push.3 inv drop", "push.3 push.3 eq drop", "push.0 eq.0 drop", "push.1 push.0 and drop",
              "push.1 push.0 or drop", "push.1 not drop", "push.5 push.3 exp drop", "push.3 exp.5 drop", "push.7 pow2 drop", "push.1.2 push.3.4 ext2mul drop drop", "push.3 push.9 ext2inv drop drop",
              "push.4294967295 push.1 u32overflowing_add drop drop", "push.5 push.6 push.7 u32overflowing_add3 drop drop", "push.1 push.2 u32overflowing_sub drop drop",
              "push.4294967295 push.4294967295 u32overflowing_mul drop drop", "push.3 push.4 push.5 u32overflowing_madd drop drop", "push.17 push.5 u32divmod drop drop",
              "push.12 push.10 u32and drop", "push.12 push.10 u32xor drop", "push.12 push.10 u32or drop", "push.5 u32not drop", "push.18446744069414584320 u32split drop drop",
              "push.5 push.6 u32assert2 drop drop", "push.1 u32shl.31 drop", "push.8 u32shr.3 drop", "push.8 u32rotl.5 drop", "push.8 u32popcnt drop", "push.8 u32clz drop",
              "push.8 u32ctz drop", "push.9 u32clo drop", "push.9 u32cto drop", "push.5 push.6 u32lt drop", "push.5 push.6 u32min drop", "push.5 push.6 lt drop", "push.5 push.6 gte drop",
              "push.9 is_odd drop", "push.9 ilog2 drop", "push.1 assert", "push.0 assertz", "push.2 push.2 assert_eq", "push.1.2.3.4 push.1.2.3.4 eqw drop dropw dropw"],
}


def depth_sweep(depths=(0, 17, 18, 24), groups=None, rng_seed=0):
    """programs executing every snippet of a group at base stack depth d (each snippet is stack-neutral)"""
    r = random.Random(rng_seed)
    out = []
    for g in (groups or list(SWEEP)):
        for d in depths:
            body = [s for s in SWEEP[g] if s != "locaddr_free"]
            src = SWEEP_PROCS + "begin\n  " + "\n  ".join(body) + "\nend\n"
            inputs = [r.choice(BOUND_F) if r.random() < 0.5 else r.randrange(P) for _ in range(d)]
            out.append({"src": src, "kernel": SWEEP_KERNEL, "inputs": inputs, "adv": [], "class": "sweep-%s-d%d" % (g, max(d, 16))})
    return out


# ---------------------------------------------------------------------------------------------------------------------
# one native operation (or control-flow row) executed directly on the inputs, at an exact stack depth
NATIVE_OPS = ["NOOP", "ASSERT", "FMPADD", "FMPUPDATE", "SDEPTH", "CLK", "ADD", "NEG", "MUL", "INV", "INCR", "AND", "OR", "NOT", "EQ", "EQZ", "EXPACC", "EXT2MUL",
              "U32SPLIT", "U32ADD", "U32ADD3", "U32SUB", "U32MUL", "U32MADD", "U32DIV", "U32AND", "U32XOR", "U32ASSERT2", "PAD", "DROP",
              "DUP0", "DUP1", "DUP2", "DUP3", "DUP4", "DUP5", "DUP6", "DUP7", "DUP9", "DUP11", "DUP13", "DUP15", "SWAP", "SWAPW", "SWAPW2", "SWAPW3", "SWAPDW",
              "MOVUP2", "MOVUP3", "MOVUP4", "MOVUP5", "MOVUP6", "MOVUP7", "MOVUP8", "MOVDN2", "MOVDN3", "MOVDN4", "MOVDN5", "MOVDN6", "MOVDN7", "MOVDN8",
              "CSWAP", "CSWAPW", "PUSH:77", "ADVPOP", "ADVPOPW", "MLOADW", "MLOAD", "MSTOREW", "MSTORE", "MSTREAM", "PIPE", "HPERM"]


def op_at_depth(depths=(16, 17, 18, 21), rng_seed=0):
    r = random.Random(rng_seed * 31 + 5)
    out = []
    for d in depths:
        for variant in (0, 1):
            # top of the stack satisfies every operation's precondition: s0 = 1 (binary, non-zero, u32, assert), s1 binary, u32 operands
            top = [1, variant, 1, 1] + [r.randrange(2, 2**32) if variant == 0 else (i + 2) for i in range(4, 12)] + [9] + [r.randrange(P) for _ in range(3)]
            inputs = top + [r.randrange(P) for _ in range(d - 16)]
            for op in NATIVE_OPS:
                out.append({"ops": [op], "src": "<span %s>" % op, "kernel": None, "inputs": inputs, "adv": [r.randrange(P) for _ in range(8)],
                            "class": "op-%s-d%d" % (op.split(":")[0], d)})
            for op in ("EQ", "EQZ"):        # equal operands / zero operand: the helper is free
                inp2 = ([5, 5] if op == "EQ" else [0, 3]) + inputs[2:]
                out.append({"ops": [op], "src": "<span %s>" % op, "kernel": None, "inputs": inp2, "adv": [], "class": "op-%s=-d%d" % (op, d)})
        # control-flow rows directly on the inputs
        z = [r.randrange(P) for _ in range(max(0, d - 4))]
        leaf = "proc.leaf\n  neg neg\nend\n"
        kern = "export.k0\n  neg neg\nend\nexport.kc\n  caller\nend\nexport.kd\n  push.1 caller drop\nend\n"
        ctl = [("split1", "begin\n if.true\n  neg neg\n else\n  neg\n end\nend\n", [1, 0, 0, 0]), ("split0", "begin\n if.true\n  neg neg\n else\n  neg\n end\nend\n", [0, 1, 0, 0]),
               ("loop0", "begin\n while.true\n  neg neg\n end\nend\n", [0, 1, 0, 0]), ("loop1", "begin\n while.true\n  neg neg\n end\nend\n", [1, 0, 0, 0]),
               ("loop2", "begin\n while.true\n  neg neg\n end\nend\n", [1, 1, 0, 0]), ("call", leaf + "begin\n call.leaf\nend\n", [1, 2, 3, 4]),
               ("syscall", "begin\n syscall.k0\nend\n", [1, 2, 3, 4]), ("caller16", "begin\n syscall.kc\nend\n", [1, 2, 3, 4]), ("caller17", "begin\n syscall.kd\nend\n", [1, 2, 3, 4]),
               ("respan", "begin\n " + "neg " * 80 + "\nend\n", [1, 2, 3, 4]), ("join", "begin\n neg\n if.true\n  neg\n else\n  neg neg\n end\n neg\nend\n", [P - 1, 0, 0, 0])]
        for nm, src, head in ctl:
            out.append({"src": src, "kernel": kern if "syscall" in src else None, "inputs": head + z, "adv": [], "class": "ctl-%s-d%d" % (nm, d)})
    return out
