"""Regenerates the generated parts of DESIGN.md §0: the list of repaired defects (from known_findings.json) and the table of
seeded changes (from seeded/*/meta.json).  Usage: python3 lib/gen_design_tables.py"""
import json, os, re, glob
ROOT = os.path.dirname(os.path.dirname(os.path.abspath(__file__)))


def main():
    p = os.path.join(ROOT, "DESIGN.md")
    s = open(p).read()
    kf = json.load(open(os.path.join(ROOT, "known_findings.json")))
    fixed = ["* " + f[len("fixed: "):] for f in kf["fixed"]]
    a = s.index("* property=", s.index("### 0.3 Genuine defects"))
    b = s.index("Open known findings", a)
    s = s[:a] + "\n".join(fixed) + "\n\n" + s[b:]
    rows = []
    first = missed = 0
    for d in sorted(glob.glob(os.path.join(ROOT, "seeded", "*"))):
        mp = os.path.join(d, "meta.json")
        if not os.path.exists(mp):
            continue
        m = json.load(open(mp))
        sid = os.path.basename(d)
        note = m.get("notes", "")
        if re.match(r"(?i)\s*(missed|hand universes|not tried)", note):
            missed += 1
        else:
            first += 1
        rows.append("| %s | %s | %s | %s | %s |" % (sid, m["property"], m["summary"][:160].replace("|", "/").replace("\n", " "),
                                                    m.get("detected_by", "").replace("|", "/")[:220], note.replace("|", "/")[:420]))
    a = s.index("| id | property | change (summary) | caught by | first run? |")
    b = s.index("\n\n", a)
    s = s[:a] + "| id | property | change (summary) | caught by | first run? |\n|----|----------|------------------|-----------|------------|\n" + "\n".join(rows) + s[b:]
    open(p, "w").write(s)
    print("fixed entries: %d, open: %d, seeded: %d (first attempt %d, after widening %d)" % (len(kf["fixed"]), len(kf["open"]), len(rows), first, missed))


if __name__ == "__main__":
    main()
