#!/usr/bin/env python3
"""Writes MANIFEST.json from the table below (single source of truth for the interface)."""
import json, os
ROOT = os.path.dirname(os.path.dirname(os.path.abspath(__file__)))

CHECKS = {
 "C08": dict(cat="model_checking",
   text="Batching rules (group/batch caps, immediate placement, decode round trip, greedy boundaries) are TLC invariants checked over every push/non-push pattern (reduced constants to length 14, real constants to 14); every pattern to length 11 (quick) / 15 (thorough) plus random sequences over all span operations are replayed on the real Span::new and compared in every field, and the span hash must be HashElems of the specification's groups; opcode table of the docs compared with Operation::op_code. Mast.tla gives the hash recipe of every node kind (hash_domain(children) with the domain = the opcode starting the block, loop / call / syscall with a zero second word, dyn a constant); it is evaluated with the primitives on every node of assembled programs of every control-flow shape and compared with CodeBlock::hash, Program::hash and the trace's program hash; metamorphic pairs: layout, debug mode, decorators and procedure names do not change the hash, a changed operation, immediate or branch order does.",
   note="Trusted: miden-crypto RPO primitives (hash_elements / merge_in_domain) as the definition of the hash; TLC; the docs as source of the rules.",
   tech="TLA+ spec (SpanBatch, Mast) model-checked with TLC; TLC-generated behaviours replayed on the implementation", ref="DESIGN.md §4 C08"),
 "C05": dict(cat="model_checking",
   text="Instruction semantics are an explicit TLA+ specification (Masm.tla over the limb arithmetic of Felt.tla / U32.tla, written from the instruction reference). TLC (a) proves on the mini field HB=2 that the limb operators are the field / integer functions (all 241^2 pairs, all 4-bit u32 triples) and that the stack keeps depth >= 16 / LIFO under all instruction words, (b) enumerates every instruction variant x boundary operand tuples x initial depths and samples random instruction sequences, each with the predicted full stack or failure (kind + error code); every behaviour is replayed on the real assembler + VM in a release and an overflow-checked build.",
   note="Trusted: TLC, the instruction reference as written down in Masm.tla; operand combinations the reference calls undefined are not generated; stacks are compared up to trailing zeros below depth 16.",
   tech="TLA+ instruction-level spec; TLC-enumerated / simulated behaviours replayed on assembler+VM (spec -> impl conformance)", ref="DESIGN.md §4 C05"),
 "C06": dict(cat="model_checking",
   text="Big-step rules for if/else, while, repeat, exec (own locals frame) with Fail(NotBinary) at the three decision points (MasmFlow.tla); TLC checks the laws repeat.n = n copies, exec = pasted body, if = selected branch on the spec, enumerates every program shape to nesting depth 2 (incl. identical / equivalent branches) x every decision tape over {0,1,2} and random depth-3 shapes; each predicted final stack / failure is replayed on the real assembler + VM in two build profiles.",
   note="Trusted: TLC, flow_control.md / code_organization.md as formalised; decisions are fed through the advice tape so that the final stack is the executed path.",
   tech="TLA+ structured-semantics spec; exhaustive small-scope behaviours replayed on the implementation", ref="DESIGN.md §4 C06"),
 "C14": dict(cat="model_checking",
   text="Cursor model of the step iterator (StepIter.tla) model-checked over all Next/Back words; every word is replayed on the real VmStateIterator and every reported state is compared with row t of the trace and the forward-pass state; each program is executed under 18 configurations (expected-cycle hints, tracing, debug assembly with decorators, execute / execute_iter) and program hash, outputs, cycles, padded length and a digest of the whole main trace must coincide; clk must push its row's clock.",
   note="Trusted: TLC; main trace of the reference configuration as 'the trace'. Known finding KF-C14-overflow is reported as KNOWN-FINDING (see known_findings.json).",
   tech="TLA+ cursor model; model-generated walks replayed; multi-configuration trace equality", ref="DESIGN.md §4 C14"),
 "C15": dict(cat="model_checking",
   text="CycleLimit.tla: safety (clock never passes the limit, exact success condition, no step after the limit) and liveness (every program, incl. a non-terminating one, stops) checked by TLC under weak fairness; the model's closed form generates, for every corpus program, limits n-2..n+2 and others x expected-cycles hints, and the option-set acceptance table; all replayed on the real processor (error payload = the limit, reported max_cycles = the given one).",
   note="Trusted: TLC; the cycle count n of a terminating program is measured by an unlimited run of the implementation.",
   tech="TLA+ safety + liveness model checked with TLC; model-generated limits replayed", ref="DESIGN.md §4 C15"),
 "C09": dict(cat="model_checking",
   text="The reference defines every hinted instruction as a function of its operands (Masm.tla, U64.tla); Hints.tla adds an abstract Merkle model with an injective hash. TLC enumerates (instruction, operands, host answer): u32clz/ctz/clo/cto/ilog2 x every hint 0..65 and large values, ext2inv/ext2div x perturbed inverses, u64 div/mod/divmod x every candidate (q', r') with q'*b+r' = a mod 2^64 and others, Merkle get/verify/set x flipped / truncated / extended / reversed / other-node paths and substituted nodes on all trees of depth <= 3, advice pop order; each with the prescribed outcome. Every scenario runs on the real VM under a host that substitutes the hint; accepted iff failure or the prescribed result (honest host: the prescribed result).",
   note="Trusted: TLC, miden-crypto Merkle / RPO primitives (the abstract model's hash is injective); a panic under a dishonest host counts as 'does not complete' (recorded in evidence).",
   tech="TLA+ spec of hint-free results + abstract Merkle model; TLC-enumerated host behaviours replayed with a dishonest Host", ref="DESIGN.md §4 C09"),
 "C16": dict(cat="model_checking",
   text="Nat.tla defines add/sub/mul/divmod/comparisons/bitwise/shifts/rotations/bit counts on little-endian limb sequences; TLC proves them equal to integer arithmetic for all pairs of 8-bit numbers in the mini field, the same text at full width is the oracle: GEN_U64 enumerates every documented std::math::u64 procedure x all limb combinations of the boundary set (all shift amounts 0..63) and the u256 procedures on limb patterns; each call runs on the real VM with a sentinel stack underneath and must equal the contract (U64.tla) on every stack position; zero divisors must fail.",
   note="Trusted: TLC; u64.md and the u256.masm doc comments as the contract (overflowing_mul is read as the 128-bit product).",
   tech="TLA+ limb-arithmetic spec checked exhaustively in a mini field; contract-generated calls replayed on the VM", ref="DESIGN.md §4 C16"),
 "C03": dict(cat="model_checking",
   text="Every row of recorded executions (generated programs of all feature classes) is validated against the operation-level specification MidenVM.tla by TLC (system, decoder and stack columns incl. overflow bookkeeping), so the trace is the one the specification prescribes; on the same executions the real ProcessorAir is evaluated on every consecutive row pair of the main segment and of the auxiliary segment built for k independent challenge vectors, and every boundary assertion is checked against the execution's public inputs; the padded length is judged by TraceLen.tla (power of two, >= 64, room for cycles / range table / chiplets + random row) and must not depend on the expected-cycles hint (64..2^14), nor may the trace digest.",
   note="Trusted: TLC; winterfell's Air evaluation interface; HPERM results are compared with the RPO primitive by the recorder; chiplet-internal rows are judged by the real constraints only.",
   tech="TLA+ operation-level spec; trace validation of recorded rows (impl -> spec) + evaluation of the real AIR on the validated traces", ref="DESIGN.md §4 C03"),
 "C07": dict(cat="model_checking",
   text="MidenVM.tla models contexts (call: fresh ctx = clk+1, depth 16, fmp 2^30; syscall: ctx 0, fmp 2^31, kernel membership, caller hash; dyn), per-context word RAM and the overflow table. TLC checks on call trees in the mini field that a step changes memory only in its own context, contexts are fresh, syscalls see root memory, returns restore the caller, bad returns / non-kernel syscalls / caller outside a syscall fail, and every run terminates. Recorded executions of structured random programs (nested call / syscall / dyncall / dynexec / exec with locals, element / word / stream / pipe / local accesses on colliding addresses, deep caller stacks) are validated row by row (ctx, fmp, in_syscall, fn_hash, stack, overflow addresses, every value read from memory); negative scenarios must fail with the error the specification predicts by running on its own.",
   note="Trusted: TLC; values popped from the advice stack are inputs of the validation (their order is C09).",
   tech="TLA+ VM spec model-checked in a mini field + row-by-row trace validation of recorded executions", ref="DESIGN.md §4 C07"),
 "C13": dict(cat="model_checking",
   text="MidenVM.tla's decoder (block stack, span rows with group counter / op index / batch flags / alignment NOOPs, RESPAN, REPEAT, END flags, hasher-address counter) is model-checked for every push/non-push pattern (group counter reaches zero, op index in range, NOOPs only where documented, stream = program) and validated row by row against recorded executions of generated programs (all MAST shapes, spans of every fill pattern, loops, calls, dyn): operation, block address, hasher registers, in_span, group_count, op_index, batch flags; the last row must be HALT carrying the program hash. A corrupted recording must be rejected at the corrupted event (binding self-test).",
   note="Trusted: TLC; block hashes are labels taken from the assembled MAST (their recipe is C08).",
   tech="TLA+ decoder spec; TLC model checking + trace validation of recorded decoder columns", ref="DESIGN.md §4 C13"),
 "C01": dict(cat="model_checking",
   text="Pipeline.tla models execute -> prove(option set) -> byte transport -> verify; TLC checks Completeness (every honest behaviour is accepted at >= the configured level) over the four standard option sets x transport; each behaviour is a scenario run on the real prover and verifier for generated programs of every feature class (kernels, deep inputs/outputs, range- and chiplet-heavy traces): proving must succeed, the verifier must accept with level >= configured, the proof bytes must decode to an equal proof and the outputs proven must be those execution reported (whose rows are validated against MidenVM.tla in C03).",
   note="Trusted: TLC; winterfell's STARK soundness/completeness is exercised, not modelled.",
   tech="TLA+ pipeline model; model behaviours replayed on the real prover/verifier", ref="DESIGN.md §4 C01"),
 "C02": dict(cat="model_checking",
   text="Pipeline.tla with tamper actions (program hash element, kernel add/remove/replace, input change/append(incl. explicit zero)/remove, output top/deep element, overflow address, output append/truncate, proof byte flips in 16 regions, truncations, tag relabelling, invalid tag, weaker-than-accepted options); TLC checks Binding (acceptance implies untampered statement, intact proof, accepted options). Every behaviour x several positions is replayed on real proofs for all four option sets with and without the byte round trip: the verifier must return an error, never accept, never panic.",
   note="Trusted: TLC; a corrupted proof surviving verification by chance (<= 2^-16) would be reported. Bytes appended after a complete proof are recorded, not judged (the decoded proof is the same proof).",
   tech="TLA+ pipeline model with tamper actions; behaviours replayed on real proofs", ref="DESIGN.md §4 C02"),
 "C19": dict(cat="model_checking",
   text="Wire.tla gives the byte-level layout of StackInputs / StackOutputs / Kernel / ProgramInfo; TLC enumerates byte strings (declared counts x element encodings 0, 1, p-1, p, 2^64-1 x tail truncations x trailing bytes), checks ReEncode and PrefixesRejected on the model, and every string is fed to the real decoder: never a panic, an accepted value must re-serialise to bytes that decode to an equal value, and every decoded statement part is handed to verify() with a valid proof, which must not panic; integer constructors must reject exactly the non-canonical values. Proofs and program / module ASTs are covered by structured mutation of valid encodings (systematic header bytes, bit flips, truncations, length bytes) under the same monitor.",
   note="Model checking for the small containers; the large formats are monitor-only (exploration). Whether a decoder accepts what the model calls malformed is recorded, not judged. Known finding KF-C19-winter-proof-header (panics inside the winter-air dependency) is reported as KNOWN-FINDING.",
   tech="TLA+ byte-level wire model; TLC-enumerated byte strings replayed on the decoders + mutation monitor for large formats", ref="DESIGN.md §4 C19"),
 "C11": dict(cat="model_checking",
   text="Assembler.tla models one assembler instance at the granularity of its methods (module provider, procedure cache with ids / aliases / callsets, per-compilation context, a failed compilation keeping what it inserted) next to a declarative layer (name resolution through re-exports, pasted exec bodies, statically reachable call / syscall / procref targets, validity). TLC explores every history of library additions and compilations (failing ones included) up to length 4 over hand-built and random universes of modules, kernels and programs and monitors HistoryIndependence (= result of a freshly configured instance) and conformance to the declarative layer (success iff valid, prescribed root, code-block table containing every static target). Every maximal history is replayed on one real Assembler in two build profiles: outcome as prescribed, never a panic; hash and kernel equal to a freshly configured real instance; equal prescribed root terms <=> one real MAST root; table statically closed; the (straight-line) program executed without a missing procedure body. A table of invalid / boundary sources from the user docs' parameter ranges must be rejected with an error.",
   note="Trusted: TLC; the user docs as formalised. Programs of the universes are straight-line so that execution reaches every static reference. Known finding KF-C11-caller-in-library is reported as KNOWN-FINDING. call.0x<root> (phantom calls) and with_kernel after compilations are not generated (documented as history dependent / forbidden).",
   tech="TLA+ model of the assembler's cache mechanism + declarative semantics, model-checked over all bounded histories; histories replayed on the real assembler", ref="DESIGN.md §4 C11"),
 "C04": dict(cat="model_checking",
   text="AirEnforced.tla derives from the operation semantics of MidenVM.tla, in the mini field, which cells of the next row (stack positions, depth b0, overflow address b1, fmp, clk) are a function of the current row alone for every operation in every depth regime (16 / 17 / deeper) - the cells a transition constraint must pin down, minus those the documentation routes through a bus -, checks that the helper-limb relations of the u32 operations have exactly one solution for every operand tuple of the mini field, adds the documented stack effect of the control-flow rows and the chiplet / range-checker relations, and prints the table. For honest traces (every native operation and control-flow row executed directly on inputs at depth 16 / 17 / 18+, a depth sweep of every instruction kind, generated programs of all classes; rows validated against the specification in C03) the harness substitutes wrong values (v+1, v-1, 0, 1, neighbour, p-1, 2^32, random) in every enforced cell of every row - hasher rounds, bitwise rows, memory rows and range-checker steps included - and evaluates the real ProcessorAir transition constraints on the altered pair(s): at least one must be non-zero.",
   note="Trusted: TLC; winterfell's Air::evaluate_transition as the constraint system. Cells enforced through buses / virtual tables (range checks of helper limbs, chiplet lookups, overflow table, op group table) are C12's subject; CALLER (no documented constraints), the documented exclusion of the memory chiplet's last row and fmp on operations other than FMPUPDATE are not judged.",
   tech="TLA+ derivation of the enforced-cell table from the operation-level spec (TLC, mini field) + perturbation of spec-validated honest row pairs evaluated on the real AIR", ref="DESIGN.md §4 C04"),
 "C12": dict(cat="model_checking",
   text="Lookups.tla defines, from the specification's own machine state, the requests every operation sends to the memory and bitwise chiplets and to the range checker (the four helper limbs of each u32 operation, per u32_ops.md) and the number of hasher rows each block / batch / HPERM / MPVERIFY / MRUPDATE consumes. While TLC validates the recorded rows of an execution against MidenVM.tla (TV_VM) it accumulates these requests and, at the end, requires bag equality with what the trace provides: the memory chiplet's rows (ctx, addr, clk, read/write, word), the results of the bitwise cycles, the range table's (value, multiplicity) rows (requests = u32 limbs + the memory chiplet's delta limbs) and the length of the hasher segment. For the same executions the real auxiliary columns are built for k independently drawn (CSPRNG) challenge vectors and every running-product / LogUp column must end in the value Lookups!Terminal prescribes (block stack, block hash, op group tables, chiplets bus, and - without a kernel - the chiplets virtual table: 1; range bus: its initial value). Programs cover every feature class: single / multi-batch spans (incl. one-operation batches), split, loop, call, syscall, dynexec, dyncall, unused kernels, every chiplet-talking operation incl. MSTREAM / PIPE and Merkle operations (also a Merkle update that writes the value already stored), every native operation at depth 16 / 17 / deeper.",
   note="Trusted: TLC; miden-crypto primitives for the Merkle tree in the advice provider. The stack overflow table's and the kernel procedure table's terminal values depend on public inputs: the former is asserted by the AIR (C03), the latter is recorded (the documentation's rule leaves open which rows of the kernel ROM enter the table). Binding self-test: a recording with one corrupted memory row must be rejected.",
   tech="TLA+ request multisets computed during trace validation (impl -> spec) compared with recorded chiplet / range rows; terminal values of the real auxiliary columns under random challenges against the spec's contract", ref="DESIGN.md §4 C12"),
 "C10": dict(cat="exploration",
   text="GEN_Ast.tla enumerates abstract syntax trees: unit kind (program / library module) x every window of the table of instruction forms (every instruction with every immediate form, 296 forms) x 8 nesting shapes (if/else, while, repeat to depth 3), and every combination of boundary values of the length-prefixed fields of the encoding (doc comments 0 / 1 / 65000 characters, procedure names 1 / 40 / 255, import paths 10 / 255 / 256 / 700 / 1023, locals 0 / 1 / 3 / 65535, procedure counts, re-exports). Every scenario is rendered to Miden assembly and put through the real code in two build profiles: parse -> to_bytes -> from_bytes must give an equal AST that re-encodes to the same bytes (with and without imports); source locations written separately and reloaded must restore equality; compiling the round-tripped AST must give the same MAST root, kernel and execution outcome as compiling the original; the compiled-library file holding the imported module must round-trip with and without source locations; stack inputs / outputs, kernels and program info are round-tripped over boundary values (execution proofs in C01).",
   note="Exploration: the oracle is identity; the TLA+ specification contributes the enumeration of the space (TLC) and its coverage accounting. Sources the parser itself refuses are not round-tripped.",
   tech="TLA+-enumerated scenario space (TLC) replayed on the real parser / serialisers / assembler with an identity oracle", ref="DESIGN.md §4 C10"),
 "C18": dict(cat="model_checking",
   text="StdLib.tla states the contracts from the procedures' documentation: truncate_stack = the original top 16 elements; memcopy = n words copied one after the other; pipe_words_to_memory = the advice words in order, the advanced pointer and the RPO hash of the moved elements, pipe_preimage_to_memory = the same with a commitment that must match; Merkle mountain range = one peak per set bit of the leaf count (checked on the model: peak count = popcount), each peak the Merkle root of its leaves, get(pos) = the pos-th leaf; sparse Merkle tree = a key -> value map whose set returns the old value. TLC enumerates every stack depth 16..40, every (n <= 5, read_ptr, write_ptr) over overlapping ranges, every word count 0..5, every leaf count up to 9 (thorough: 20) with every position, every initial map x every history of get / set / remove of length 2 (thorough: 3) over three keys, two of which share a leaf, each with the prescribed result; every scenario is compiled into a program that calls the real std:: procedures and run on the VM in two build profiles; stack, memory words and roots are compared with the prescription and with the native miden-crypto Mmr / Smt.",
   note="Trusted: TLC; miden-crypto's Mmr / Smt / RPO as the native data structures. Leaves holding more than one key-value pair are documented as unimplemented in smt.masm and are outside the enumerated histories.",
   tech="TLA+ contracts of the standard-library procedures; TLC-enumerated calls and histories replayed on the VM and compared with the prescription and the native data structures", ref="DESIGN.md §4 C18"),
 "C17": dict(cat="model_checking",
   text="Hashes.tla transcribes SHA-256 (FIPS 180-4), BLAKE3 (single-block compression, the case the library exposes) and Keccak-256 (FIPS 202 permutation and sponge with the original Keccak padding; round constants and rotation offsets computed from their definitions inside the spec) on 16-bit half-words; TLC checks the transcription against the published digests (empty message, 'abc', messages around the padding boundaries, multi-block) before anything else. GEN_Hash enumerates input patterns (constant, counting, alternating, one-hot bits at word boundaries, pseudo-random) x every exported procedure (sha256::hash_2to1 / hash_1to1 / hash_memory over byte lengths around the padding boundaries, blake3::hash_2to1 / hash_1to1, keccak256::hash and the bit-interleaving helpers, native::hash_memory over even and odd word counts) with the prescribed digest; every case runs on the real VM in two build profiles with sentinels underneath and must equal the prescription on every stack position. The native helper is compared with the RPO sponge definition (capacity flag, padding, overwrite mode) evaluated with the permutation the VM's hasher uses, and with hash_elements.",
   note="Trusted: TLC; the RPO permutation as a primitive. The sha2 / sha3 / blake3 crates are used only to cross-check the model's digests (a disagreement is a tool error, not a finding). Message sizes: the fixed sizes the procedures accept and hash_memory lengths up to 256 bytes.",
   tech="TLA+ transcription of the reference hash definitions pinned by published test vectors in TLC; TLC-computed digests for generated inputs replayed on the VM's standard-library procedures", ref="DESIGN.md §4 C17"),
}

NOT_APPLICABLE = {
}

ALL = ["C%02d" % i for i in range(1, 20)]

def main():
    checks = []
    for pid in ALL:
        if pid not in CHECKS:
            continue
        c = CHECKS[pid]
        checks.append({
            "property_id": pid,
            "quick_cmd": "python3 check.py %s --tier quick" % pid,
            "thorough_cmd": "python3 check.py %s --tier thorough" % pid,
            "evidence_file": "/verif/evidence/%s.json" % pid,
            "replay_cmd_template": "python3 check.py %s --replay {path}" % pid,
            "engine": "tla-conformance",
            "level_claimed": {"category": c["cat"], "text": c["text"], "design_ref": c["ref"]},
            "level_note": c["note"],
            "technique": c["tech"],
        })
    na = []
    for pid in ALL:
        if pid in CHECKS:
            continue
        na.append({"property_id": pid, "reason": NOT_APPLICABLE.get(pid, "check not built yet in this session (planned, see DESIGN.md §4); no claim is made")})
    m = {
        "version": 1,
        "setup_cmd": "python3 lib/setup.py",
        "hooks": {
            "guard": "cf_miden_vm_verif",
            "enable": "RUSTFLAGS --cfg cf_miden_vm_verif via /verif/harness/.cargo/config.toml (the harness is an external crate with path dependencies on /repo)",
            "baseline_off_cmd": "cd /repo && cargo test --workspace --no-fail-fast --offline",
            "source_commits": [],
            "add_only": True,
        },
        "engines": [{"name": "tla-conformance", "path": "/verif/check.py",
                     "serves_properties": sorted(CHECKS),
                     "kind_free_text": "explicit TLA+ specification (spec/) checked with TLC; bound to the implementation by replaying TLC-generated behaviours on the real code and by validating traces recorded from the real code against the specification (harness/ = Rust crate mvh)"}],
        "checks": checks,
        "not_applicable": na,
        "notes": "See DESIGN.md. Every check rebuilds the harness (two profiles: release, checked) from /repo's working tree.",
    }
    with open(os.path.join(ROOT, "MANIFEST.json"), "w") as f:
        json.dump(m, f, indent=1)

if __name__ == "__main__":
    main()
