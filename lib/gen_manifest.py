#!/usr/bin/env python3
"""Writes MANIFEST.json from the table below (single source of truth for the interface)."""
import json, os
ROOT = os.path.dirname(os.path.dirname(os.path.abspath(__file__)))

CHECKS = {
 "C08": dict(cat="model_checking",
   text="Batching rules (group/batch caps, immediate placement, decode round trip, greedy boundaries) are TLC invariants checked over every push/non-push pattern (reduced constants to length 14, real constants to 14); every pattern to length 11 (quick) / 15 (thorough) plus random sequences over all span operations are replayed on the real Span::new and compared in every field, and the span hash must be HashElems of the specification's groups; opcode table of the docs compared with Operation::op_code.",
   note="Trusted: miden-crypto RPO primitives (hash_elements / merge_in_domain) as the definition of the hash; TLC; the docs as source of the rules.",
   tech="TLA+ spec (SpanBatch, Mast) model-checked with TLC; TLC-generated behaviours replayed on the implementation", ref="DESIGN.md §4 C08"),
}

NOT_APPLICABLE = {
 "C17": "pure bit-level hash functions (BLAKE3/SHA-256/Keccak) have no state machine or case analysis a TLA+ model could decide; see DESIGN.md §5",
}

ALL = ["C%02d" % i for i in range(1, 20)]

def main():
    checks = []
    for pid in ALL:
        if pid not in CHECKS:
            continue
        c = CHECKS[pid]
        checks.append({
            "property_id": pid,
            "quick_cmd": "python3 check.py %s --tier quick" % pid,
            "thorough_cmd": "python3 check.py %s --tier thorough" % pid,
            "evidence_file": "/verif/evidence/%s.json" % pid,
            "replay_cmd_template": "python3 check.py %s --replay {path}" % pid,
            "engine": "tla-conformance",
            "level_claimed": {"category": c["cat"], "text": c["text"], "design_ref": c["ref"]},
            "level_note": c["note"],
            "technique": c["tech"],
        })
    na = []
    for pid in ALL:
        if pid in CHECKS:
            continue
        na.append({"property_id": pid, "reason": NOT_APPLICABLE.get(pid, "check not built yet in this session (planned, see DESIGN.md §4); no claim is made")})
    m = {
        "version": 1,
        "setup_cmd": "python3 lib/setup.py",
        "hooks": {
            "guard": "cf_miden_vm_verif",
            "enable": "RUSTFLAGS --cfg cf_miden_vm_verif via /verif/harness/.cargo/config.toml (the harness is an external crate with path dependencies on /repo)",
            "baseline_off_cmd": "cd /repo && cargo test --workspace --no-fail-fast --offline",
            "source_commits": [],
            "add_only": True,
        },
        "engines": [{"name": "tla-conformance", "path": "/verif/check.py",
                     "serves_properties": sorted(CHECKS),
                     "kind_free_text": "explicit TLA+ specification (spec/) checked with TLC; bound to the implementation by replaying TLC-generated behaviours on the real code and by validating traces recorded from the real code against the specification (harness/ = Rust crate mvh)"}],
        "checks": checks,
        "not_applicable": na,
        "notes": "See DESIGN.md. Every check rebuilds the harness (two profiles: release, checked) from /repo's working tree.",
    }
    with open(os.path.join(ROOT, "MANIFEST.json"), "w") as f:
        json.dump(m, f, indent=1)

if __name__ == "__main__":
    main()
