#!/usr/bin/env python3
"""Offline setup: builds the conformance harness in both profiles and parses the specification."""
import os, sys, shutil, subprocess
sys.path.insert(0, os.path.dirname(os.path.dirname(os.path.abspath(__file__))))
from lib import common
lock = os.path.join(common.HARNESS, "Cargo.lock")
if not os.path.exists(lock):
    shutil.copy("/repo/Cargo.lock", lock)
for prof in ("release", "checked"):
    common.build_harness(prof)
print("setup ok")
