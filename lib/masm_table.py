"""Instruction forms of Miden assembly (docs/src/user_docs/assembly/*.md): every instruction with every immediate form.
Used as the enumeration source for C10 (serialisation round trips) - the forms are chosen for coverage of the AST node
variants, not for their run-time meaning.  {P} = name of a local procedure, {I} = imported procedure (module::name),
{K} = kernel procedure, {L} = index of a procedure local, {C} = named constant."""

BARE = """assert assertz assert_eq assert_eqw add sub mul div neg inv pow2 exp ilog2 not and or xor eq neq lt lte gt gte is_odd eqw
ext2add ext2sub ext2mul ext2div ext2neg ext2inv u32test u32testw u32assert u32assert2 u32assertw u32cast u32split
u32wrapping_add u32overflowing_add u32overflowing_add3 u32wrapping_add3 u32wrapping_sub u32overflowing_sub u32wrapping_mul
u32overflowing_mul u32overflowing_madd u32wrapping_madd u32div u32mod u32divmod u32and u32or u32xor u32not u32shr u32shl u32rotr
u32rotl u32popcnt u32clz u32ctz u32clo u32cto u32lt u32lte u32gt u32gte u32min u32max drop dropw padw dup dupw swap swapw swapdw
movup.2 movupw.2 movdn.2 movdnw.2 cswap cswapw cdrop cdropw sdepth clk mem_load mem_loadw mem_store mem_storew mem_stream adv_pipe
adv_loadw hash hmerge hperm mtree_get mtree_set mtree_merge mtree_verify fri_ext2fold4 rcomb_base dynexec dyncall breakpoint""".split()

WITH_IMM = [
    "assert.err=7", "assertz.err=0", "assert_eq.err=4294967295", "assert_eqw.err=1", "u32assert.err=3", "u32assert2.err=9", "u32assertw.err=2",
    "add.0", "add.1", "add.18446744069414584320", "sub.1", "sub.5", "mul.0", "mul.1", "mul.7", "div.1", "div.2", "exp.0", "exp.1", "exp.7", "exp.255",
    "exp.u1", "exp.u32", "exp.u64", "eq.0", "eq.1", "eq.99", "neq.0", "neq.77", "add.{C}", "push.{C}", "mem_load.{C}",
    "u32wrapping_add.1", "u32wrapping_add.4294967295", "u32overflowing_add.5", "u32wrapping_sub.1", "u32overflowing_sub.4294967295", "u32wrapping_mul.3", "u32overflowing_mul.65536",
    "u32div.1", "u32div.7", "u32mod.2", "u32divmod.4294967295", "u32shr.0", "u32shr.31", "u32shl.0", "u32shl.31", "u32rotr.0", "u32rotr.31", "u32rotl.1", "u32rotl.31",
] + ["dup.%d" % i for i in range(16)] + ["dupw.%d" % i for i in range(4)] + ["swap.%d" % i for i in range(1, 16)] + ["swapw.%d" % i for i in (1, 2, 3)] + \
    ["movup.%d" % i for i in range(2, 16)] + ["movdn.%d" % i for i in range(2, 16)] + ["movupw.2", "movupw.3", "movdnw.2", "movdnw.3"] + [
    "push.0", "push.1", "push.2", "push.255", "push.256", "push.65535", "push.65536", "push.4294967295", "push.4294967296", "push.18446744069414584320",
    "push.0x0", "push.0xff", "push.0x0100", "push.0xffffffff00000000", "push.1.2", "push.1.2.3.4", "push.0.1.0.1.0", "push." + ".".join(str(i) for i in range(16)),
    "push.0x0100000000000000020000000000000003000000000000000400000000000000", "push.0xffffffff00000000000000000000000000000000000000000000000000000000",
    "locaddr.{L}", "loc_load.{L}", "loc_loadw.{L}", "loc_store.{L}", "loc_storew.{L}",
    "mem_load.0", "mem_load.4294967295", "mem_loadw.7", "mem_store.1", "mem_storew.4294967295",
    "adv_push.1", "adv_push.16", "adv.push_u64div", "adv.push_ext2intt", "adv.push_smtget", "adv.push_smtset", "adv.push_smtpeek", "adv.push_mapval", "adv.push_mapval.2",
    "adv.push_mapvaln", "adv.push_mapvaln.3", "adv.push_mtnode", "adv.insert_mem", "adv.insert_hdword", "adv.insert_hdword.5", "adv.insert_hperm", "adv.push_sig.rpo_falcon512",
    "exec.{P}", "call.{P}", "procref.{P}", "exec.{I}", "call.{I}", "procref.{I}", "syscall.{K}",
    "call.0x0100000000000000020000000000000003000000000000000400000000000000",
    "debug.stack", "debug.stack.0", "debug.stack.255", "debug.mem", "debug.mem.5", "debug.mem.1.4294967295", "debug.local", "debug.local.{L}", "debug.local.0.{L}",
    "emit.0", "emit.4294967295", "trace.1", "trace.4294967295",
]

ALL = BARE + WITH_IMM
