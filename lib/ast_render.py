"""Renders the abstract ASTs of GEN_Ast.tla as Miden assembly (C10)."""
from lib import masm_table


def path_of_len(n):
    """a module path 'la::...' of exactly n characters, components of at most 100 characters"""
    if n <= 0:
        return "la::m1"
    p = "la"
    while len(p) < n:
        rest = n - len(p) - 2
        if rest <= 0:
            # cannot end with '::' ; pad the last component instead
            break
        k = min(100, rest)
        if rest - k in (1, 2):      # avoid leaving a remainder too short for '::x'
            k -= 3
        p += "::" + "m" + "x" * (k - 1)
    return p[:n] if len(p) >= n else p + "x" * (n - len(p))


def docs(n):
    if n == 0:
        return ""
    out, left = [], n
    while left > 0:
        k = min(left, 180)
        out.append("#! " + "d" * k)
        left -= k + 1          # the parser joins lines with a newline
    return "\n".join(out) + "\n"


def render(sc):
    tab = masm_table.ALL
    w = sc["window"]
    instrs = [tab[(w * 8 + i) % len(tab)] for i in range(8)]
    nl = sc["locals"]
    imp = path_of_len(sc["path_len"])
    short = imp.split("::")[-1]
    pname = "p" + "a" * (sc["name_len"] - 1)
    is_prog = sc["kind"] == "program"

    def subst(t, in_main):
        if "{L}" in t:
            if nl == 0 or in_main:
                return "push.3"
            t = t.replace("{L}", str(nl - 1))
        t = t.replace("{P}", "helper").replace("{I}", "%s::f" % short).replace("{K}", "kproc").replace("{C}", "CST")
        return t

    def body(nodes, ind, in_main):
        out = []
        for nd in nodes:
            if nd[0] == "i":
                out.append(ind + subst(instrs[nd[1]], in_main))
            elif nd[0] == "ifee":
                out.append(ind + "if.true")
                out += body(nd[1], ind + "  ", in_main)
                out.append(ind + "else")
                out.append(ind + "end")
            elif nd[0] == "ifet":
                out.append(ind + "if.true")
                out.append(ind + "else")
                out += body(nd[1], ind + "  ", in_main)
                out.append(ind + "end")
            elif nd[0] == "if":
                out.append(ind + "if.true")
                out += body(nd[1], ind + "  ", in_main) or [ind + "  push.1"]
                if nd[2]:
                    out.append(ind + "else")
                    out += body(nd[2], ind + "  ", in_main)
                out.append(ind + "end")
            elif nd[0] == "while":
                out.append(ind + "while.true")
                out += body(nd[1], ind + "  ", in_main)
                out.append(ind + "end")
            elif nd[0] == "repeat":
                out.append(ind + "repeat.%d" % nd[1])
                out += body(nd[2], ind + "  ", in_main)
                out.append(ind + "end")
        return out
    src = docs(sc["docs"]) if not is_prog else ""
    if not is_prog and sc["docs"]:
        src += "\n"
    src += "use.%s\n" % imp
    src += "const.CST=7\n"
    if sc["reexport"]:
        src += docs(sc["proc_docs"]) + "export.%s::f->rf\n" % short
    src += "proc.helper\n  push.1 drop\nend\n"
    for i in range(sc["nprocs"] - 1):
        src += "%s.q%d\n  push.%d drop\nend\n" % ("proc" if is_prog or i % 2 else "export", i, i)
    head = ("proc." if is_prog else "export.") + pname + (".%d" % nl if nl else "")
    if is_prog:
        src += docs(sc["proc_docs"]) + head + "\n  push.2 drop\nend\n"
        src += "begin\n" + "\n".join(body(sc["body"], "  ", True)) + "\nend\n"
    else:
        src += docs(sc["proc_docs"]) + head + "\n" + "\n".join(body(sc["body"], "  ", False)) + "\nend\n"
    lib = [{"path": imp, "src": "export.f\n  push.5 drop\nend\n"}]
    kernel = "export.kproc\n  push.1 drop\nend\n" if is_prog else None
    return {"kind": sc["kind"], "src": src, "lib": lib, "kernel": kernel}
