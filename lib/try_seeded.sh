#!/bin/bash
# try_seeded.sh <seeded id> <property> [tier] : applies the seeded change to /repo, runs the check, restores /repo
ID=$1; PROP=$2; TIER=${3:-quick}
cd /repo || exit 2
git diff --quiet || { echo "/repo has uncommitted changes"; exit 2; }
git apply /verif/seeded/$ID/patch.diff || { echo "patch does not apply"; exit 2; }
cd /verif; cp evidence/$PROP.json /verif/work/evidence_$PROP.keep 2>/dev/null
python3 check.py $PROP --tier $TIER > /verif/work/logs/seeded_${ID}_${PROP}.log 2>&1; rc=$?
cp evidence/$PROP.json /verif/work/logs/seeded_${ID}_${PROP}.evidence.json 2>/dev/null; [ -f /verif/work/evidence_$PROP.keep ] && mv /verif/work/evidence_$PROP.keep evidence/$PROP.json
git -C /repo checkout -- .
echo "seeded $ID on $PROP/$TIER: exit=$rc"; grep -E "^VIOLATION|^  \[" /verif/work/logs/seeded_${ID}_${PROP}.log | head -${4:-8}; tail -n 1 /verif/work/logs/seeded_${ID}_${PROP}.log
