"""Recording real executions and validating them against MidenVM.tla with TLC (TV_VM), in parallel chunks."""
import json, os, re, concurrent.futures as cf
from lib.common import *


def write_scenarios(progs, path, extra=None):
    with open(path, "w") as f:
        for p in progs:
            rec = {"src": p.get("src", ""), "ops": p.get("ops"), "kernel": p.get("kernel"), "inputs": [limbs(x) for x in p["inputs"]],
                   "adv": [limbs(x) for x in p.get("adv", [])], "max_cycles": 200000}
            if p.get("mtree"):
                rec["mtree"] = p["mtree"]
            if p.get("chiprows"):
                rec["chiprows"] = True
            if extra:
                rec.update(extra)
            f.write(json.dumps(rec) + "\n")


def record(progs, wd, prof, tag="vm"):
    inp = os.path.join(wd, "%s_scenarios.ndjson" % tag)
    write_scenarios(progs, inp)
    outp = os.path.join(wd, "%s_%s.rec" % (tag, prof))
    run_harness(prof, ["record-vm", inp, outp])
    # vacuity guard: a generated program that does not assemble would be skipped silently by the trace validation
    bad = []
    with open(outp) as f:
        for line in f:
            if '"e":"pre"' in line[:400] and '"mast"' not in line[:2000] and '"outcome"' in line:
                ev = json.loads(line)
                if "mast" not in ev:
                    bad.append((ev.get("id"), str(ev.get("outcome"))[:200]))
    if bad:
        raise ToolError("%d generated program(s) do not assemble, e.g. #%s: %s | %s" % (len(bad), bad[0][0], bad[0][1], progs[bad[0][0]]["src"][:200].replace("\n", " ")))
    return outp


def split_runs(rec_path, nchunks, wd, tag):
    """splits a recording into chunks at run boundaries; returns [(chunk path, [run ids])]"""
    runs, cur = [], []
    with open(rec_path) as f:
        for line in f:
            if line.startswith('{"dynhash"') or '"e":"pre"' in line[:400]:
                if cur:
                    runs.append(cur)
                cur = []
            cur.append(line)
    if cur:
        runs.append(cur)
    # balance by size
    order = sorted(range(len(runs)), key=lambda i: -len(runs[i]))
    bins = [[] for _ in range(max(1, min(nchunks, len(runs))))]
    sizes = [0] * len(bins)
    for i in order:
        k = sizes.index(min(sizes))
        bins[k].append(i)
        sizes[k] += len(runs[i])
    chunks = []
    for k, ids in enumerate(bins):
        ids.sort()
        path = os.path.join(wd, "%s_chunk%d.rec" % (tag, k))
        with open(path, "w") as f:
            for i in ids:
                f.writelines(runs[i])
        chunks.append((path, ids, [len(runs[i]) for i in ids]))
    return chunks, runs


def validate(rec_path, wd, tag, nchunks=12, timeout=3000):
    """returns (rows_validated, states, [rejections]) ; rejection = {run, event (index in run), text}"""
    chunks, runs = split_runs(rec_path, nchunks, wd, tag)

    def one(ch):
        path, ids, lens = ch
        r = tlc("TV_VM.tla", cfg="TV_VM.cfg", cwd=os.path.join(SPEC, "tv"), workers=1, timeout=timeout, heap="3g",
                deque=True, env_extra={"TRACE": path})
        return ch, r
    rows = states = 0
    rejects = []
    with cf.ThreadPoolExecutor(max_workers=min(12, len(chunks))) as ex:
        for (path, ids, lens), r in ex.map(one, chunks):
            if r.error and "REJECT" not in r.out and "ACCEPT" not in r.out:
                sys.stderr.write(r.out[-3000:])
                raise ToolError("TLC failed on %s: %s" % (path, r.error))
            states += r.distinct
            m = re.search(r'<<"ACCEPT", \[rows \|-> (\d+), runs \|-> (\d+)\]>>', r.out)
            if m:
                rows += int(m.group(1))
                continue
            m = re.search(r'<<\s*"REJECT",\s*(\d+),(.*?)>>\n(?:State|Model|Error|\d+ states)', r.out, re.S)
            if not m:
                m2 = re.search(r'<<\s*"REJECT",\s*(\d+),', r.out)
                if not m2:
                    sys.stderr.write(r.out[-3000:])
                    raise ToolError("TLC neither accepted nor rejected %s" % path)
                evno, text = int(m2.group(1)), r.out[m2.start(): m2.start() + 3000]
            else:
                evno, text = int(m.group(1)), m.group(0)[:3000]
            # locate the run
            acc = 0
            for rid, ln in zip(ids, lens):
                if evno <= acc + ln:
                    rejects.append({"run": rid, "event": evno - acc, "text": re.sub(r"\s+", " ", text)})
                    break
                acc += ln
            rows += max(0, evno - 1)
    return rows, states, rejects, runs


def reject_signature(rj, runs):
    line = runs[rj["run"]][rj["event"] - 1]
    try:
        ev = json.loads(line)
    except Exception:
        ev = {}
    m = re.search(r'"fields", \{([^}]*)\}', rj["text"])
    fields = m.group(1).replace('"', "").replace(" ", "") if m else ("cannot-step" if "cannot step" in rj["text"] else "end")
    return "tv:%s:%s" % (ev.get("op", ev.get("e", "?")), fields), ev


def cycle_boundary_programs(wd, targets=(62, 63, 64, 126, 127, 128, 254, 255, 256, 510, 511, 512), prof="release"):
    """straight-line programs whose executions take exactly `targets` cycles (padded-length boundaries: n = 2^k - 1
    leaves no room for a HALT row next to the random row unless the length doubles)"""
    cands = []
    for k in range(1, 470):
        cands.append({"src": "begin\n  " + "neg " * k + "\nend\n", "kernel": None, "inputs": [3], "adv": [], "class": "cycles"})
    inp = os.path.join(wd, "cyc_cands.ndjson")
    write_scenarios(cands, inp)
    outp = os.path.join(wd, "cyc_cands.out")
    run_harness(prof, ["replay-masm", inp, outp])
    by = {}
    for c, line in zip(cands, open(outp)):
        r = json.loads(line)
        if r.get("outcome") == "ok":
            by.setdefault(r["cycles"], c)
    out = []
    for t in targets:
        if t in by:
            p = dict(by[t])
            p["class"] = "cycles-%d" % t
            out.append(p)
    return out


def chiplet_boundary_programs(thorough=False):
    """straight-line programs whose chiplet rows (8 hasher rows per span batch + one memory row per access) sweep across
    2^k - 1: there the last chiplet row is the last row before the random row unless the length doubles, and the chiplets -
    not the executed cycles - decide the padded length (each MLOAD is one cycle and one memory row)"""
    ms = list(range(50, 60)) + list(range(107, 116)) + list(range(219, 228)) if thorough else [54, 55, 56, 111]
    return [{"src": "begin\n  " + "mem_load " * m + "\nend\n", "kernel": None, "inputs": [0], "adv": [], "class": "chiplets-%d" % m} for m in ms]


def callee_shape_programs():
    """every way of invoking a procedure (exec, call, syscall, dynexec, dyncall) x every shape of the callee's root block
    (span, join, split, loop, call, dyn, dyncall, syscall): the callee hash a CALL / SYSCALL / DYN row carries is then the
    hash of each kind of node, including the constant hash of a dyn node"""
    shapes = {
        # name: (body, what the caller puts on the stack before invoking, what it removes afterwards)
        "span": ("push.1 drop", "", ""),
        "join": ("push.1 drop push.1 if.true push.2 drop else push.3 drop end", "", ""),
        "split": ("if.true push.2 drop else push.3 drop end", "push.1", ""),
        "loop": ("while.true push.0 end", "push.1", ""),
        "call": ("call.g", "", ""),
        "dyn": ("dynexec", "procref.g", "dropw"),
        "dyncall": ("dyncall", "procref.g", "dropw"),
        "syscall": ("syscall.k2", "", ""),
    }
    out = []
    for sh, (body, pre, post) in shapes.items():
        for inv in ("exec", "call", "syscall", "dynexec", "dyncall"):
            if inv == "syscall" and sh in ("syscall", "call", "dyncall"):
                continue                      # a syscall cannot create a new context (negative scenarios of C07)
            if inv in ("dynexec", "dyncall") and sh in ("split", "loop", "dyn", "dyncall"):
                continue                      # the target hash stays on top of the stack: it would be taken as the condition / as the next target
            kernel = "export.k2\n  push.7 drop\nend\n"
            helper = "proc.g\n  push.5 drop\nend\n"
            if inv == "syscall":
                kernel += "export.f\n  %s\nend\n" % body
                procs = helper
                call = "%s syscall.f %s" % (pre, post)
            else:
                procs = helper + "proc.f\n  %s\nend\n" % body
                if inv in ("exec", "call"):
                    call = "%s %s.f %s" % (pre, inv, post)
                else:
                    # the target hash goes on top of whatever the callee needs
                    call = "%s procref.f %s dropw %s" % (pre, inv, post)
            # a kernel procedure that calls `g` needs it in its own module; dyn targets must exist in the program
            if inv == "syscall" and sh == "call":
                kernel = "proc.g\n  push.5 drop\nend\n" + kernel
            src = "%sbegin\n  %s\nend\n" % (procs, " ".join(call.split()))
            out.append({"src": src, "kernel": kernel, "inputs": [], "adv": [], "class": "callee-%s-%s" % (inv, sh)})
    return out


def ctx_switch_programs():
    """a context switch between two accesses of the same address: the last access before the switch (a word store or a read
    of a non-zero word) x every way of changing the context (call, dyncall, syscall, each return) x the first access after
    it (element store, element load, word load), for an absolute address and for a local"""
    K = ("export.kst\n  push.9 mem_store.5 padw mem_loadw.5 dropw\nend\nexport.kld\n  mem_load.5 drop padw mem_loadw.5 dropw\nend\n"
         "export.kw\n  push.11.12.13.14 mem_storew.5 dropw\nend\nexport.kr\n  push.11.12.13.14 mem_storew.5 dropw padw mem_loadw.5 dropw\nend\n")
    before = {"storew": "push.1.2.3.4 mem_storew.5 dropw", "read": "push.1.2.3.4 mem_storew.5 dropw push.3 drop padw mem_loadw.5 dropw"}
    after = {"store": "push.9 mem_store.5 padw mem_loadw.5 dropw", "load": "mem_load.5 drop padw mem_loadw.5 dropw", "loadw": "padw mem_loadw.5 dropw"}
    out = []

    def add(name, src, kernel=None):
        out.append({"src": src, "kernel": kernel, "inputs": [], "adv": [], "class": "ctxswitch-" + name})
    for bn, b in before.items():
        for an, a in after.items():
            add("call-in-%s-%s" % (bn, an), "proc.f %s end begin %s call.f padw mem_loadw.5 dropw end" % (a, b))
            add("call-out-%s-%s" % (bn, an), "proc.f %s end begin call.f %s end" % (b, a))
            add("dyncall-in-%s-%s" % (bn, an), "proc.f %s end begin %s procref.f dyncall dropw padw mem_loadw.5 dropw end" % (a, b))
            add("nested-%s-%s" % (bn, an), "proc.f %s end proc.g %s call.f %s end begin %s call.g %s end" % (a, b, a, b, a))
    for an, kp in (("store", "kst"), ("load", "kld")):
        add("syscall-in-%s" % an, "proc.g push.1.2.3.4 mem_storew.5 dropw syscall.%s padw mem_loadw.5 dropw end begin push.5.6.7.8 mem_storew.5 dropw call.g padw mem_loadw.5 dropw end" % kp, K)
    for bn, kp in (("storew", "kw"), ("read", "kr")):
        for an, a in after.items():
            add("syscall-out-%s-%s" % (bn, an), "proc.g syscall.%s %s end begin call.g padw mem_loadw.5 dropw end" % (kp, a), K)
    # locals: local 0 has the same address in every context created by a call
    for an, a in (("store", "push.9 loc_store.0 padw loc_loadw.0 dropw"), ("load", "loc_load.0 drop padw loc_loadw.0 dropw")):
        add("local-in-" + an, "proc.f.1 %s end proc.g.1 push.1.2.3.4 loc_storew.0 dropw call.f padw loc_loadw.0 dropw end begin call.g end" % a)
        add("local-out-" + an, "proc.f.1 push.1.2.3.4 loc_storew.0 dropw end proc.g.1 call.f %s end begin call.g end" % a)
        add("local-exec-" + an, "proc.f.1 %s end proc.g.1 push.1.2.3.4 loc_storew.0 dropw exec.f padw loc_loadw.0 dropw end begin call.g end" % a)
    return out


def fri_programs():
    """FRIE2F4 for each domain segment: the previous layer's value must equal the query value of that segment"""
    out = []
    v = [3, 4, 5, 6, 7, 8, 9, 10]           # v0 .. v7
    for seg in range(4):
        pe0, pe1 = v[2 * seg], v[2 * seg + 1]
        # stack, top first: v7 .. v0, f_pos, d_seg, poe, pe1, pe0, a1, a0, cptr ; one more element below to be shifted in
        top_first = list(reversed(v)) + [11, seg, 7 + seg, pe1, pe0, 13, 14, 1000, 55]
        rev = list(reversed(top_first))
        push = " ".join("push." + ".".join(str(x) for x in rev[i:i + 8]) for i in range(0, len(rev), 8))
        out.append({"src": "begin\n  %s fri_ext2fold4 %s\nend\n" % (push, "drop " * 16), "kernel": None, "inputs": [], "adv": [], "class": "fri-seg%d" % seg})
    return out


def range_gap_programs(thorough=False):
    """executions whose range-checked 16-bit values have prescribed gaps: the range-checker table bridges a gap with steps
    of 0 or a power of three up to 3^7 = 2187 (range.md), so gaps of exactly k * 2187, of 2187 +- 1 and of other powers of
    three are the boundary cases of the table's row count (u32split range-checks the 16-bit limbs of its operand)"""
    gaps = [2187, 2 * 2187, 3 * 2187, 2186, 2188, 729, 6560, 6562, 29 * 2187] + ([k * 2187 for k in (4, 5, 9, 10, 27)] + [243, 81, 27, 9, 3, 1, 2] if thorough else [])
    out = []
    for g in gaps:
        for a in (0, 100):
            b = a + g
            if b >= 65535:
                continue
            body = ("push.%d u32split drop drop " % a if a else "") + "push.%d u32split drop drop" % b
            out.append({"src": "begin\n  %s\nend\n" % body, "kernel": None, "inputs": [], "adv": [], "class": "range-gap-%d-from-%d" % (g, a)})
    return out
