"""Provenance of the literal tables in spec/Hashes.tla (SHA-256 K and H0): the first 32 bits of the fractional parts of
the cube / square roots of the first 64 / 8 primes (FIPS 180-4 §4.2.2, §5.3.3), by exact integer root extraction.
Prints the TLA+ literals (pairs <<low 16 bits, high 16 bits>>)."""


def primes(n):
    ps, k = [], 2
    while len(ps) < n:
        if all(k % p for p in ps):
            ps.append(k)
        k += 1
    return ps


def iroot(x, r):
    lo, hi = 0, 1
    while hi ** r <= x:
        hi *= 2
    while lo < hi - 1:
        m = (lo + hi) // 2
        if m ** r <= x:
            lo = m
        else:
            hi = m
    return lo


def lit(ws, per=8):
    items = ["<<%d, %d>>" % (w & 0xffff, w >> 16) for w in ws]
    return "<<" + ",\n     ".join(", ".join(items[i:i + per]) for i in range(0, len(items), per)) + ">>"


if __name__ == "__main__":
    print("Sha256K ==\n   " + lit([iroot(p << 96, 3) & 0xffffffff for p in primes(64)]))
    print("Sha256H0 ==\n   " + lit([iroot(p << 64, 2) & 0xffffffff for p in primes(8)]))
