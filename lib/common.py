"""Shared helpers for the /verif checks: harness build, TLC runner, evidence, findings."""
import json, os, re, subprocess, sys, time, shutil, hashlib, random

ROOT = os.path.dirname(os.path.dirname(os.path.abspath(__file__)))
SPEC = os.path.join(ROOT, "spec")
HARNESS = os.path.join(ROOT, "harness")
WORK = os.path.join(ROOT, "work")
EVID = os.path.join(ROOT, "evidence")
TLA_JAR = "/opt/veriftools/tla/tla2tools.jar:/opt/veriftools/tla/CommunityModules-deps.jar"

P = 2**64 - 2**32 + 1


class ToolError(Exception):
    pass


def seed():
    try:
        return int(os.environ.get("VERIF_SEED", "1"))
    except ValueError:
        return 1


def workdir(pid, sub=None, clean=False):
    d = os.path.join(WORK, pid) if sub is None else os.path.join(WORK, pid, sub)
    if clean and os.path.isdir(d):
        shutil.rmtree(d)
    os.makedirs(d, exist_ok=True)
    return d


# ---------------------------------------------------------------------------------------------
# field element <-> limbs
def limbs(x):
    return [x & 0xFFFF, (x >> 16) & 0xFFFF, (x >> 32) & 0xFFFF, (x >> 48) & 0xFFFF]


def unlimbs(l):
    return l[0] | (l[1] << 16) | (l[2] << 32) | (l[3] << 48)


# ---------------------------------------------------------------------------------------------
# harness build
_built = {}


def build_harness(profile="release"):
    """Builds /verif/harness against /repo's working tree; returns the binary path."""
    if profile in _built:
        return _built[profile]
    env = dict(os.environ)
    env["CARGO_NET_OFFLINE"] = "true"
    lock = os.path.join(HARNESS, "Cargo.lock")
    if not os.path.exists(lock):
        shutil.copy("/repo/Cargo.lock", lock)
    args = ["cargo", "build", "--offline", "--quiet"]
    args += ["--release"] if profile == "release" else ["--profile", profile]
    t0 = time.time()
    r = subprocess.run(args, cwd=HARNESS, env=env, stdout=subprocess.PIPE, stderr=subprocess.STDOUT, text=True)
    if r.returncode != 0:
        sys.stderr.write(r.stdout[-6000:])
        raise ToolError("harness build failed (profile %s)" % profile)
    binp = os.path.join(HARNESS, "target", profile, "mvh")
    if not os.path.exists(binp):
        raise ToolError("harness binary missing: " + binp)
    _built[profile] = binp
    sys.stderr.write("[build] %s profile in %.1fs\n" % (profile, time.time() - t0))
    return binp


def run_harness(profile, args, stdin=None, timeout=3600, check=True):
    binp = build_harness(profile)
    r = subprocess.run([binp] + list(args), input=stdin, stdout=subprocess.PIPE, stderr=subprocess.PIPE,
                       text=True, timeout=timeout)
    if check and r.returncode != 0:
        sys.stderr.write(r.stderr[-4000:])
        raise ToolError("harness %s exited %d" % (args[:2], r.returncode))
    return r


# ---------------------------------------------------------------------------------------------
# TLC
class TLCResult:
    def __init__(self):
        self.out = ""
        self.rc = None
        self.generated = 0
        self.distinct = 0
        self.depth = 0
        self.ok = False
        self.violation = None  # name of violated invariant / property
        self.error = None
        self.prints = []  # lines printed by PrintT (raw)
        self.wall = 0.0
        self.coverage = {}


def tlc(module, cfg=None, cwd=None, workers=1, timeout=1800, simulate=None, depth=None, seed_=None,
        env_extra=None, heap="4g", coverage=False, deque=False, extra=None, metadir=None, dfid=None):
    """Runs TLC on spec file `module` (path relative to cwd). Returns TLCResult."""
    cwd = cwd or SPEC
    res = TLCResult()
    md = metadir or os.path.join(WORK, "tlc", "%s_%d_%d" % (os.path.basename(module).replace(".tla", ""), os.getpid(), random.randrange(1 << 30)))
    os.makedirs(os.path.dirname(md), exist_ok=True)
    cmd = ["timeout", str(int(timeout)), "java", "-Xss1g", "-Xmx" + heap, "-XX:+UseParallelGC", "-XX:ParallelGCThreads=%d" % max(2, min(8, workers)),
           "-DTLA-Library=" + SPEC]
    if deque:
        cmd.append("-Dtlc2.tool.queue.IStateQueue=StateDeque")
    cmd += ["-cp", TLA_JAR, "tlc2.TLC", "-workers", str(workers), "-metadir", md, "-cleanup", "-noGenerateSpecTE"]
    if cfg:
        cmd += ["-config", cfg]
    if simulate is not None:
        cmd += ["-simulate", "num=%d" % simulate]
        if depth:
            cmd += ["-depth", str(depth)]
    if seed_ is not None:
        cmd += ["-seed", str(seed_)]
    if coverage:
        cmd += ["-coverage", "1"]
    if dfid:
        cmd += ["-dfid", str(dfid)]
    if extra:
        cmd += extra
    cmd.append(module)
    env = dict(os.environ)
    env.pop("JAVA_TOOL_OPTIONS", None)
    if env_extra:
        env.update(env_extra)
    t0 = time.time()
    r = subprocess.run(cmd, cwd=cwd, env=env, stdout=subprocess.PIPE, stderr=subprocess.STDOUT, text=True)
    res.wall = time.time() - t0
    res.out = r.stdout
    res.rc = r.returncode
    shutil.rmtree(md, ignore_errors=True)
    if r.returncode == 124:
        res.error = "timeout"
        return res
    m = None
    for m in re.finditer(r"(\d+) states generated, (\d+) distinct states found", r.stdout):
        pass
    if m:
        res.generated, res.distinct = int(m.group(1)), int(m.group(2))
    m = re.search(r"depth of the complete state graph search is (\d+)", r.stdout)
    if m:
        res.depth = int(m.group(1))
    m = re.search(r"Invariant (\S+) is violated", r.stdout)
    if m:
        res.violation = m.group(1)
    m2 = re.search(r"(Temporal properties were violated|Action property (\S+) is violated|property (\S+) is violated)", r.stdout)
    if m2 and not res.violation:
        res.violation = m2.group(0)
    if "Model checking completed. No error has been found." in r.stdout or (simulate is not None and "Error:" not in r.stdout and r.returncode == 0):
        res.ok = True
    elif res.violation is None:
        m = re.search(r"Error: (.*)", r.stdout)
        res.error = m.group(1) if m else "tlc exit %d" % r.returncode
        if "Deadlock reached" in r.stdout:
            res.error = "deadlock"
    # TLC prints PrintT output as raw lines
    res.prints = [l for l in r.stdout.splitlines() if l.startswith('"') or l.startswith("<<")]
    return res


def tlc_or_die(*a, **kw):
    r = tlc(*a, **kw)
    if r.error:
        sys.stderr.write(r.out[-5000:])
        raise ToolError("TLC error on %s: %s" % (a[0], r.error))
    return r


def json_prints(res, tag=None):
    """Decodes lines printed with PrintT(ToJson(x)) : a TLA+ string literal holding JSON."""
    out = []
    for l in res.prints:
        if not l.startswith('"'):
            continue
        try:
            s = json.loads(l)
            v = json.loads(s)
        except Exception:
            continue
        if tag is None or (isinstance(v, dict) and v.get("tag") == tag):
            out.append(v)
    return out


# ---------------------------------------------------------------------------------------------
# findings / evidence / reporting
def load_findings():
    p = os.path.join(ROOT, "known_findings.json")
    if not os.path.exists(p):
        return {"open": [], "fixed": []}
    with open(p) as f:
        return json.load(f)


class Check:
    """Collects results of one property check and produces evidence + exit code."""

    def __init__(self, pid, tier, level="model_checking"):
        self.pid = pid
        self.tier = tier
        self.level = level
        self.t0 = time.time()
        self.states = 0
        self.transitions = 0
        self.traces = 0
        self.evaluations = 0
        self.nontrivial = set()
        self.samples = []
        self.violations = []  # (signature, description, replay dict)
        self.known_hits = {}
        self.extra = {}
        self.assumptions = []
        self.rule = ""
        self.findings = [f for f in load_findings().get("open", []) if f.get("property") == pid]
        workdir(pid)

    def add_tlc(self, res):
        self.states += res.distinct
        self.transitions += res.generated

    def sample(self, s, cap=6):
        if len(self.samples) < cap:
            self.samples.append(s)

    def note_case(self, key):
        self.evaluations += 1
        self.nontrivial.add(key if isinstance(key, str) else json.dumps(key, sort_keys=True))

    def violation(self, signature, description, replay):
        """signature: stable string identifying the failing input/site (matched against known findings)."""
        for f in self.findings:
            if re.search(f["signature"], signature):
                self.known_hits.setdefault(f["id"], [f, 0])[1] += 1
                return False
        self.violations.append((signature, description, replay))
        return True

    def finish(self):
        wall = time.time() - self.t0
        for fid, (f, n) in sorted(self.known_hits.items()):
            print("KNOWN-FINDING: property=%s %s [%s] (%d occurrence(s) this run)" % (self.pid, f["what"], fid, n))
        rdir = workdir(self.pid, "replay", clean=True)
        # one replay file / VIOLATION line per distinct signature (first occurrence), capped
        groups = {}
        for sig, desc, rep in self.violations:
            groups.setdefault(sig, []).append((desc, rep))
        for i, (sig, items) in enumerate(sorted(groups.items())[:40]):
            desc, rep = items[0]
            path = os.path.join(rdir, "viol_%02d.json" % i)
            with open(path, "w") as f:
                json.dump({"property": self.pid, "signature": sig, "description": desc, "occurrences": len(items),
                           "seed": seed(), "replay": rep}, f, indent=1)
            print("VIOLATION property=%s replay=%s" % (self.pid, path))
            print("  [%d occurrence(s)] %s :: %s" % (len(items), sig, desc[:400]))
        if len(groups) > 40:
            print("  ... %d further distinct violation signatures not listed" % (len(groups) - 40))
        cov = {
            "states": int(self.states),
            "transitions": int(self.transitions),
            "traces_validated_against_impl": int(self.traces),
            "evaluations": int(self.evaluations),
            "distinct_nontrivial": len(self.nontrivial),
            "rule": self.rule,
            "samples": self.samples if self.samples else ["(none)"],
        }
        cov.update(self.extra)
        ev = {
            "property_id": self.pid,
            "tier": self.tier,
            "seed": seed(),
            "level": self.level,
            "coverage": cov,
            "assumptions": self.assumptions,
            "wall_s": round(wall, 2),
            "violations": len(self.violations),
        }
        if self.known_hits:
            ev["coverage"]["known_findings_hit"] = {k: v[1] for k, v in self.known_hits.items()}
        os.makedirs(EVID, exist_ok=True)
        with open(os.path.join(EVID, self.pid + ".json"), "w") as f:
            json.dump(ev, f, indent=1)
        print("[%s/%s] states=%d transitions=%d traces=%d evals=%d violations=%d known=%d wall=%.1fs" % (
            self.pid, self.tier, self.states, self.transitions, self.traces, self.evaluations,
            len(self.violations), len(self.known_hits), wall))
        return 1 if self.violations else 0
