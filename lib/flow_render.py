"""Rendering of MasmFlow ASTs (structured control flow) to Miden assembly."""
from lib.masm_render import Renderer


def render_body(r, body, ind="  "):
    out = []
    for nd in body:
        k = nd["k"]
        if k == "ins":
            out.append(ind + r.instr(nd["ins"]))
        elif k == "if":
            out.append(ind + "if.true")
            out += render_body(r, nd["t"], ind + "  ") or [ind + "  nop"]
            if nd["e"]:
                out.append(ind + "else")
                out += render_body(r, nd["e"], ind + "  ")
            out.append(ind + "end")
        elif k == "while":
            out.append(ind + "while.true")
            out += render_body(r, nd["b"], ind + "  ")
            out.append(ind + "end")
        elif k == "repeat":
            out.append(ind + "repeat.%d" % nd["n"])
            out += render_body(r, nd["b"], ind + "  ")
            out.append(ind + "end")
        elif k == "exec":
            out.append(ind + "exec.p%d" % nd["p"])
        elif k == "call":
            out.append(ind + "call.p%d" % nd["p"])
        else:
            raise ValueError(k)
    return out


def render_program(main, procs):
    r = Renderer()
    text = []
    # a procedure may only reference procedures defined before it: emit in dependency order
    by_slot = {p["slot"]: p for p in procs}

    def refs(body):
        out = []
        for nd in body:
            if nd["k"] in ("exec", "call"):
                out.append(nd["p"])
            elif nd["k"] == "if":
                out += refs(nd["t"]) + refs(nd["e"])
            elif nd["k"] in ("while", "repeat"):
                out += refs(nd["b"])
        return out
    order, done = [], set()

    def visit(slot):
        if slot in done:
            return
        done.add(slot)
        for r_ in refs(by_slot[slot]["body"]):
            visit(r_)
        order.append(by_slot[slot])
    for slot in sorted(by_slot):
        visit(slot)
    for p in order:
        hdr = "proc.p%d" % p["slot"] + (".%d" % p["locals"] if p["locals"] else "")
        text.append(hdr)
        text += render_body(r, p["body"])
        text.append("end")
    text.append("begin")
    text += render_body(r, main)
    text.append("end")
    return "\n".join(r.consts + text) + "\n"
