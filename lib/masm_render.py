"""Rendering of specification-level instruction records into Miden assembly text."""
from lib.common import unlimbs, P


def felt(v):
    return unlimbs(v)


def hex_be(x):
    h = "%x" % x
    if len(h) % 2:
        h = "0" + h
    return "0x" + h


def hex_word_le(vals):
    return "0x" + "".join(x.to_bytes(8, "little").hex() for x in vals)


class Renderer:
    def __init__(self):
        self.consts = []  # lines "const.NAME=..."

    def const(self, value_expr):
        name = "C%d" % len(self.consts)
        self.consts.append("const.%s=%s" % (name, value_expr))
        return name

    def instr(self, ins):
        op, p, imm, err, form = ins["op"], ins.get("p", 0), [felt(v) for v in ins.get("imm", [])], ins.get("err", 0), ins.get("form", "dec")
        if op == "push":
            if form == "hex":
                return "push." + ".".join(hex_be(x) for x in imm)
            if form == "word":
                return "push." + hex_word_le(imm)
            if form == "const":
                return "push." + ".".join(self.const(str(x)) for x in imm)
            if form == "expr":
                parts = []
                for x in imm:
                    if x >= 2:
                        a = self.const(str(x - 1))
                        parts.append(self.const("%s+1" % a))
                    else:
                        a = self.const(str(x + 5))
                        parts.append(self.const("(%s-5)" % a))
                return "push." + ".".join(parts)
            return "push." + ".".join(str(x) for x in imm)
        if op.startswith("adv."):
            # advice injectors: the bare form has no parameter (key offset 0 / domain 0)
            return op if form == "bare" or op in ("adv.insert_mem", "adv.insert_hperm") else "%s.%d" % (op, p)
        if op == "exp.u":
            return "exp.u%d" % p
        if op in ("dup", "dupw", "swap", "swapw", "movup", "movdn", "movupw", "movdnw", "adv_push",
                  "loc_load", "loc_loadw", "loc_store", "loc_storew", "locaddr"):
            return "%s.%d" % (op, p)
        if op in ("assert", "assertz", "assert_eq", "assert_eqw", "u32assert", "u32assert2", "u32assertw"):
            if form == "errconst":
                return "%s.err=%s" % (op, self.const(str(err)))
            if err != 0 or form == "err0":
                return "%s.err=%d" % (op, err)
            return op
        if imm:
            return "%s.%d" % (op, imm[0])
        return op

    def program(self, prog, procs=""):
        body = [self.instr(i) for i in prog]
        return "\n".join(self.consts) + ("\n" if self.consts else "") + procs + "begin\n  " + "\n  ".join(body) + "\nend\n"
